"""Per-property job tables for ./check (see DESIGN.md sections 1.2 and 4).

A job is one family of test functions of harness/props run as `shards`
processes with `checks` rapid cases each. kind: rapid (default) | plain | fuzz.
"""


def rapid(name, run, checks, shards, **kw):
    d = {"name": name, "run": run, "checks": checks, "shards": shards, "kind": "rapid"}
    d.update(kw)
    return d


def plain(name, run, **kw):
    d = {"name": name, "run": run, "kind": "plain", "shards": 1}
    d.update(kw)
    return d


def fuzz(name, run, fuzztime, **kw):
    d = {"name": name, "run": run, "kind": "fuzz", "fuzztime": fuzztime, "shards": 1, "timeout": 1800}
    d.update(kw)
    return d


CHECKS = {
    "C01": {
        "quick": [
            plain("regress", "^TestRegressC01"),
            rapid("encode", "^TestC01Encode$", 12000, 3),
            rapid("logger", "^TestC01Logger$", 8000, 1),
        ],
        "thorough": [
            plain("regress", "^TestRegressC01"),
            rapid("encode", "^TestC01Encode$", 150000, 12, timeout=3000),
            rapid("logger", "^TestC01Logger$", 100000, 4, timeout=3000),
            fuzz("fuzz", "^FuzzC01$", "120s"),
        ],
    },
    "C02": {
        "quick": [
            plain("regress", "^TestRegressC02"),
            rapid("tree", "^TestC02Tree$", 10000, 3),
            rapid("scalar", "^TestC02Scalar$", 40000, 1),
        ],
        "thorough": [
            plain("regress", "^TestRegressC02"),
            rapid("tree", "^TestC02Tree$", 150000, 12, timeout=3000),
            rapid("scalar", "^TestC02Scalar$", 500000, 4, timeout=3000),
        ],
    },
    "C17": {
        "quick": [
            plain("regress", "^TestRegressC17"),
            rapid("model", "^TestC17Model$", 40000, 2),
            rapid("partition", "^TestC17Partition$", 15000, 1),
            rapid("level", "^TestC17Level$", 15000, 1),
        ],
        "thorough": [
            plain("regress", "^TestRegressC17"),
            rapid("model", "^TestC17Model$", 400000, 8, timeout=3000),
            rapid("partition", "^TestC17Partition$", 150000, 4, timeout=3000),
            rapid("level", "^TestC17Level$", 200000, 4, timeout=3000),
            fuzz("fuzz", "^FuzzC17$", "90s"),
        ],
    },
}

LEVELS = {}

RULES = {
    "C17": "cases = generated op sequences (Write chunks over a newline-heavy alphabet incl. empty/lone-newline/long-run/raw-byte chunks, Sync at arbitrary positions, final Close) checked against a pending-line reference model, plus two independent partitions of one stream (metamorphic) and disabled/switching levels. Non-trivial = at least 2 writes with a line spanning a chunk boundary and an empty interior line (level job: additionally disabled or switched). Distinct = distinct (job, op-kind/chunk-class sequence) signatures.",
}

ASSUMPTIONS = {
    "*": [
        "held on everything generated only: rapid/go-fuzz search never establishes absence",
        "trusted: Go toolchain and runtime, pgregory.net/rapid v1.3.0 generators, the reference models and oracles in /verif/harness/props",
    ],
    "C17": ["zaptest/observer records every entry that the writer logs (observer core enabled at Debug)"],
}

TRUST = "Trusted base: Go toolchain/runtime, rapid's generators and shrinker, the reference model/oracle code in /verif/harness/props, and the standard-library packages used as reference implementations. Search-based: absence of a counterexample in the generated cases is not a proof."

META = {
    "C01": {
        "technique": "property-based testing (rapid): generated EncoderConfig x Entry x With-chain x field trees against a byte-level JSON validity predicate; differential logger-path vs direct encoder; coverage-guided fuzzing of the same property",
        "level_text": "Field trees (every constructor family, nesting to depth 3-4, namespaces inside nested objects/array elements, marshalers failing after a partial emit, panicking/nil stringers and errors, unencodable reflected values), hostile keys/strings and every combination of built-in, nil, no-op and layout sub-encoders are generated; each encoded entry must end with the configured line ending, contain no raw control byte, be valid UTF-8 and be accepted as exactly one object by a strict JSON parse; through a Logger the sink must see exactly one Write per entry with the same bytes. Exploration: the input space is unbounded, the oracle is a total validity predicate, so many small generated cases are the fitting evidence.",
        "level_note": TRUST + " encoding/json (json.Valid and Decoder.Token) is the reference JSON syntax checker. Custom user sub-encoders that append several values are outside the quantifier (built-in, nil, no-op, layouts).",
    },
    "C02": {
        "technique": "property-based testing (rapid): Spec-derived reference encoding compared with the token-decoded output (order and duplicates preserved), numeric round trips bit-for-bit, differential against zapcore.MapObjectEncoder",
        "level_text": "Every generated field tree carries its own expected ordered tree (computed from the typed Spec, never through zap's Field.AddTo); the decoded line must equal metadata (documented order and omission rules) + context + call-site fields + stack trace, with integers as decimal text, floats/complex by strconv round trip bit-for-bit, strings with U+FFFD replacement, base64 binary, documented error expansion (key, keyVerbose, keyCauses), times/durations per configured built-in encoder and reflected values token-equal to encoding/json; the same fields added to MapObjectEncoder must give the same nesting, keys and typed values. Exploration over an unbounded value space with boundary tables.",
        "level_note": TRUST + " strconv, time.Format, encoding/json and encoding/base64 are the reference implementations of the documented representations. D3 (DESIGN.md): TimeKey set with a nil EncodeTime is outside the C02 domain (zap.Config rejects it); times outside the int64-nanosecond range are only checked for token kind under epoch encoders (UnixNano is undefined there).",
    },
    "C17": {
        "technique": "property-based testing (rapid): op-sequence generation vs reference line model, metamorphic re-partitioning, coverage-guided fuzzing of the same property",
        "level_text": "Generated Write/Sync/Close histories over newline-heavy byte streams are compared message-for-message with a pending-line reference model; two independent partitions of one stream must log identical messages; disabled/switching levels must log nothing while disabled. Exploration is the right level: the property quantifies over unbounded streams and partitions, and the writer is small enough that short sequences reach every branch (fast path, buffered path, empty interior lines, Sync/Close).",
        "level_note": TRUST + " The observer core is assumed to record every logged entry.",
    },
}
