"""Per-property job tables for ./check (see DESIGN.md sections 1.2 and 4).

A job is one family of test functions of harness/props run as `shards`
processes with `checks` rapid cases each. kind: rapid (default) | plain | fuzz.
"""


def rapid(name, run, checks, shards, **kw):
    d = {"name": name, "run": run, "checks": checks, "shards": shards, "kind": "rapid"}
    d.update(kw)
    return d


def plain(name, run, **kw):
    d = {"name": name, "run": run, "kind": "plain", "shards": 1}
    d.update(kw)
    return d


def fuzz(name, run, fuzztime, **kw):
    d = {"name": name, "run": run, "kind": "fuzz", "fuzztime": fuzztime, "shards": 1, "timeout": 1800}
    d.update(kw)
    return d


CHECKS = {
    "C17": {
        "quick": [
            plain("regress", "^TestRegressC17"),
            rapid("model", "^TestC17Model$", 40000, 2),
            rapid("partition", "^TestC17Partition$", 15000, 1),
            rapid("level", "^TestC17Level$", 15000, 1),
        ],
        "thorough": [
            plain("regress", "^TestRegressC17"),
            rapid("model", "^TestC17Model$", 400000, 8, timeout=3000),
            rapid("partition", "^TestC17Partition$", 150000, 4, timeout=3000),
            rapid("level", "^TestC17Level$", 200000, 4, timeout=3000),
            fuzz("fuzz", "^FuzzC17$", "90s"),
        ],
    },
}

LEVELS = {}

RULES = {
    "C17": "cases = generated op sequences (Write chunks over a newline-heavy alphabet incl. empty/lone-newline/long-run/raw-byte chunks, Sync at arbitrary positions, final Close) checked against a pending-line reference model, plus two independent partitions of one stream (metamorphic) and disabled/switching levels. Non-trivial = at least 2 writes with a line spanning a chunk boundary and an empty interior line (level job: additionally disabled or switched). Distinct = distinct (job, op-kind/chunk-class sequence) signatures.",
}

ASSUMPTIONS = {
    "*": [
        "held on everything generated only: rapid/go-fuzz search never establishes absence",
        "trusted: Go toolchain and runtime, pgregory.net/rapid v1.3.0 generators, the reference models and oracles in /verif/harness/props",
    ],
    "C17": ["zaptest/observer records every entry that the writer logs (observer core enabled at Debug)"],
}

TRUST = "Trusted base: Go toolchain/runtime, rapid's generators and shrinker, the reference model/oracle code in /verif/harness/props, and the standard-library packages used as reference implementations. Search-based: absence of a counterexample in the generated cases is not a proof."

META = {
    "C17": {
        "technique": "property-based testing (rapid): op-sequence generation vs reference line model, metamorphic re-partitioning, coverage-guided fuzzing of the same property",
        "level_text": "Generated Write/Sync/Close histories over newline-heavy byte streams are compared message-for-message with a pending-line reference model; two independent partitions of one stream must log identical messages; disabled/switching levels must log nothing while disabled. Exploration is the right level: the property quantifies over unbounded streams and partitions, and the writer is small enough that short sequences reach every branch (fast path, buffered path, empty interior lines, Sync/Close).",
        "level_note": TRUST + " The observer core is assumed to record every logged entry.",
    },
}
