"""Per-property job tables for ./check (see DESIGN.md sections 1.2 and 4).

A job is one family of test functions of harness/props run as `shards`
processes with `checks` rapid cases each. kind: rapid (default) | plain | fuzz.
"""


def rapid(name, run, checks, shards, **kw):
    d = {"name": name, "run": run, "checks": checks, "shards": shards, "kind": "rapid"}
    d.update(kw)
    return d


def plain(name, run, **kw):
    d = {"name": name, "run": run, "kind": "plain", "shards": 1}
    d.update(kw)
    return d


def fuzz(name, run, fuzztime, **kw):
    d = {"name": name, "run": run, "kind": "fuzz", "fuzztime": fuzztime, "shards": 1, "timeout": 1800}
    d.update(kw)
    return d


CHECKS = {
    "C04": {
        "quick": [
            plain("regress", "^TestRegressC04"),
            rapid("concurrent", "^TestC04Concurrent$", 1500, 4, timeout=300, shrinktime="5s"),
            rapid("writeforwarded", "^TestC04WriteForwarded$", 3000, 1, timeout=300, shrinktime="5s"),
        ],
        "thorough": [
            plain("regress", "^TestRegressC04"),
            rapid("concurrent", "^TestC04Concurrent$", 20000, 12, timeout=3000),
            rapid("concurrent-race", "^TestC04Concurrent$", 2500, 4, race=True, timeout=3000),
            rapid("writeforwarded", "^TestC04WriteForwarded$", 100000, 2, timeout=3000),
        ],
    },
    "C09": {
        "quick": [
            plain("regress-race", "^TestRegressC09", race=True),
            rapid("concurrent-race", "^TestC09Concurrent$", 400, 4, race=True, timeout=300, shrinktime="5s"),
        ],
        "thorough": [
            plain("regress-race", "^TestRegressC09", race=True),
            rapid("concurrent-race", "^TestC09Concurrent$", 10000, 16, race=True, timeout=3000),
        ],
    },
    "C19": {
        "quick": [
            plain("regress", "^TestRegressC19"),
            rapid("open", "^TestC19Open$", 2500, 2),
            rapid("url", "^TestC19URL$", 2500, 1),
            rapid("raw", "^TestC19Raw$", 2500, 1),
            rapid("relative", "^TestC19Relative$", 1000, 1),
            rapid("decoy", "^TestC19Decoy$", 1500, 1),
            rapid("stdlog", "^TestC19StdLog$", 8000, 1),
            rapid("registry", "^TestC19Registry$", 3000, 1),
            rapid("lists", "^TestC19BuildLists$", 1500, 1),
        ],
        "thorough": [
            plain("regress", "^TestRegressC19"),
            rapid("open", "^TestC19Open$", 40000, 6, timeout=3000),
            rapid("url", "^TestC19URL$", 40000, 4, timeout=3000),
            rapid("raw", "^TestC19Raw$", 40000, 2, timeout=3000),
            rapid("relative", "^TestC19Relative$", 20000, 1, timeout=3000),
            rapid("decoy", "^TestC19Decoy$", 20000, 2, timeout=3000),
            rapid("stdlog", "^TestC19StdLog$", 200000, 2, timeout=3000),
            rapid("registry", "^TestC19Registry$", 40000, 2, timeout=3000),
            rapid("lists", "^TestC19BuildLists$", 20000, 4, timeout=3000),
            fuzz("fuzz", "^FuzzC19$", "60s"),
        ],
    },
    "C20": {
        "quick": [
            plain("regress", "^(TestRegressC20|TestC20RoundTrip)$"),
            rapid("text", "^TestC20Text$", 40000, 2),
            rapid("http", "^TestC20HTTP$", 15000, 2),
        ],
        "thorough": [
            plain("regress", "^(TestRegressC20|TestC20RoundTrip)$"),
            rapid("text", "^TestC20Text$", 600000, 8, timeout=3000),
            rapid("http", "^TestC20HTTP$", 300000, 8, timeout=3000),
            fuzz("fuzz", "^FuzzC20$", "120s"),
        ],
    },
    "C01": {
        "quick": [
            plain("regress", "^TestRegressC01"),
            rapid("encode", "^TestC01Encode$", 12000, 3),
            rapid("logger", "^TestC01Logger$", 8000, 1),
        ],
        "thorough": [
            plain("regress", "^TestRegressC01"),
            rapid("encode", "^TestC01Encode$", 150000, 12, timeout=3000),
            rapid("logger", "^TestC01Logger$", 100000, 4, timeout=3000),
            fuzz("fuzz", "^FuzzC01$", "120s"),
        ],
    },
    "C02": {
        "quick": [
            plain("regress", "^TestRegressC02"),
            rapid("tree", "^TestC02Tree$", 10000, 3),
            rapid("scalar", "^TestC02Scalar$", 40000, 1),
        ],
        "thorough": [
            plain("regress", "^TestRegressC02"),
            rapid("tree", "^TestC02Tree$", 150000, 12, timeout=3000),
            rapid("scalar", "^TestC02Scalar$", 500000, 4, timeout=3000),
        ],
    },
    "C03": {
        "quick": [
            plain("regress", "^(TestRegressC03|TestC03Completeness|TestKnownC03)$"),
            rapid("scalar", "^TestC03Scalar$", 60000, 2),
            rapid("tree", "^TestC03Tree$", 15000, 2),
            rapid("anyfallback", "^TestC03AnyFallback$", 5000, 1),
            rapid("anymulti", "^TestC03AnyMulti$", 5000, 1),
        ],
        "thorough": [
            plain("regress", "^(TestRegressC03|TestC03Completeness|TestKnownC03)$"),
            rapid("scalar", "^TestC03Scalar$", 1000000, 8, timeout=3000),
            rapid("tree", "^TestC03Tree$", 200000, 8, timeout=3000),
            rapid("anyfallback", "^TestC03AnyFallback$", 100000, 1),
            rapid("anymulti", "^TestC03AnyMulti$", 100000, 1),
        ],
    },
    "C05": {
        "quick": [
            plain("regress", "^TestRegressC05"),
            rapid("levels", "^TestC05Levels$", 15000, 4),
            rapid("longlived", "^TestC05LongLived$", 40, 2, timeout=300, shrinktime="5s"),
        ],
        "thorough": [
            plain("regress", "^TestRegressC05"),
            rapid("levels", "^TestC05Levels$", 300000, 16, timeout=3000),
            rapid("longlived", "^TestC05LongLived$", 1500, 4, timeout=3000),
        ],
    },
    "C06": {
        "quick": [
            plain("regress", "^(TestRegressC06|TestC06Completeness)$"),
            plain("sweep", "^TestC06Sweep$"),
            rapid("terminal", "^TestC06Terminal$", 5000, 3),
            rapid("syncinflight", "^TestC06SyncInFlight$", 1500, 1),
            rapid("build", "^TestC06Build$", 4000, 1),
            rapid("child", "^TestC06Child$", 60, 2),
        ],
        "thorough": [
            plain("regress", "^(TestRegressC06|TestC06Completeness)$"),
            plain("sweep", "^TestC06Sweep$"),
            rapid("terminal", "^TestC06Terminal$", 60000, 12, timeout=3000),
            rapid("syncinflight", "^TestC06SyncInFlight$", 20000, 4, timeout=3000),
            rapid("build", "^TestC06Build$", 100000, 4, timeout=3000),
            rapid("child", "^TestC06Child$", 200, 12, timeout=3000),
        ],
    },
    "C07": {
        "quick": [
            plain("regress", "^TestRegressC07"),
            rapid("context", "^TestC07Context$", 4000, 4),
            rapid("slogtree", "^TestC07Slog$", 3000, 2),
            rapid("lazyfirstuse", "^TestC07LazyFirstUse$", 120, 2, timeout=120, shrinktime="5s"),
            rapid("longchain", "^TestC07LongChain$", 120, 2, timeout=300, shrinktime="5s"),
        ],
        "thorough": [
            plain("regress", "^TestRegressC07"),
            rapid("context", "^TestC07Context$", 80000, 16, timeout=3000),
            rapid("slogtree", "^TestC07Slog$", 40000, 8, timeout=3000),
            rapid("lazyfirstuse", "^TestC07LazyFirstUse$", 3000, 8, timeout=3000),
            rapid("longchain", "^TestC07LongChain$", 4000, 4, timeout=3000),
        ],
    },
    "C08": {
        "quick": [
            plain("regress", "^TestRegressC08"),
            rapid("sequential", "^TestC08Sequential$", 2500, 4),
            rapid("concurrent", "^TestC08Concurrent$", 300, 2),
        ],
        "thorough": [
            plain("regress", "^TestRegressC08"),
            rapid("sequential", "^TestC08Sequential$", 60000, 12, timeout=3000),
            rapid("concurrent-race", "^TestC08Concurrent$", 2500, 8, race=True, timeout=3000),
        ],
    },
    "C10": {
        "quick": [
            plain("regress", "^TestRegressC10"),
            plain("exhaustive", "^TestC10SinksExhaustive$"),
            rapid("fields", "^TestC10Fields$", 8000, 3),
            rapid("sinks", "^TestC10Sinks$", 15000, 1),
            rapid("concurrent", "^TestC10Concurrent$", 400, 2, timeout=300, shrinktime="5s"),
            rapid("longrun", "^TestC10LongRun$", 25, 3, timeout=300, shrinktime="5s"),
        ],
        "thorough": [
            plain("regress", "^TestRegressC10"),
            plain("exhaustive", "^TestC10SinksExhaustive$"),
            rapid("fields", "^TestC10Fields$", 120000, 12, timeout=3000),
            rapid("sinks", "^TestC10Sinks$", 200000, 4, timeout=3000),
            rapid("concurrent-race", "^TestC10Concurrent$", 2500, 4, race=True, timeout=3000),
            rapid("longrun", "^TestC10LongRun$", 600, 6, timeout=3000),
        ],
    },
    "C11": {
        "quick": [
            plain("regress", "^TestRegressC11"),
            rapid("sequential", "^TestC11Sequential$", 6000, 3),
            rapid("logger", "^TestC11Logger$", 3000, 1),
            rapid("config", "^TestC11Config$", 2000, 1),
            rapid("concurrent", "^TestC11Concurrent$", 300, 2),
            rapid("longwindow", "^TestC11LongWindow$", 40, 2, timeout=300, shrinktime="5s"),
            rapid("hookpanic", "^TestC11HookPanic$", 2000, 1),
        ],
        "thorough": [
            plain("regress", "^TestRegressC11"),
            rapid("sequential", "^TestC11Sequential$", 100000, 12, timeout=3000),
            rapid("logger", "^TestC11Logger$", 50000, 2, timeout=3000),
            rapid("config", "^TestC11Config$", 50000, 2, timeout=3000),
            rapid("concurrent-race", "^TestC11Concurrent$", 3000, 8, race=True, timeout=3000),
            rapid("longwindow", "^TestC11LongWindow$", 600, 4, timeout=3000),
            rapid("hookpanic", "^TestC11HookPanic$", 100000, 1, timeout=3000),
        ],
    },
    "C12": {
        "quick": [
            plain("regress", "^TestRegressC12"),
            rapid("sequential", "^TestC12Sequential$", 1200, 4, timeout=150, shrinktime="5s"),
            rapid("concurrent", "^TestC12Concurrent$", 500, 2, timeout=150, shrinktime="5s"),
            rapid("crash", "^TestC12Crash$", 80, 2, timeout=150, shrinktime="5s"),
            rapid("tickbusy", "^TestC12TickBusy$", 300, 1, timeout=150, shrinktime="5s"),
            rapid("faults", "^TestC12Faults$", 2000, 1, timeout=150, shrinktime="5s"),
            rapid("nested", "^TestC12Nested$", 3000, 1, timeout=150, shrinktime="5s"),
        ],
        "thorough": [
            plain("regress", "^TestRegressC12"),
            rapid("sequential", "^TestC12Sequential$", 40000, 12, timeout=3000),
            rapid("concurrent-race", "^TestC12Concurrent$", 2500, 8, race=True, timeout=3000),
            rapid("crash", "^TestC12Crash$", 300, 10, timeout=3000),
            rapid("tickbusy", "^TestC12TickBusy$", 5000, 2, timeout=3000),
            rapid("faults", "^TestC12Faults$", 60000, 4, timeout=3000),
            rapid("nested", "^TestC12Nested$", 100000, 4, timeout=3000),
        ],
    },
    "C13": {
        "quick": [
            plain("regress", "^(TestRegressC13|TestC13MultiExhaustive)$"),
            rapid("writers", "^TestC13Writers$", 2500, 2),
            rapid("multi", "^TestC13Multi$", 30000, 1),
            rapid("wrappers", "^TestC13Wrappers$", 30000, 1),
            rapid("lock", "^TestC13LockConcurrent$", 300, 1),
            rapid("multilong", "^TestC13MultiLongRun$", 150, 1),
        ],
        "thorough": [
            plain("regress", "^(TestRegressC13|TestC13MultiExhaustive)$"),
            rapid("writers", "^TestC13Writers$", 30000, 8, timeout=3000),
            rapid("multi", "^TestC13Multi$", 500000, 4, timeout=3000),
            rapid("wrappers", "^TestC13Wrappers$", 300000, 2, timeout=3000),
            rapid("lock-race", "^TestC13LockConcurrent$", 3000, 4, race=True, timeout=3000),
            rapid("multilong", "^TestC13MultiLongRun$", 10000, 4, timeout=3000),
            fuzz("fuzz", "^FuzzC13$", "60s"),
        ],
    },
    "C14": {
        "quick": [
            plain("regress", "^TestRegressC14"),
            rapid("args", "^TestC14Args$", 40000, 3),
            rapid("messages", "^TestC14Messages$", 40000, 1),
            rapid("twocalls", "^TestC14TwoCalls$", 20000, 1),
            rapid("longlived", "^TestC14LongLived$", 150, 2, timeout=300, shrinktime="5s"),
        ],
        "thorough": [
            plain("regress", "^TestRegressC14"),
            rapid("args", "^TestC14Args$", 600000, 12, timeout=3000),
            rapid("messages", "^TestC14Messages$", 600000, 4, timeout=3000),
            rapid("twocalls", "^TestC14TwoCalls$", 300000, 4, timeout=3000),
            rapid("longlived", "^TestC14LongLived$", 5000, 4, timeout=3000),
        ],
    },
    "C15": {
        "quick": [
            plain("sweep", "^TestC15Sweep$"),
            rapid("caller", "^TestC15Caller$", 10000, 4),
            rapid("manysites", "^TestC15ManySites$", 60, 1, timeout=300, shrinktime="5s"),
        ],
        "thorough": [
            plain("sweep", "^TestC15Sweep$"),
            rapid("caller", "^TestC15Caller$", 150000, 16, timeout=3000),
            rapid("manysites", "^TestC15ManySites$", 3000, 2, timeout=3000),
        ],
    },
    "C16": {
        "quick": [
            plain("regress", "^TestRegressC16"),
            rapid("console", "^TestC16Console$", 10000, 4),
        ],
        "thorough": [
            plain("regress", "^TestRegressC16"),
            rapid("console", "^TestC16Console$", 150000, 16, timeout=3000),
        ],
    },
    "C18": {
        "quick": [
            plain("regress", "^(TestRegressC18|TestC18Levels)$"),
            rapid("slog", "^TestC18Slog$", 6000, 4),
            rapid("firstuse", "^TestC18FirstUse$", 100, 1),
        ],
        "thorough": [
            plain("regress", "^(TestRegressC18|TestC18Levels)$"),
            rapid("slog", "^TestC18Slog$", 120000, 16, timeout=3000),
            rapid("firstuse", "^TestC18FirstUse$", 3000, 4, timeout=3000),
        ],
    },
    "C17": {
        "quick": [
            plain("regress", "^TestRegressC17"),
            rapid("model", "^TestC17Model$", 40000, 2),
            rapid("partition", "^TestC17Partition$", 15000, 1),
            rapid("level", "^TestC17Level$", 15000, 1),
        ],
        "thorough": [
            plain("regress", "^TestRegressC17"),
            rapid("model", "^TestC17Model$", 400000, 8, timeout=3000),
            rapid("partition", "^TestC17Partition$", 150000, 4, timeout=3000),
            rapid("level", "^TestC17Level$", 200000, 4, timeout=3000),
            fuzz("fuzz", "^FuzzC17$", "90s"),
        ],
    },
}

LEVELS = {"C10": "fault_enumeration", "C12": "fault_enumeration", "C19": "fault_enumeration"}

RULES = {
    "C04": "cases = programs of 2-8 goroutines x 1-30 ops over the front ends Logger.Info/Log, Check+Write, Sugar w/f/ln/plain, child loggers made by With/Named/WithLazy inside the goroutine, the std-log bridge and a zapio.Writer per goroutine, plus Sync, hand-delivered flush ticks and yields; entries carry a unique token (goroutine, sequence) and padding of 0..3x the buffer size with a checkable pattern; sink topologies Lock(sink), CombineWriteSyncers(A,B), zap.Open on two real files, BufferedWriteSyncer(64..4096) over a sink, tee(JSON->Lock, console->Buffered); GOMAXPROCS drawn from {1,2,4,16}; the recording sink copies in two halves with a yield and trips on overlapping entry. Oracle = every stream splits into intact lines (C01 predicate), tokens with intact padding, per-goroutine order, multiset equals accepted entries, per tee branch; no overlap. Non-trivial = lines of different goroutines alternate in the sink and (for buffered sinks) an entry larger than the buffer. Distinct = distinct (topology, buffer size, GOMAXPROCS, goroutines, alternation class). Since session 3: shared context with a reflected value, layout time and short caller encoders, reflected/failing-reflected/error-array/nested-marshaler front ends, several goroutines through ONE core, a topology where one Lock(sink) is used by one core directly and inside CombineWriteSyncers by another, Stop of the buffered syncer while others log; every decoded value naming its goroutine must belong to the line's goroutine. Since round 7: topology file-twice (one file through two zap.Open calls). Since round 8: topology tee-dropper; the tee topology is built twice from a caller-owned list holding a no-op core. Since round 9: front end legacy-text (ill-formed UTF-8 followed by characters that need escaping). Since round 10: sinks with their own Lock/Unlock methods under Lock; user-supplied json-based reflected encoder. Since round 11: syncer stopped before first use; final delivery by Stop alone for every third goroutine count. Since round 13: job writeforwarded (an application-style wrapper core that accepts on its own terms in Check, registers itself and forwards Write, over io/With/lazy/level-increased/sampler cores and tees with their own levels; also Write called directly): one intact line per accepted entry and destination. Since round 15: sinks whose Sync reports EINVAL every time (terminal, pipe).",
    "C09": "cases = programs of 2-8 goroutines x 1-12 ops over the concurrency-safe API (Logger/Sugar log methods incl. terminal levels with returning hooks, Check, With, WithLazy, Named, WithOptions, Level, Sync, Sugar/Desugar, AtomicLevel Set/Level/Enabled/ServeHTTP/MarshalText, ReplaceGlobals/L/S, observer readers, slog handler derivation and Handle, BufferedWriteSyncer Write/Sync/Stop with a real 1ms ticker, Lock-ed syncer over a deliberately unsafe buffer, a second-level lazy child) on a composition of tee(JSON->Lock, console->Buffered, hooked observer) under a sampler, increase-level, logger hooks and a fresh or warmed WithLazy logger; half of the programs focus on 2-5 ops so that several goroutines perform the same first use; run under the race detector with halt_on_error (the program is dumped before it runs). Non-trivial = fresh shared objects and >= 2 goroutines touching one shared object with a writer-like op. Distinct = distinct programs (hash). Since session 3: reflected-context logger shared by all goroutines, unencodable reflected values (also last in the entry), error arrays, nested marshalers, deep stack captures, big entries, std-log bridge, zapgrpc, zapio, a BufferedWriteSyncer over the shared Lock-ed syncer, a Lock-ed syncer whose Sync fails with EINVAL/ENOTTY, and a per-program repeat factor 1-100. Since round 8: consumers scrubbing entries they took from a TakeAll-only observer; Filter with a panicking predicate. Since round 10: BufferedWriteSyncer with a time.NewTicker-based Clock and default interval; ObjectValues over mutex-guarded elements. Since round 11: one ReplaceGlobals restore function shared by goroutines. Since round 14: regress test on long-lived shared objects (an observer with thousands of entries, a sampler, an AtomicLevel) under the race detector with a watchdog.",
    "C19": "cases = (a) Open/Build fault sequences: 0-5 output and 0-4 error-output paths, each a scripted test-scheme URL (succeeds with a counting sink or fails), an unknown scheme, a path in a missing directory, a real file, stdout/stderr, an upper-case scheme with query/fragment, or a rejected file URL - every subset/position failing; Config error paths (missing level, unknown/empty/upper-case encoding, TimeKey without EncodeTime); (b) file URLs built from components (scheme case, user info, host, port, path needing escapes, query, fragment) so verdict and decoded path are known by construction; raw strings with invariants only; (c) RedirectStdLog/At under arbitrary prior flags/prefix/writer with valid and invalid levels; (d) sink scheme and encoder names from a grammar (valid, upper-case, empty, leading digit, illegal characters, non-ASCII incl. U+212A/U+017F/U+0130, duplicates in any case). Non-trivial = >= 2 sinks with a failure after a success; URL with exactly one disqualifying component; rejected registration. Distinct = distinct (mode, path-kind sequence) etc. Since session 3: file references whose decoded path cannot be created, with decoy directories for mis-decoded variants (job decoy); an encoder whose constructor fails; sinks whose Close fails during rollback. Since round 7: scheme-less relative paths with query or fragment. Since round 8: preset configurations do not alias (TestRegressC19Presets). Since round 9: concurrent registration of one scheme (400 trials x 8 goroutines behind a spin barrier). Since round 11: nested redirections undone innermost first. Since round 12: job lists (path lists drawn from one pool: repeats, shared destinations, same set); one- and two-character scheme names; raw strings opened from inside the scratch directory. Since round 14: file URLs spelled with more escapes than necessary. Since round 15: queries a form parser makes nothing of (separators only, semicolons, bad escapes). Since round 16: an encoder constructor that panics during Build leaves the registry usable; the standard logger previously pointed at NewStdLog's writer by hand.",
    "C12": "cases = rapid state machine over one BufferedWriteSyncer with Size in 1..64 or 4096 and a harness-owned ticker: Write of length {0, 1, exactly the free space, free+1, size, size+1, 3*size, random} with unique content, Sync, tick (processed = the recording sink saw the resulting Sync), Stop (repeated), and all of these after Stop; concurrent: 2-6 goroutines running scripts of framed writes, Sync, ticks and Stop against one syncer; crash: a child process runs a generated script against a real file through a sink that SIGKILLs the process at a generated sink-call index (before or after the call) or between two script ops, acknowledging after every returned Sync/first Stop. Oracle = model list of accepted writes (prefix, whole-write alignment of every sink write, held back <= Size, flushed+synced after Sync/first Stop/processed tick, no flush goroutine after Stop); crash: the file is a whole-write-aligned prefix containing everything acknowledged. Non-trivial = a write that does not fit into a non-empty buffer and a write larger than the buffer (crash: the kill landed). Distinct = distinct (size, op sequence) resp. crash points. Since session 3: the harness clock advances by drawn fractions of the interval between operations; job faults: scripted failing sink Write/Sync calls with the oracle 'nil from Sync/Stop implies delivered and synced; an error only after a sink fault; after Sync faults alone nothing is lost and every later Sync reaches the sink'. Since round 8: action reconfigure (Size reassigned after start). Since round 9: buffer sizes >= 4095 that are not block-aligned. Since round 10: value-typed field-less clock; exactly one ticker with the effective interval. Since round 12: job nested (a buffered syncer over a buffered syncer that is also written to directly: wholeness, per-writer order, no overtaking, Sync delivers both). Since round 14: Size left at 0 (the documented default) with the model of a 256 kB syncer. Since round 16: a Clock whose first NewTicker panics (the Write that triggered it accepts nothing; the syncer is as good as new). Since round 17: ticks that carry the zero time.",
    "C13": "cases = payloads (empty, whitespace-only, with/without trailing newline or CRLF, leading/trailing spaces, up to 1 MiB, arbitrary bytes) on zapio.Writer (enabled and disabled), the std-log bridge writer (NewStdLog, NewStdLogAt, RedirectStdLog+log.Writer), zaptest.TestingWriter (plain and markFailed) and BufferedWriteSyncer (sizes 0..256 KiB); multi-syncers of 1-5 scripted sinks over 1-4 calls with a full outcome vector per sink and call (count in {len, 0, 1, len-1}, error or nil, Sync error or nil) and exhaustive enumeration of all 16^k vectors for k<=2 (+ a slice of k=3); AddSync/Lock relays over scripted results; 2-8 goroutines of Write/Sync through Lock onto an overlap-detecting sink. Non-trivial = the minimum count is not at index 0, or a payload the writer trims/splits. Distinct = distinct outcome matrices / payload classes. Since session 3: Lock/AddSync/CombineWriteSyncers must relay the very error value (io and errno values, PathError) and stay usable afterwards; concurrent Write/Sync through Lock over combined and buffered syncers. Since round 7: Write / io.WriteString / fmt.Fprintf as interchangeable routes (all two-sink vectors exhaustively), multi syncer under Lock. Since round 8: caller-owned syncer lists with io.Discard members, unchanged after NewMultiWriteSyncer, combinator built twice. Since round 9: sinks failing with identical error texts. Since round 10: sinks embedding a mutex under Lock; AddSync of writers with Flush/Close/Stop. Since round 11: BufferedWriteSyncer stopped once before its first use. Since round 12: Lock over groups whose members are locked already, and a locked member also used directly. Since round 14: job multilong (a multi syncer over thousands of writes with destinations down for up to 2100 of them). Since round 15: sinks that report more than len(p) in multi syncers. Since round 17: user sinks embedding *os.File under Lock; a buffered syncer over a locked syncer that is also written to directly. Since round 18: CombineWriteSyncers() without inputs accepts writes.",
    "C20": "cases = (a) level texts: the seven names and 'warning' in every letter-case mix, '', near misses (spaces, prefixes, Level(7)), non-ASCII look-alikes (U+0130, dotless i, full-width, zero-width), arbitrary strings and bytes, against targets holding any of the 256 values, through Level.UnmarshalText, Set/flag parsing, ParseLevel, ParseAtomicLevel, AtomicLevel.UnmarshalText, JSON and YAML documents; a sweep of all 256 values through String/CapitalString/MarshalText/JSON/YAML/flag round trips; (b) sequences of 1-8 HTTP requests (GET, PUT, POST, DELETE, HEAD, PATCH, lower-case, unknown methods; JSON/form/other/no content type; well-formed JSON, odd JSON, form body, query parameter, both, garbage, empty) against one AtomicLevel shared with a live derived logger. Oracle = ASCII-only reference parser; HTTP invariants plus accept/reject known by construction. Non-trivial = invalid or mixed-case text; HTTP: a rejected request between two accepted PUTs with different levels. Distinct = distinct text classes / sequence shapes. Since session 3: valid names with a prefix/suffix; AtomicLevel.UnmarshalText keeps earlier copies attached; zero AtomicLevel target; response writers that fail, with the level changed while the response is written. Since round 8: MarshalText results are overwritten by the caller. Since round 9: gated PUT body with a cancelled request context (an error answer is final). Since round 11: overlapping PUT requests (a rejected one undoes nothing). Since round 12: JSON bodies naming the level several times with valid and invalid values. Since round 13: AtomicLevels that start at an unnamed level (GET reports it). Since round 14: one AtomicLevel set 2^24+1024 times; requests whose form a middleware has already read. Since round 16: a ResponseWriter that aborts the handler (panic with ErrAbortHandler) while the reply is sent. Since round 17: request bodies that are readers of the caller's own (ContentLength 0 = unknown).",
    "C18": "cases = a tree of handlers built by 0-6 random WithGroup (names incl. '' and duplicates) / WithAttrs derivations from random parents, then records (slog levels -8..12 incl. the gaps, hostile messages) with 0-3 attributes logged through every handler twice in drawn orders; attributes are trees of every slog Kind (string, int64, uint64, bool, duration, float64, time, Any of error/stringer/slice/map/nil/struct/bytes), named groups, inline groups, literally empty groups, empty attrs and LogValuers resolving to any of those; core threshold -1..3. Oracle = reference model of the slog.Handler contract (ordered tree), plus key-nesting differential against slog.NewJSONHandler when every attribute is solid; Enabled/handled iff the core enables the mapped level; level mapping swept over -200..200. Non-trivial = deferred group opening (WithGroup then WithAttrs starting with an empty attr), or an empty group/attr via WithAttrs or via a LogValuer. Distinct = distinct (derivation sequence shape, threshold, class flags). Since session 3: handler over cores with context / an open namespace / lazy / sampler / hooked / increase-level / tee-with-observer; the caller's attributes must be unchanged after Handle/WithAttrs; a reused group holding a LogValuer whose result changes between records. Since round 9: job firstuse (derived handler used by several goroutines while its attributes are being encoded). Since round 11: tee with an errors-only branch. Since round 13: attributes without a key but with a value. Since round 16: an earlier record, through any handler of the tree, whose value panics while being encoded. Since round 18: Enabled asked repeatedly over a sampling core changes nothing.",
    "C15": "cases = generated call paths executed for real: a logger prepared by 0-6 Sugar/Desugar/With/WithLazy/Named/WithOptions steps, AddCallerSkip(k) with k in 0..4 below exactly k non-inlined wrapper frames, below a recursion of depth {0,1,10,50,63,64,65,200,1000}, through every front end (Logger level methods, Log, Check+Write, all 33 Sugar methods, NewStdLog/NewStdLogAt Print/Printf/Println/Output, RedirectStdLog+log.Print, globals L/S, slog.Logger methods over the zapslog handler), stack-trace enabler = arbitrary level subset or threshold; plus a deterministic sweep of every front end x skip 0..2 x depth {0,100}. Oracle = the site captured on the same source line with an independent runtime.Callers walk. Non-trivial = (a Sugar/Desugar conversion and skip >= 1) or (depth >= 64 with the stack enabled). Distinct = distinct (front end, skip, depth, conversions, stack on/off, conversion chain). Since session 3: caller annotation on/off (stack traces do not depend on it), stack-trace enabler changed after derivation, hand-built slog Records (wrapper helpers), forced fresh pooled stack objects. Since round 8: calls made while a panic is unwinding; handler options slice overwritten after NewHandler. Since round 10: Config.Build route with optional omission of annotation keys. Since round 11: caller skips taken back before being re-added. Since round 14: job manysites (up to 300 distinct generated call sites visited in changing orders). Since round 15: the annotation of zap's own diagnostics about malformed sugared arguments (inside zap or at the user's call, never further up; trace starts where the caller points).",
    "C14": "cases = argument lists of length 0-9 mixing typed zap.Fields (from Spec trees), string keys (incl. empty, duplicate, 'error', 'ignored'), non-string keys (int, custom string type, slice, bool, float, struct, []byte, pointer), bare errors (plain, verbose, group, nil-pointer, panicking), nil and arbitrary values of every dynamic type zap.Any special-cases, in every order, through Debugw..Fatalw, Logw, With, WithLazy and With followed by a *w call, on enabled and fully disabled loggers; templates from a grammar of % verbs with 0-5 arguments through print-, printf-, println-style and Log/Logf/Logln at every level. Oracle = independent reference sweep from the With documentation (fields compared by key/type/recorded calls; every diagnostic must be matched by an Error-level entry identifying the item) and fmt.Sprint/Sprintf/Sprintln. Non-trivial = a Field or error before a pair (parity shift) or any invalid item; message job: formatting with arguments. Distinct = distinct (mode, level, argument kind sequence). Since session 3: values implementing several interfaces; sugared loggers obtained through WithOptions/Desugar().Sugar()/Named(\"\")/With(); job twocalls: two calls through one retaining core (the first possibly a really panicking Panicw), both checked against the reference afterwards. Since round 8: argument slices refilled after With/WithLazy before the child's first use. Since round 10: development-mode loggers. Since round 14: job longlived (the same argument lists up to 450 times on one family of sugared loggers: the same records every time). Since round 16: an earlier sugared call on an encoding core that was aborted by a panicking value.",
    "C11": "cases = first N and thereafter M in 0..6 plus large values, tick 1ns..10s, sequences of 1-60 entries with level in {-2,-1,0,1,2,5,6,100}, message from an alphabet with pre-computed FNV-colliding pairs, timestamps advancing by {0,1,tick-1,tick,tick+1,...}, wrapped core threshold drawn, entries through the sampler, two With-derived samplers (shared budget) and an independent sampler (own budget), decision hook recorded; a Logger path with a stepped clock; concurrent: one entry opens a window, then 2-8 goroutines x 1-200 entries of the same key inside it. Reference model from the statement using hash/fnv. Non-trivial = (entry exactly at a window end and a dropped entry and a thereafter admission) or a colliding pair sharing a budget. Distinct = distinct (N, M, tick, threshold, class flags, length class). Since session 3: non-ASCII and invalid-UTF-8 messages incl. colliding pairs, long messages differing after a 255..70000-byte common prefix, entries stamped earlier than their predecessors (counted in the window open for their key). Since round 7: entries carry logger names, callers and stacks. Since round 8: job config (Config.Build's sampler, SamplingConfig edited after Build); the sibling beside a sampler in a tee receives every entry. Since round 10: sampler over a tee. Since round 14: job longwindow (one key in one window for up to 450000 entries with thereafter up to 100000); stamp epochs 1970/2019/2200. Since round 16: job hookpanic (the decision hook panics for one entry; a new window still starts with a new budget). Since round 18: NewProduction samples like NewProductionConfig().Build.",
    "C06": "cases = configurations drawn from the product core {JSON over a 1 MiB/1 h BufferedWriteSyncer over a recording sink, tee with observer in either order, no-op, sampler that drops everything, level-increased} x threshold -1..7 x development on/off x hook {default, nil, WriteThenNoop, WriteThenGoexit, custom recording} x level {DPanic, Panic, Fatal} x every front end (Logger methods, Log, Check+Write, all Sugar variants, NewStdLogAt Print/Printf/Println/Output, RedirectStdLogAt, zapgrpc Fatal*, globals L/S; completeness checked by reflection); a deterministic sweep of 5130 configurations; child processes re-executing the test binary with the real default actions, a real file and a buffered sink. Non-trivial = entry disabled/no-op/sampled-out, nil or no-op hook, or enabled entry behind the buffer. Distinct = distinct configurations. Since session 3: failing destinations (sink write/sync errors, failing core before/after), unbuffered core, ordinary entries logged before the terminal one, other members of the logger family derived with different hooks, hooks that log before reading their entry, and a gate job that parks one Sync inside the sink while the terminal entry is logged. Since round 7: job build (Config.Build over all flag combinations and the presets, every front end); 0-2 earlier non-terminating entries at the crash level; Sync faults reporting EINVAL/ENOTTY/*PathError. Since round 8: front end with fields from a scratch slice recycled in a deferred function (observer record checked). Since round 10: NewNop-/New(nil)-rooted loggers; terminal hooks on zero-valued value types. Since round 11: BufferedWriteSyncer stopped once before its first use. Since round 12: options given through SugaredLogger.WithOptions or split over alternating Logger/Sugar WithOptions calls. Since round 14: tees whose observing branch is a hooked core, listed first or last. Since round 17: terminal actions over a user core that records the entry at a lower level.",
    "C05": "cases = core-composition trees (depth <= 4, tees of 0-3 branches) of observer and JSON IO leaves under tee / increase-level / hooks / pass-all sampler / lazy-with / With wrappers, each enabler an arbitrary subset of all 256 level values (monotone, non-monotone, empty) or a shared AtomicLevel; then a rapid state-machine history: log at any of the 256 levels through Log, Check+Write, level methods, Sugar Log/Logw/Logf/Logln, zapgrpc, slog handler; SetLevel on a shared AtomicLevel to any value; derive children (With, Named, WithLazy, WithOptions(IncreaseLevel/Hooks)); read Enabled for all 256 values, Logger.Level, LevelOf, gRPC V, slog Enabled. Reference model written from the statement decides deliveries, hook calls and marshaling counts after every op. Non-trivial = tree depth >= 2 with a tee whose branches differ in enablement for the logged level or a hook behind a tee, or an AtomicLevel change between two logs. Distinct = distinct (tree shape with enabler kinds, number of derived loggers, class flags). Since session 3: std-log bridge, zapio.Writer and sugared level methods as front ends. Since round 8: caller-owned core lists with no-op members must be unchanged after NewTee; hooks registered from a recycled slice; node kind dropper (sampler with an empty budget). Since round 9: slog levels between and beyond the named ones. Since round 11: options applied on the sugared side of a Sugar/Desugar round trip. Since round 14: job longlived (up to 270000 entries through a tee with a hooked core among siblings: hooks once per accepted entry, each branch its own entries). Since round 17: user enablers that also have a Level() method without being thresholds (shared with C15's stack-trace enabler).",
    "C08": "cases = metamorphic: a probe call P (generated EncoderConfig, JSON or console, With context, field tree with failing members, any level incl. Panic/Fatal with returning hooks, caller+stack on/off, call depth 0/3/70) issued from one source line before and after a generated history H (1-14 ops on OTHER loggers: logs of very different sizes, namespaces left open, reflected values, error arrays, deep stack captures, terminal levels with returning hooks, encoder clones, double GC, pool poisoning with a sentinel through internal/bufferpool), after GC, after H again; concurrent variant with 2-6 goroutines running histories while P is observed. Oracle = byte-identical output and identical side effects (sink writes, terminal hook and entry hook counts); sentinel never visible. Non-trivial = H uses at least one pool and contains a buffer > 1KiB. Distinct = distinct (probe shape, multiset of history op kinds, probe field kinds). Since session 3: history ops with failing sinks, unencodable reflected values and panicking user marshalers; probe may derive a With child per call; terminal hooks must be handed P's own entry; phase 'GC, history, P'; sibling custom reflected encoders. Since round 7: history may include traffic on the probe's own logger, its children and siblings. Since round 8: the probe's fields are encoded once through the map encoder and the kept map must read the same after every history phase. Since round 12: probe loggers with a caller skip and entries logged from goroutines too shallow for it; a phase in which P's own encoder callbacks log another entry through the same logger. Since round 13: failing entries written through a bare core right after P leave the error output of P's logger silent. Since round 16: histories in which user code panics and the caller recovers - marshalers inside open namespaces and nested objects, the encoder configuration's level/caller/name callbacks, hooks.",
    "C07": "cases = rapid state machine over a growing tree of loggers: derive from a random node by With / WithLazy / Named / WithOptions(Fields) / Sugar / Desugar (sugared equivalents included), fields incl. namespaces, Spec values and objects backed by a marshaler the machine mutates between steps; log through random nodes; GC; finally log through every node in a drawn order; over 10 core compositions (JSON, console, observer, tees, sampler, hooked, level-increased, lazy, all combined). Model = per-node ordered path fields with explicit evaluation time (With: at derivation; WithLazy: at first use of the node or of any descendant core). Non-trivial = a log through a node whose parent has context and >= 2 children after >= 3 derivations, or a lazy node pending while its marshaler was mutated. Distinct = distinct (core kind, derivation tree shape). Job slogtree: the same state machine over exp/zapslog handlers (WithAttrs incl. lists made only of attributes a handler must ignore, WithGroup incl. the empty name, logging through random handlers between derivations, 9 core compositions incl. a core that ends in an open namespace); model = the slog.Handler nesting rules shared with C18. Since round 8: call-site field slices are recycled; observed entries are scrubbed in place after checking. Since round 9: job lazyfirstuse (the harness parks the first evaluation of deferred fields on a gate while other goroutines make their first call); dotted logger names. Since round 13: action query (Level, Name, Core().Enabled, LevelOf asked of any logger): asking is not using, a pending WithLazy stays pending. Since round 14: job longchain (a logger re-derived from itself up to 700 times through With/WithLazy/Sugar over observer, JSON and tee cores, checkpoints along the chain and at the end). Since round 17: derivation wrap (an application's registering, Write-forwarding core on top of any logger incl. unused WithLazy ones). Since round 18: Sync through every kind of derived logger (incl. unused WithLazy children) reaches a shared buffer's sink; derivations made while an AtomicLevel under IncreaseLevel is higher than the increased level keep their fields.",
    "C03": "cases = one row per exported constructor of field.go/array.go/error.go/exp/zapfield (completeness checked against the parsed source at run time) with full-range values and boundary tables, through the value, pointer, slice and zap.Any routes; field lists with nested marshalers; values that zap.Any does not special-case. Oracle = independent recording encoder (exact value, bits, instant+zone, byte-identical slices, explicit null, no call for nil errors), Any vs typed constructor agreement, Equals laws. Non-trivial = boundary/extreme value, pointer, slice, nil pointer, time or Any route. Distinct = distinct (constructor kind, value class, ptr, any) resp. kind multisets. excluded_known counts reflexivity assertions skipped for K1 inputs. Since session 3: every slice handed to a constructor is snapshotted and must be unchanged after AddTo; values implementing several of ObjectMarshaler/ArrayMarshaler/error/Stringer (job anymulti). Since round 7: time zones sharing a name but not their rules. Since round 8: ObjectValues marshalers must run on the caller's own elements. Since round 9: one pointer-typed error group encoded by two goroutines at once; verbose errors of the same length as their message. Since round 11: Equals between an error field and one wrapping it; time fields across a change of time.Local. Since round 14: a process that has already encoded thousands of troublesome fields (errors whose Error panics, failing marshalers, nil Stringers). Since round 15 (shared generators): errors that wrap several errors (Unwrap() []error) with a verbose form, and errors.Join results. Since round 17: zap.Objects/ObjectValues into a user's two-pass array encoder.",
    "C01": "cases = EncoderConfig (keys empty/hostile/duplicate; built-in, nil, no-op and layout sub-encoders; line endings) x Entry (any int8 level, hostile zones, caller, stack) x 0-3 With rounds x call-site fields from typed Spec trees (all constructor families, zap.Any routing, nesting depth <= 3, failing marshalers, panicking/nil stringers and errors, unencodable reflected values). Non-trivial = has a nested marshaler, namespace, failing member, non-empty With context, nil/no-op/layout sub-encoder or hostile key. Distinct = distinct (config shape, field-kind multiset, depth, fault count, With rounds). Since session 3: custom NewReflectedEncoder closures (HTML escaping on/off from one function literal, and one that has written partial output when it fails), caller paths of every short shape. Since round 7: a neighbouring encoder with an indenting closure of the same reflected-encoder literal runs before each case; the caller's field slice must be unchanged after EncodeEntry. Since round 8: field slices given to With/Write are recycled after the call; the streaming reflected encoder wipes its 16-byte scratch buffer after every Write.",
    "C02": "cases = as C01 with built-in/nil/no-op sub-encoders (D3), each Spec tree carrying its expected ordered tree; plus single-kind scalar batches over full ranges. Non-trivial = extreme numeric (NaN/Inf/uint64>2^63/min-max), invalid UTF-8, nesting depth >= 2 or a namespace inside a nested object (scalar job: time/duration/complex/float32 or extreme). Distinct = distinct (config shape, kind multiset, depth) resp. (kind, time encoder, duration encoder, ptr, any). Since session 3: whole-number floats around 2^31/2^32/2^53/2^63/2^64, powers of two and ten; custom reflected encoders; caller paths of every short shape. Since round 10: typed-nil reflected values of named collection types with marshalers; nil-safe pointer Stringers. Since round 16: the map encoder after a marshaler panicked (recovered by the caller). Since round 17: a user's reflected encoder is handed every reflected value (all basic types, at the call site, in With, as array element).",
    "C10": "cases = (a) field trees with fault sites (marshaler errors before/between/after members, panicking or nil Stringer/error, nil elements, unencodable reflected values) drawn with 45% probability per container, logged through a tee of JSON, console and observer cores; (b) tees of 1-4 IO cores over multi-syncers of 1-3 scripted sinks plus custom failing cores, per-entry outcome vectors (ok/error/short+error/zero+error, Sync error), 1-6 entries, plain/delegating/nested tee; small shapes (<=2 cores x <=2 sinks x <=2 entries, 4 outcomes) enumerated exhaustively. Non-trivial = (a) >= 2 faults or a fault inside a nested container, (b) >= 2 destinations with a failing one before a healthy one. Distinct = distinct kind multisets+fault depth resp. distinct outcome matrices. Since session 3: sink errors whose Error method panics (typed nil pointer, explicit panic). Since round 8: failing entry hooks registered from a recycled slice on every second custom core. Since round 10: default error output (os.Stderr at construction time); Stringers over uncomparable element types. Since round 11: closed-file sink errors. Since round 14: job longrun (the same failing fields logged up to 4200 times through one logger, a healthy entry in between: byte-identical every time). Since round 18: marshaler failures whose error text is empty.",
    "C16": "cases = C01's EncoderConfig x Entry x With-chain x fields through the console encoder. Non-trivial = at least one metadata column present and one omitted, and a non-empty context with a namespace or nested value. Distinct = distinct (column presence pattern, config shape, kind multiset). Since round 7: the caller's field slice must be unchanged after EncodeEntry; neighbouring indenting reflected encoder as in C01. Since round 11: the entry re-encoded by a used encoder must equal the fresh encoder's output.",
    "C17": "cases = generated op sequences (Write chunks over a newline-heavy alphabet incl. empty/lone-newline/long-run/raw-byte chunks, Sync at arbitrary positions, final Close) checked against a pending-line reference model, plus two independent partitions of one stream (metamorphic) and disabled/switching levels. Non-trivial = at least 2 writes with a line spanning a chunk boundary and an empty interior line (level job: additionally disabled or switched). Distinct = distinct (job, op-kind/chunk-class sequence) signatures. Since session 3: exact model under level switching (Sync is a split point also while disabled; bytes written while disabled are dropped); the writer over sampling (reference model of C11), hooked, tee and increase-level cores. Since round 7: chunks arrive by Write, io.WriteString, io.Copy, io.CopyBuffer(7 bytes) or fmt.Fprint. Since round 16: the Writer after a hook under its logger panicked for one line of a chunk (nothing buffered): later chunks split exactly, every call returns.",
}

ASSUMPTIONS = {
    "*": [
        "held on everything generated only: rapid/go-fuzz search never establishes absence",
        "trusted: Go toolchain and runtime, pgregory.net/rapid v1.3.0 generators, the reference models and oracles in /verif/harness/props",
    ],
    "C17": ["zaptest/observer records every entry that the writer logs (observer core enabled at Debug)"],
}

TRUST = "Trusted base: Go toolchain/runtime, rapid's generators and shrinker, the reference model/oracle code in /verif/harness/props, and the standard-library packages used as reference implementations. Search-based: absence of a counterexample in the generated cases is not a proof."

META = {
    "C04": {
        "technique": "property-based testing over generated multi-goroutine programs (rapid) with harness-owned schedule perturbation; stream-level oracle (intact lines, token multiset, per-goroutine order); optional race detector run",
        "level_text": "Each generated program really runs its goroutines against the drawn sink topology; afterwards every sink's byte stream must split into complete lines that pass the C01 predicate and decode to a token with intact padding, the multiset of tokens must equal the accepted entries (no loss, duplicate, merge), each goroutine's tokens must be in order, every tee branch must satisfy this separately and the sink must never have been entered by two calls at once. Exploration: interleavings are sampled (GOMAXPROCS, yields, split sink copy), not enumerated; a failing program is dumped as JSON and replayed 200 times because schedule-dependent failures do not shrink.",
        "level_note": TRUST + " Interleavings are sampled; a violation that needs one specific interleaving can be missed.",
    },
    "C09": {
        "technique": "generated multi-goroutine programs (rapid) executed under the Go race detector with halt_on_error and per-case attribution; panics recovered; deadlock watchdog with goroutine-dump classification",
        "level_text": "Generated programs over the whole documented concurrent surface run on fresh (never used) or warmed shared objects under -race; a race report kills the shard with exit code 66 and the program dumped just before is the failing case; any panic fails the case; a watchdog expiry is a violation only if the goroutine dump shows goroutines blocked inside zap. Exploration: the race detector only sees races that happen in the sampled schedules.",
        "level_note": TRUST + " Trusted: the Go race detector. Absence of reports is not absence of races; liveness is a bounded watchdog.",
    },
    "C19": {
        "technique": "property-based fault injection (rapid): scripted sink factories and generated path lists for Open/Config.Build, by-construction file URLs, std-log settings snapshots, name grammars for the registries; fuzzing of raw URL strings",
        "level_text": "The enumerated dimension is which of the configured destinations fails and where: on success a write must reach every destination exactly once and close() must close each opened sink exactly once; on failure every sink that was opened must have been closed exactly once (factory counters, descriptors below the case's directory), rejected URLs must create no file and the standard logger's flags, prefix and writer must be untouched; a file URL must be opened iff it has no user info, port, query or fragment and an empty/localhost host, and then exactly its decoded path must be created; registrations must fail for empty/malformed/duplicate names without changing the registry. fault_enumeration with sampled positions for longer lists.",
        "level_note": TRUST + " /proc/self/fd is used to observe leaked descriptors; stdout/stderr are redirected to /dev/null while a case runs.",
    },
    "C12": {
        "technique": "model-based stateful property testing (rapid t.Repeat) with a harness-owned clock; concurrent scripts with framed records; generated kill points in a re-executed child process (fault enumeration)",
        "level_text": "Sequential histories are checked against a list-of-accepted-writes model after every operation (prefix, never a split write, bounded hold-back, flush+sink Sync after Sync/first Stop/processed tick, loop gone after Stop, repeated Stop harmless); concurrent scripts must deliver every framed record exactly once in per-goroutine order without deadlock; for crash points the enumerated dimension is the kill position (sink-call index before/after, between script ops) and the file left behind must be a whole-write-aligned prefix that contains everything acknowledged by Sync. fault_enumeration: kill positions are sampled, not exhausted, for long scripts.",
        "level_note": TRUST + " D2: a second Stop is a documented no-op, so the flush guarantee is asserted for Sync, the first Stop and processed ticks. Liveness is a bounded watchdog; SIGKILL at sink-call and between-op boundaries are the observable crash points for a regular file.",
    },
    "C13": {
        "technique": "property-based testing (rapid) with scripted sinks: io.Writer contract predicate on every zap writer, reference min/aggregate model for the multi syncer with exhaustive small outcome vectors, relay and mutual-exclusion checks for AddSync/Lock, fuzzing",
        "level_text": "Each zap-provided writer must return (len(p), nil) for every generated payload it accepts; the multi syncer must call every sink exactly once per call with identical bytes regardless of earlier failures, return the smallest reported count and an error that is nil iff all were nil and otherwise names every failing sink, and Sync must reach every sink; AddSync must return writers that already have Sync unchanged and otherwise add a nil no-op Sync while relaying results; Lock must relay results, not double wrap, and never let two calls overlap in the wrapped sink. Exploration plus exhaustive enumeration of the small outcome-vector space.",
        "level_note": TRUST + " D4: a multi syncer of zero sinks is outside the domain.",
    },
    "C20": {
        "technique": "property-based testing (rapid): reference level parser with ASCII-only folding across every parsing entry point, round-trip sweep of all 256 values; generated HTTP request sequences with invariants and by-construction expectations; coverage-guided fuzzing of (method, content type, body)",
        "level_text": "Every parsing entry point must agree with a reference parser written from the documentation (valid text gives exactly that level; anything else is an error and leaves the target untouched); every valid level round-trips through all its text forms. For every generated request the handler must answer GET with 200 and the level in force, accept a PUT only by answering 200 with a valid level equal to the level now in force (and to the by-construction expectation for structurally built requests), and otherwise answer 4xx with a JSON error and leave the level unchanged; a live logger sharing the AtomicLevel must honour the level on its very next call. Exploration over unbounded texts and request histories.",
        "level_note": TRUST + " net/http/httptest, encoding/json and yaml.v3 are trusted for building and decoding requests/documents.",
    },
    "C18": {
        "technique": "model-based property testing (rapid): generated handler derivation trees and attribute trees vs a reference model of the slog.Handler contract; secondary differential against log/slog's JSONHandler",
        "level_text": "The decoded JSON line of every record must equal the ordered tree the contract prescribes: groups nest what follows, attrs keep order and typed value, group values nest, empty-key groups inline, empty attrs and attribute-less groups vanish (also via WithAttrs and LogValuers), a WithGroup without content is not emitted, WithGroup('') is a no-op, valuers are resolved; logging through siblings/children in any order never changes a handler's output; a record is handled iff the core enables the mapped level. Exploration over unbounded derivation/attribute trees.",
        "level_note": TRUST + " D5: a non-empty group whose members all vanish is ambiguous in the contract; generated non-empty groups always contain one solid attribute. slog.Any values are expected as zap.Any renders them (C02/C03 check that separately).",
    },
    "C15": {
        "technique": "property-based testing (rapid) over generated call paths executed for real, compared with an independent runtime.Callers capture taken on the same source line",
        "level_text": "Every generated call path is really executed; Entry.Caller must equal file, line and function of the frame k levels above the call line and Entry.Stack must be present exactly for the configured levels and equal the complete real chain from that frame outwards (whatever its depth, minus the final runtime frame). Exploration: the space of conversion chains, skips, depths and front ends is a large product that is sampled, with a deterministic sweep of all front ends.",
        "level_note": TRUST + " The slog front end is generated with WithCallerSkip(0) only (the handler uses the call site slog recorded). runtime.Callers/CallersFrames is the reference for the real call chain.",
    },
    "C14": {
        "technique": "property-based testing (rapid): generated loosely-typed argument lists vs an independent reference sweep; differential message formatting against package fmt",
        "level_text": "For each generated argument list the main entry observed through an observer core must carry exactly the reference fields in order (typed fields untouched, pairs as zap.Any would encode them, first bare error under 'error'), every dangling key / non-string-key pair (with position, key and value) / additional bare error must be identified by its own Error-level entry, nothing may panic, and a disabled logger must emit nothing; messages must equal fmt.Sprint / fmt.Sprintf (template verbatim without arguments) / fmt.Sprintln minus the newline. Exploration over an unbounded argument space.",
        "level_note": TRUST + " D1: Infof(\"\", args...) yields fmt.Sprint(args...) (zap's own test documents this degradation). Diagnostics are matched by content, not by message wording or order.",
    },
    "C11": {
        "technique": "model-based property testing (rapid): generated (level, message, timestamp) histories vs a reference window/budget model with independent FNV hashing; exact-count check under concurrency",
        "level_text": "Every generated entry is decided by both the sampler and a reference model written from the statement (window opens when the stamp reaches the window end; admitted iff count <= N or (count-N) divisible by M; disabled levels consume nothing; out-of-range levels pass unhooked; derived cores share, independent samplers do not); forwarded-to-core, hook call count and the hook's decision must agree per entry. Concurrently, for entries of one key inside one open window the admitted total, the hook call total and the number of LogSampled decisions must be exact. Exploration over unbounded histories with boundary-biased timestamps.",
        "level_note": TRUST + " D6: timestamps are generated non-decreasing and >= 0 (the documentation does not define windows for clocks running backwards or before the epoch). Concurrent schedules are sampled.",
    },
    "C06": {
        "technique": "property-based testing over the configuration product (rapid) with exit stub / recover / Goexit detection in-process, plus generated child-process runs observing the real exit status and file contents",
        "level_text": "For each generated configuration the expected terminal action (exit 1, panic carrying the message, Goexit, exactly one custom hook call, or none for DPanic outside development) must happen through every front end even when the level is disabled, the core is a no-op, the entry is sampled out or a nil/no-op hook was configured; at the instant the action runs the sink below the 1 MiB buffer must already hold the complete line and have been synced, and every accepting tee branch must have the entry. The quantifier's crash_points part is decided by re-executing the test binary as a child with the real os.Exit/panic and reading the log file afterwards.",
        "level_note": TRUST + " internal/exit.Stub observes os.Exit in-process (the stub returns, so ordering after the exit call is only observable in the child-process runs).",
    },
    "C05": {
        "technique": "model-based stateful property testing (rapid t.Repeat): generated core compositions with arbitrary level subsets vs an explicit delivery/hook/enablement reference model",
        "level_text": "After every generated operation each leaf must have received exactly the modelled entries (count, level, message), each hook must have fired exactly once per entry its wrapped core accepted and never otherwise, the call-site marshaler must have run once per JSON destination and never for a disabled entry, NewIncreaseLevelCore/IncreaseLevel must fail exactly when they would widen, Enabled(l) must equal the model for all 256 values and Level/LevelOf/V must report the least enabled level. AtomicLevel changes are interleaved with log calls through loggers derived before and after the change. Exploration over unbounded compositions and histories.",
        "level_note": TRUST + " For out-of-range levels a threshold enabler may report its own threshold from Level(); this is accepted when that level is enabled and hides no enabled in-range level (DESIGN.md C05).",
    },
    "C08": {
        "technique": "metamorphic property testing (rapid): same probe call before/after generated histories, GC and pool poisoning must be byte-identical; concurrent variant under the race detector",
        "level_text": "The probe's bytes and side effects must be a function of its inputs only: they are compared before and after generated histories on other loggers that exercise every internal pool (buffers, JSON encoders, slice encoders, checked entries, error-array wrappers, stack storage), after forced GCs and after poisoning pooled buffers with a sentinel; in the thorough tier also while other goroutines keep producing traffic, under -race. Exploration: histories are unbounded and pool reuse is best-effort, so sequential cases pin GOMAXPROCS(1) to make a freed object the next one handed out.",
        "level_note": TRUST + " sync.Pool reuse is deterministic only per P; concurrent reuse is sampled. The harness imports go.uber.org/zap/internal/bufferpool to poison pooled buffers.",
    },
    "C07": {
        "technique": "model-based stateful property testing (rapid t.Repeat): logger derivation tree vs reference model of per-node context with explicit evaluation times",
        "level_text": "A generated history derives loggers from arbitrary existing loggers and logs through them in arbitrary order; after every log call the emitted entry (decoded JSON line, console context and observer fields, whichever the core composition has) must equal exactly the model's path fields followed by the call-site field under the dot-joined name; mutable marshalers make the With/WithLazy evaluation point observable. Exploration: histories are unbounded; small trees already exercise clone-on-derive, encoder buffer cloning, capacity-capped appends and once-only lazy evaluation.",
        "level_note": TRUST + " All cores are fully enabled so that the lazy evaluation point is unambiguous. Observer fields are compared by key/type/packed value and marshaler identity (the observer stores fields unevaluated).",
    },
    "C03": {
        "technique": "property-based testing (rapid): per-constructor full-range generators against an independent recording encoder; differential zap.Any vs typed constructor; algebraic laws of Field.Equals; source-parsing completeness check",
        "level_text": "Every exported constructor (enumerated from the source at run time; an uncovered one makes the check inconclusive) is driven with full-range and boundary values through the value, pointer, slice, generic and zap.Any routes; an independent ObjectEncoder records what arrives and must see exactly the original value (integers without truncation or sign change, float/complex bits incl. NaN payloads, same instant and zone, byte-identical slices, explicit null for nil pointers, nothing for nil errors). Fields built independently from equal inputs must be Equal in both directions, Equals must be reflexive, symmetric and never panic. Exploration with explicit boundary tables is the fitting level for a per-value property.",
        "level_note": TRUST + " Known finding K1 (Equals not reflexive for NaN/func carried in an interface) is listed in known_findings.json; such inputs are still generated and checked for delivery, symmetry and no-panic, and are excluded (counted) from the reflexivity/equal-inputs assertion only. Integer width families may differ as long as value and signedness are preserved.",
    },
    "C10": {
        "technique": "property-based fault injection (rapid): fault sites generated inside Spec trees with exact expected output incl. <key>Error fields; scripted failing sinks/cores with per-entry outcome vectors; exhaustive enumeration of small sink topologies",
        "level_text": "Fault sites (which marshaler/stringer/error/reflected value fails, where and how) and sink outcome vectors are the enumerated dimension: small sink topologies are enumerated completely, larger ones and all field-fault placements are sampled. Each run checks that the call returns, the entry reaches every JSON/console/observer destination exactly once, is well-formed, equals the reference tree (other fields intact, partial value, <key>Error with the injected text) and that the error output carries exactly one report per failing entry naming every failing destination.",
        "level_note": TRUST + " Sync errors swallowed after entries above Error level are documented behaviour (issue 370) and not asserted; a sink that returns a short count with a nil error is outside the domain.",
    },
    "C16": {
        "technique": "property-based testing (rapid): independent column renderer + Spec-derived context tree + differential against the JSON encoder",
        "level_text": "For generated configs/entries/fields the console line must equal columns (computed independently from the documentation in the order time, level, name, caller, function, message, joined by the separator) + separator + one valid JSON object equal to the reference field tree and token-equal to the JSON encoder's output for the same fields + newline and stack + line ending. Exploration over an unbounded configuration/input space.",
        "level_note": TRUST + " D7 (DESIGN.md): a separator is written between columns even if a column renders empty, and before message/context only when something was written before (documented by addSeparatorIfNecessary).",
    },
    "C01": {
        "technique": "property-based testing (rapid): generated EncoderConfig x Entry x With-chain x field trees against a byte-level JSON validity predicate; differential logger-path vs direct encoder; coverage-guided fuzzing of the same property",
        "level_text": "Field trees (every constructor family, nesting to depth 3-4, namespaces inside nested objects/array elements, marshalers failing after a partial emit, panicking/nil stringers and errors, unencodable reflected values), hostile keys/strings and every combination of built-in, nil, no-op and layout sub-encoders are generated; each encoded entry must end with the configured line ending, contain no raw control byte, be valid UTF-8 and be accepted as exactly one object by a strict JSON parse; through a Logger the sink must see exactly one Write per entry with the same bytes. Exploration: the input space is unbounded, the oracle is a total validity predicate, so many small generated cases are the fitting evidence.",
        "level_note": TRUST + " encoding/json (json.Valid and Decoder.Token) is the reference JSON syntax checker. Custom user sub-encoders that append several values are outside the quantifier (built-in, nil, no-op, layouts).",
    },
    "C02": {
        "technique": "property-based testing (rapid): Spec-derived reference encoding compared with the token-decoded output (order and duplicates preserved), numeric round trips bit-for-bit, differential against zapcore.MapObjectEncoder",
        "level_text": "Every generated field tree carries its own expected ordered tree (computed from the typed Spec, never through zap's Field.AddTo); the decoded line must equal metadata (documented order and omission rules) + context + call-site fields + stack trace, with integers as decimal text, floats/complex by strconv round trip bit-for-bit, strings with U+FFFD replacement, base64 binary, documented error expansion (key, keyVerbose, keyCauses), times/durations per configured built-in encoder and reflected values token-equal to encoding/json; the same fields added to MapObjectEncoder must give the same nesting, keys and typed values. Exploration over an unbounded value space with boundary tables.",
        "level_note": TRUST + " strconv, time.Format, encoding/json and encoding/base64 are the reference implementations of the documented representations. D3 (DESIGN.md): TimeKey set with a nil EncodeTime is outside the C02 domain (zap.Config rejects it); times outside the int64-nanosecond range are only checked for token kind under epoch encoders (UnixNano is undefined there).",
    },
    "C17": {
        "technique": "property-based testing (rapid): op-sequence generation vs reference line model, metamorphic re-partitioning, coverage-guided fuzzing of the same property",
        "level_text": "Generated Write/Sync/Close histories over newline-heavy byte streams are compared message-for-message with a pending-line reference model; two independent partitions of one stream must log identical messages; disabled/switching levels must log nothing while disabled. Exploration is the right level: the property quantifies over unbounded streams and partitions, and the writer is small enough that short sequences reach every branch (fast path, buffered path, empty interior lines, Sync/Close).",
        "level_note": TRUST + " The observer core is assumed to record every logged entry.",
    },
}
