package props

import "go.uber.org/zap"

// Generated: 300 distinct call sites for each kind of logger, one per line (see c15long_test.go).

func c15SiteL000(l *zap.Logger)        { l.Info("site") }
func c15SiteL001(l *zap.Logger)        { l.Info("site") }
func c15SiteL002(l *zap.Logger)        { l.Info("site") }
func c15SiteL003(l *zap.Logger)        { l.Info("site") }
func c15SiteL004(l *zap.Logger)        { l.Info("site") }
func c15SiteL005(l *zap.Logger)        { l.Info("site") }
func c15SiteL006(l *zap.Logger)        { l.Info("site") }
func c15SiteL007(l *zap.Logger)        { l.Info("site") }
func c15SiteL008(l *zap.Logger)        { l.Info("site") }
func c15SiteL009(l *zap.Logger)        { l.Info("site") }
func c15SiteL010(l *zap.Logger)        { l.Info("site") }
func c15SiteL011(l *zap.Logger)        { l.Info("site") }
func c15SiteL012(l *zap.Logger)        { l.Info("site") }
func c15SiteL013(l *zap.Logger)        { l.Info("site") }
func c15SiteL014(l *zap.Logger)        { l.Info("site") }
func c15SiteL015(l *zap.Logger)        { l.Info("site") }
func c15SiteL016(l *zap.Logger)        { l.Info("site") }
func c15SiteL017(l *zap.Logger)        { l.Info("site") }
func c15SiteL018(l *zap.Logger)        { l.Info("site") }
func c15SiteL019(l *zap.Logger)        { l.Info("site") }
func c15SiteL020(l *zap.Logger)        { l.Info("site") }
func c15SiteL021(l *zap.Logger)        { l.Info("site") }
func c15SiteL022(l *zap.Logger)        { l.Info("site") }
func c15SiteL023(l *zap.Logger)        { l.Info("site") }
func c15SiteL024(l *zap.Logger)        { l.Info("site") }
func c15SiteL025(l *zap.Logger)        { l.Info("site") }
func c15SiteL026(l *zap.Logger)        { l.Info("site") }
func c15SiteL027(l *zap.Logger)        { l.Info("site") }
func c15SiteL028(l *zap.Logger)        { l.Info("site") }
func c15SiteL029(l *zap.Logger)        { l.Info("site") }
func c15SiteL030(l *zap.Logger)        { l.Info("site") }
func c15SiteL031(l *zap.Logger)        { l.Info("site") }
func c15SiteL032(l *zap.Logger)        { l.Info("site") }
func c15SiteL033(l *zap.Logger)        { l.Info("site") }
func c15SiteL034(l *zap.Logger)        { l.Info("site") }
func c15SiteL035(l *zap.Logger)        { l.Info("site") }
func c15SiteL036(l *zap.Logger)        { l.Info("site") }
func c15SiteL037(l *zap.Logger)        { l.Info("site") }
func c15SiteL038(l *zap.Logger)        { l.Info("site") }
func c15SiteL039(l *zap.Logger)        { l.Info("site") }
func c15SiteL040(l *zap.Logger)        { l.Info("site") }
func c15SiteL041(l *zap.Logger)        { l.Info("site") }
func c15SiteL042(l *zap.Logger)        { l.Info("site") }
func c15SiteL043(l *zap.Logger)        { l.Info("site") }
func c15SiteL044(l *zap.Logger)        { l.Info("site") }
func c15SiteL045(l *zap.Logger)        { l.Info("site") }
func c15SiteL046(l *zap.Logger)        { l.Info("site") }
func c15SiteL047(l *zap.Logger)        { l.Info("site") }
func c15SiteL048(l *zap.Logger)        { l.Info("site") }
func c15SiteL049(l *zap.Logger)        { l.Info("site") }
func c15SiteL050(l *zap.Logger)        { l.Info("site") }
func c15SiteL051(l *zap.Logger)        { l.Info("site") }
func c15SiteL052(l *zap.Logger)        { l.Info("site") }
func c15SiteL053(l *zap.Logger)        { l.Info("site") }
func c15SiteL054(l *zap.Logger)        { l.Info("site") }
func c15SiteL055(l *zap.Logger)        { l.Info("site") }
func c15SiteL056(l *zap.Logger)        { l.Info("site") }
func c15SiteL057(l *zap.Logger)        { l.Info("site") }
func c15SiteL058(l *zap.Logger)        { l.Info("site") }
func c15SiteL059(l *zap.Logger)        { l.Info("site") }
func c15SiteL060(l *zap.Logger)        { l.Info("site") }
func c15SiteL061(l *zap.Logger)        { l.Info("site") }
func c15SiteL062(l *zap.Logger)        { l.Info("site") }
func c15SiteL063(l *zap.Logger)        { l.Info("site") }
func c15SiteL064(l *zap.Logger)        { l.Info("site") }
func c15SiteL065(l *zap.Logger)        { l.Info("site") }
func c15SiteL066(l *zap.Logger)        { l.Info("site") }
func c15SiteL067(l *zap.Logger)        { l.Info("site") }
func c15SiteL068(l *zap.Logger)        { l.Info("site") }
func c15SiteL069(l *zap.Logger)        { l.Info("site") }
func c15SiteL070(l *zap.Logger)        { l.Info("site") }
func c15SiteL071(l *zap.Logger)        { l.Info("site") }
func c15SiteL072(l *zap.Logger)        { l.Info("site") }
func c15SiteL073(l *zap.Logger)        { l.Info("site") }
func c15SiteL074(l *zap.Logger)        { l.Info("site") }
func c15SiteL075(l *zap.Logger)        { l.Info("site") }
func c15SiteL076(l *zap.Logger)        { l.Info("site") }
func c15SiteL077(l *zap.Logger)        { l.Info("site") }
func c15SiteL078(l *zap.Logger)        { l.Info("site") }
func c15SiteL079(l *zap.Logger)        { l.Info("site") }
func c15SiteL080(l *zap.Logger)        { l.Info("site") }
func c15SiteL081(l *zap.Logger)        { l.Info("site") }
func c15SiteL082(l *zap.Logger)        { l.Info("site") }
func c15SiteL083(l *zap.Logger)        { l.Info("site") }
func c15SiteL084(l *zap.Logger)        { l.Info("site") }
func c15SiteL085(l *zap.Logger)        { l.Info("site") }
func c15SiteL086(l *zap.Logger)        { l.Info("site") }
func c15SiteL087(l *zap.Logger)        { l.Info("site") }
func c15SiteL088(l *zap.Logger)        { l.Info("site") }
func c15SiteL089(l *zap.Logger)        { l.Info("site") }
func c15SiteL090(l *zap.Logger)        { l.Info("site") }
func c15SiteL091(l *zap.Logger)        { l.Info("site") }
func c15SiteL092(l *zap.Logger)        { l.Info("site") }
func c15SiteL093(l *zap.Logger)        { l.Info("site") }
func c15SiteL094(l *zap.Logger)        { l.Info("site") }
func c15SiteL095(l *zap.Logger)        { l.Info("site") }
func c15SiteL096(l *zap.Logger)        { l.Info("site") }
func c15SiteL097(l *zap.Logger)        { l.Info("site") }
func c15SiteL098(l *zap.Logger)        { l.Info("site") }
func c15SiteL099(l *zap.Logger)        { l.Info("site") }
func c15SiteL100(l *zap.Logger)        { l.Info("site") }
func c15SiteL101(l *zap.Logger)        { l.Info("site") }
func c15SiteL102(l *zap.Logger)        { l.Info("site") }
func c15SiteL103(l *zap.Logger)        { l.Info("site") }
func c15SiteL104(l *zap.Logger)        { l.Info("site") }
func c15SiteL105(l *zap.Logger)        { l.Info("site") }
func c15SiteL106(l *zap.Logger)        { l.Info("site") }
func c15SiteL107(l *zap.Logger)        { l.Info("site") }
func c15SiteL108(l *zap.Logger)        { l.Info("site") }
func c15SiteL109(l *zap.Logger)        { l.Info("site") }
func c15SiteL110(l *zap.Logger)        { l.Info("site") }
func c15SiteL111(l *zap.Logger)        { l.Info("site") }
func c15SiteL112(l *zap.Logger)        { l.Info("site") }
func c15SiteL113(l *zap.Logger)        { l.Info("site") }
func c15SiteL114(l *zap.Logger)        { l.Info("site") }
func c15SiteL115(l *zap.Logger)        { l.Info("site") }
func c15SiteL116(l *zap.Logger)        { l.Info("site") }
func c15SiteL117(l *zap.Logger)        { l.Info("site") }
func c15SiteL118(l *zap.Logger)        { l.Info("site") }
func c15SiteL119(l *zap.Logger)        { l.Info("site") }
func c15SiteL120(l *zap.Logger)        { l.Info("site") }
func c15SiteL121(l *zap.Logger)        { l.Info("site") }
func c15SiteL122(l *zap.Logger)        { l.Info("site") }
func c15SiteL123(l *zap.Logger)        { l.Info("site") }
func c15SiteL124(l *zap.Logger)        { l.Info("site") }
func c15SiteL125(l *zap.Logger)        { l.Info("site") }
func c15SiteL126(l *zap.Logger)        { l.Info("site") }
func c15SiteL127(l *zap.Logger)        { l.Info("site") }
func c15SiteL128(l *zap.Logger)        { l.Info("site") }
func c15SiteL129(l *zap.Logger)        { l.Info("site") }
func c15SiteL130(l *zap.Logger)        { l.Info("site") }
func c15SiteL131(l *zap.Logger)        { l.Info("site") }
func c15SiteL132(l *zap.Logger)        { l.Info("site") }
func c15SiteL133(l *zap.Logger)        { l.Info("site") }
func c15SiteL134(l *zap.Logger)        { l.Info("site") }
func c15SiteL135(l *zap.Logger)        { l.Info("site") }
func c15SiteL136(l *zap.Logger)        { l.Info("site") }
func c15SiteL137(l *zap.Logger)        { l.Info("site") }
func c15SiteL138(l *zap.Logger)        { l.Info("site") }
func c15SiteL139(l *zap.Logger)        { l.Info("site") }
func c15SiteL140(l *zap.Logger)        { l.Info("site") }
func c15SiteL141(l *zap.Logger)        { l.Info("site") }
func c15SiteL142(l *zap.Logger)        { l.Info("site") }
func c15SiteL143(l *zap.Logger)        { l.Info("site") }
func c15SiteL144(l *zap.Logger)        { l.Info("site") }
func c15SiteL145(l *zap.Logger)        { l.Info("site") }
func c15SiteL146(l *zap.Logger)        { l.Info("site") }
func c15SiteL147(l *zap.Logger)        { l.Info("site") }
func c15SiteL148(l *zap.Logger)        { l.Info("site") }
func c15SiteL149(l *zap.Logger)        { l.Info("site") }
func c15SiteL150(l *zap.Logger)        { l.Info("site") }
func c15SiteL151(l *zap.Logger)        { l.Info("site") }
func c15SiteL152(l *zap.Logger)        { l.Info("site") }
func c15SiteL153(l *zap.Logger)        { l.Info("site") }
func c15SiteL154(l *zap.Logger)        { l.Info("site") }
func c15SiteL155(l *zap.Logger)        { l.Info("site") }
func c15SiteL156(l *zap.Logger)        { l.Info("site") }
func c15SiteL157(l *zap.Logger)        { l.Info("site") }
func c15SiteL158(l *zap.Logger)        { l.Info("site") }
func c15SiteL159(l *zap.Logger)        { l.Info("site") }
func c15SiteL160(l *zap.Logger)        { l.Info("site") }
func c15SiteL161(l *zap.Logger)        { l.Info("site") }
func c15SiteL162(l *zap.Logger)        { l.Info("site") }
func c15SiteL163(l *zap.Logger)        { l.Info("site") }
func c15SiteL164(l *zap.Logger)        { l.Info("site") }
func c15SiteL165(l *zap.Logger)        { l.Info("site") }
func c15SiteL166(l *zap.Logger)        { l.Info("site") }
func c15SiteL167(l *zap.Logger)        { l.Info("site") }
func c15SiteL168(l *zap.Logger)        { l.Info("site") }
func c15SiteL169(l *zap.Logger)        { l.Info("site") }
func c15SiteL170(l *zap.Logger)        { l.Info("site") }
func c15SiteL171(l *zap.Logger)        { l.Info("site") }
func c15SiteL172(l *zap.Logger)        { l.Info("site") }
func c15SiteL173(l *zap.Logger)        { l.Info("site") }
func c15SiteL174(l *zap.Logger)        { l.Info("site") }
func c15SiteL175(l *zap.Logger)        { l.Info("site") }
func c15SiteL176(l *zap.Logger)        { l.Info("site") }
func c15SiteL177(l *zap.Logger)        { l.Info("site") }
func c15SiteL178(l *zap.Logger)        { l.Info("site") }
func c15SiteL179(l *zap.Logger)        { l.Info("site") }
func c15SiteL180(l *zap.Logger)        { l.Info("site") }
func c15SiteL181(l *zap.Logger)        { l.Info("site") }
func c15SiteL182(l *zap.Logger)        { l.Info("site") }
func c15SiteL183(l *zap.Logger)        { l.Info("site") }
func c15SiteL184(l *zap.Logger)        { l.Info("site") }
func c15SiteL185(l *zap.Logger)        { l.Info("site") }
func c15SiteL186(l *zap.Logger)        { l.Info("site") }
func c15SiteL187(l *zap.Logger)        { l.Info("site") }
func c15SiteL188(l *zap.Logger)        { l.Info("site") }
func c15SiteL189(l *zap.Logger)        { l.Info("site") }
func c15SiteL190(l *zap.Logger)        { l.Info("site") }
func c15SiteL191(l *zap.Logger)        { l.Info("site") }
func c15SiteL192(l *zap.Logger)        { l.Info("site") }
func c15SiteL193(l *zap.Logger)        { l.Info("site") }
func c15SiteL194(l *zap.Logger)        { l.Info("site") }
func c15SiteL195(l *zap.Logger)        { l.Info("site") }
func c15SiteL196(l *zap.Logger)        { l.Info("site") }
func c15SiteL197(l *zap.Logger)        { l.Info("site") }
func c15SiteL198(l *zap.Logger)        { l.Info("site") }
func c15SiteL199(l *zap.Logger)        { l.Info("site") }
func c15SiteL200(l *zap.Logger)        { l.Info("site") }
func c15SiteL201(l *zap.Logger)        { l.Info("site") }
func c15SiteL202(l *zap.Logger)        { l.Info("site") }
func c15SiteL203(l *zap.Logger)        { l.Info("site") }
func c15SiteL204(l *zap.Logger)        { l.Info("site") }
func c15SiteL205(l *zap.Logger)        { l.Info("site") }
func c15SiteL206(l *zap.Logger)        { l.Info("site") }
func c15SiteL207(l *zap.Logger)        { l.Info("site") }
func c15SiteL208(l *zap.Logger)        { l.Info("site") }
func c15SiteL209(l *zap.Logger)        { l.Info("site") }
func c15SiteL210(l *zap.Logger)        { l.Info("site") }
func c15SiteL211(l *zap.Logger)        { l.Info("site") }
func c15SiteL212(l *zap.Logger)        { l.Info("site") }
func c15SiteL213(l *zap.Logger)        { l.Info("site") }
func c15SiteL214(l *zap.Logger)        { l.Info("site") }
func c15SiteL215(l *zap.Logger)        { l.Info("site") }
func c15SiteL216(l *zap.Logger)        { l.Info("site") }
func c15SiteL217(l *zap.Logger)        { l.Info("site") }
func c15SiteL218(l *zap.Logger)        { l.Info("site") }
func c15SiteL219(l *zap.Logger)        { l.Info("site") }
func c15SiteL220(l *zap.Logger)        { l.Info("site") }
func c15SiteL221(l *zap.Logger)        { l.Info("site") }
func c15SiteL222(l *zap.Logger)        { l.Info("site") }
func c15SiteL223(l *zap.Logger)        { l.Info("site") }
func c15SiteL224(l *zap.Logger)        { l.Info("site") }
func c15SiteL225(l *zap.Logger)        { l.Info("site") }
func c15SiteL226(l *zap.Logger)        { l.Info("site") }
func c15SiteL227(l *zap.Logger)        { l.Info("site") }
func c15SiteL228(l *zap.Logger)        { l.Info("site") }
func c15SiteL229(l *zap.Logger)        { l.Info("site") }
func c15SiteL230(l *zap.Logger)        { l.Info("site") }
func c15SiteL231(l *zap.Logger)        { l.Info("site") }
func c15SiteL232(l *zap.Logger)        { l.Info("site") }
func c15SiteL233(l *zap.Logger)        { l.Info("site") }
func c15SiteL234(l *zap.Logger)        { l.Info("site") }
func c15SiteL235(l *zap.Logger)        { l.Info("site") }
func c15SiteL236(l *zap.Logger)        { l.Info("site") }
func c15SiteL237(l *zap.Logger)        { l.Info("site") }
func c15SiteL238(l *zap.Logger)        { l.Info("site") }
func c15SiteL239(l *zap.Logger)        { l.Info("site") }
func c15SiteL240(l *zap.Logger)        { l.Info("site") }
func c15SiteL241(l *zap.Logger)        { l.Info("site") }
func c15SiteL242(l *zap.Logger)        { l.Info("site") }
func c15SiteL243(l *zap.Logger)        { l.Info("site") }
func c15SiteL244(l *zap.Logger)        { l.Info("site") }
func c15SiteL245(l *zap.Logger)        { l.Info("site") }
func c15SiteL246(l *zap.Logger)        { l.Info("site") }
func c15SiteL247(l *zap.Logger)        { l.Info("site") }
func c15SiteL248(l *zap.Logger)        { l.Info("site") }
func c15SiteL249(l *zap.Logger)        { l.Info("site") }
func c15SiteL250(l *zap.Logger)        { l.Info("site") }
func c15SiteL251(l *zap.Logger)        { l.Info("site") }
func c15SiteL252(l *zap.Logger)        { l.Info("site") }
func c15SiteL253(l *zap.Logger)        { l.Info("site") }
func c15SiteL254(l *zap.Logger)        { l.Info("site") }
func c15SiteL255(l *zap.Logger)        { l.Info("site") }
func c15SiteL256(l *zap.Logger)        { l.Info("site") }
func c15SiteL257(l *zap.Logger)        { l.Info("site") }
func c15SiteL258(l *zap.Logger)        { l.Info("site") }
func c15SiteL259(l *zap.Logger)        { l.Info("site") }
func c15SiteL260(l *zap.Logger)        { l.Info("site") }
func c15SiteL261(l *zap.Logger)        { l.Info("site") }
func c15SiteL262(l *zap.Logger)        { l.Info("site") }
func c15SiteL263(l *zap.Logger)        { l.Info("site") }
func c15SiteL264(l *zap.Logger)        { l.Info("site") }
func c15SiteL265(l *zap.Logger)        { l.Info("site") }
func c15SiteL266(l *zap.Logger)        { l.Info("site") }
func c15SiteL267(l *zap.Logger)        { l.Info("site") }
func c15SiteL268(l *zap.Logger)        { l.Info("site") }
func c15SiteL269(l *zap.Logger)        { l.Info("site") }
func c15SiteL270(l *zap.Logger)        { l.Info("site") }
func c15SiteL271(l *zap.Logger)        { l.Info("site") }
func c15SiteL272(l *zap.Logger)        { l.Info("site") }
func c15SiteL273(l *zap.Logger)        { l.Info("site") }
func c15SiteL274(l *zap.Logger)        { l.Info("site") }
func c15SiteL275(l *zap.Logger)        { l.Info("site") }
func c15SiteL276(l *zap.Logger)        { l.Info("site") }
func c15SiteL277(l *zap.Logger)        { l.Info("site") }
func c15SiteL278(l *zap.Logger)        { l.Info("site") }
func c15SiteL279(l *zap.Logger)        { l.Info("site") }
func c15SiteL280(l *zap.Logger)        { l.Info("site") }
func c15SiteL281(l *zap.Logger)        { l.Info("site") }
func c15SiteL282(l *zap.Logger)        { l.Info("site") }
func c15SiteL283(l *zap.Logger)        { l.Info("site") }
func c15SiteL284(l *zap.Logger)        { l.Info("site") }
func c15SiteL285(l *zap.Logger)        { l.Info("site") }
func c15SiteL286(l *zap.Logger)        { l.Info("site") }
func c15SiteL287(l *zap.Logger)        { l.Info("site") }
func c15SiteL288(l *zap.Logger)        { l.Info("site") }
func c15SiteL289(l *zap.Logger)        { l.Info("site") }
func c15SiteL290(l *zap.Logger)        { l.Info("site") }
func c15SiteL291(l *zap.Logger)        { l.Info("site") }
func c15SiteL292(l *zap.Logger)        { l.Info("site") }
func c15SiteL293(l *zap.Logger)        { l.Info("site") }
func c15SiteL294(l *zap.Logger)        { l.Info("site") }
func c15SiteL295(l *zap.Logger)        { l.Info("site") }
func c15SiteL296(l *zap.Logger)        { l.Info("site") }
func c15SiteL297(l *zap.Logger)        { l.Info("site") }
func c15SiteL298(l *zap.Logger)        { l.Info("site") }
func c15SiteL299(l *zap.Logger)        { l.Info("site") }
func c15SiteS000(s *zap.SugaredLogger) { s.Infow("site", "i", 0) }
func c15SiteS001(s *zap.SugaredLogger) { s.Infow("site", "i", 1) }
func c15SiteS002(s *zap.SugaredLogger) { s.Infow("site", "i", 2) }
func c15SiteS003(s *zap.SugaredLogger) { s.Infow("site", "i", 3) }
func c15SiteS004(s *zap.SugaredLogger) { s.Infow("site", "i", 4) }
func c15SiteS005(s *zap.SugaredLogger) { s.Infow("site", "i", 5) }
func c15SiteS006(s *zap.SugaredLogger) { s.Infow("site", "i", 6) }
func c15SiteS007(s *zap.SugaredLogger) { s.Infow("site", "i", 7) }
func c15SiteS008(s *zap.SugaredLogger) { s.Infow("site", "i", 8) }
func c15SiteS009(s *zap.SugaredLogger) { s.Infow("site", "i", 9) }
func c15SiteS010(s *zap.SugaredLogger) { s.Infow("site", "i", 10) }
func c15SiteS011(s *zap.SugaredLogger) { s.Infow("site", "i", 11) }
func c15SiteS012(s *zap.SugaredLogger) { s.Infow("site", "i", 12) }
func c15SiteS013(s *zap.SugaredLogger) { s.Infow("site", "i", 13) }
func c15SiteS014(s *zap.SugaredLogger) { s.Infow("site", "i", 14) }
func c15SiteS015(s *zap.SugaredLogger) { s.Infow("site", "i", 15) }
func c15SiteS016(s *zap.SugaredLogger) { s.Infow("site", "i", 16) }
func c15SiteS017(s *zap.SugaredLogger) { s.Infow("site", "i", 17) }
func c15SiteS018(s *zap.SugaredLogger) { s.Infow("site", "i", 18) }
func c15SiteS019(s *zap.SugaredLogger) { s.Infow("site", "i", 19) }
func c15SiteS020(s *zap.SugaredLogger) { s.Infow("site", "i", 20) }
func c15SiteS021(s *zap.SugaredLogger) { s.Infow("site", "i", 21) }
func c15SiteS022(s *zap.SugaredLogger) { s.Infow("site", "i", 22) }
func c15SiteS023(s *zap.SugaredLogger) { s.Infow("site", "i", 23) }
func c15SiteS024(s *zap.SugaredLogger) { s.Infow("site", "i", 24) }
func c15SiteS025(s *zap.SugaredLogger) { s.Infow("site", "i", 25) }
func c15SiteS026(s *zap.SugaredLogger) { s.Infow("site", "i", 26) }
func c15SiteS027(s *zap.SugaredLogger) { s.Infow("site", "i", 27) }
func c15SiteS028(s *zap.SugaredLogger) { s.Infow("site", "i", 28) }
func c15SiteS029(s *zap.SugaredLogger) { s.Infow("site", "i", 29) }
func c15SiteS030(s *zap.SugaredLogger) { s.Infow("site", "i", 30) }
func c15SiteS031(s *zap.SugaredLogger) { s.Infow("site", "i", 31) }
func c15SiteS032(s *zap.SugaredLogger) { s.Infow("site", "i", 32) }
func c15SiteS033(s *zap.SugaredLogger) { s.Infow("site", "i", 33) }
func c15SiteS034(s *zap.SugaredLogger) { s.Infow("site", "i", 34) }
func c15SiteS035(s *zap.SugaredLogger) { s.Infow("site", "i", 35) }
func c15SiteS036(s *zap.SugaredLogger) { s.Infow("site", "i", 36) }
func c15SiteS037(s *zap.SugaredLogger) { s.Infow("site", "i", 37) }
func c15SiteS038(s *zap.SugaredLogger) { s.Infow("site", "i", 38) }
func c15SiteS039(s *zap.SugaredLogger) { s.Infow("site", "i", 39) }
func c15SiteS040(s *zap.SugaredLogger) { s.Infow("site", "i", 40) }
func c15SiteS041(s *zap.SugaredLogger) { s.Infow("site", "i", 41) }
func c15SiteS042(s *zap.SugaredLogger) { s.Infow("site", "i", 42) }
func c15SiteS043(s *zap.SugaredLogger) { s.Infow("site", "i", 43) }
func c15SiteS044(s *zap.SugaredLogger) { s.Infow("site", "i", 44) }
func c15SiteS045(s *zap.SugaredLogger) { s.Infow("site", "i", 45) }
func c15SiteS046(s *zap.SugaredLogger) { s.Infow("site", "i", 46) }
func c15SiteS047(s *zap.SugaredLogger) { s.Infow("site", "i", 47) }
func c15SiteS048(s *zap.SugaredLogger) { s.Infow("site", "i", 48) }
func c15SiteS049(s *zap.SugaredLogger) { s.Infow("site", "i", 49) }
func c15SiteS050(s *zap.SugaredLogger) { s.Infow("site", "i", 50) }
func c15SiteS051(s *zap.SugaredLogger) { s.Infow("site", "i", 51) }
func c15SiteS052(s *zap.SugaredLogger) { s.Infow("site", "i", 52) }
func c15SiteS053(s *zap.SugaredLogger) { s.Infow("site", "i", 53) }
func c15SiteS054(s *zap.SugaredLogger) { s.Infow("site", "i", 54) }
func c15SiteS055(s *zap.SugaredLogger) { s.Infow("site", "i", 55) }
func c15SiteS056(s *zap.SugaredLogger) { s.Infow("site", "i", 56) }
func c15SiteS057(s *zap.SugaredLogger) { s.Infow("site", "i", 57) }
func c15SiteS058(s *zap.SugaredLogger) { s.Infow("site", "i", 58) }
func c15SiteS059(s *zap.SugaredLogger) { s.Infow("site", "i", 59) }
func c15SiteS060(s *zap.SugaredLogger) { s.Infow("site", "i", 60) }
func c15SiteS061(s *zap.SugaredLogger) { s.Infow("site", "i", 61) }
func c15SiteS062(s *zap.SugaredLogger) { s.Infow("site", "i", 62) }
func c15SiteS063(s *zap.SugaredLogger) { s.Infow("site", "i", 63) }
func c15SiteS064(s *zap.SugaredLogger) { s.Infow("site", "i", 64) }
func c15SiteS065(s *zap.SugaredLogger) { s.Infow("site", "i", 65) }
func c15SiteS066(s *zap.SugaredLogger) { s.Infow("site", "i", 66) }
func c15SiteS067(s *zap.SugaredLogger) { s.Infow("site", "i", 67) }
func c15SiteS068(s *zap.SugaredLogger) { s.Infow("site", "i", 68) }
func c15SiteS069(s *zap.SugaredLogger) { s.Infow("site", "i", 69) }
func c15SiteS070(s *zap.SugaredLogger) { s.Infow("site", "i", 70) }
func c15SiteS071(s *zap.SugaredLogger) { s.Infow("site", "i", 71) }
func c15SiteS072(s *zap.SugaredLogger) { s.Infow("site", "i", 72) }
func c15SiteS073(s *zap.SugaredLogger) { s.Infow("site", "i", 73) }
func c15SiteS074(s *zap.SugaredLogger) { s.Infow("site", "i", 74) }
func c15SiteS075(s *zap.SugaredLogger) { s.Infow("site", "i", 75) }
func c15SiteS076(s *zap.SugaredLogger) { s.Infow("site", "i", 76) }
func c15SiteS077(s *zap.SugaredLogger) { s.Infow("site", "i", 77) }
func c15SiteS078(s *zap.SugaredLogger) { s.Infow("site", "i", 78) }
func c15SiteS079(s *zap.SugaredLogger) { s.Infow("site", "i", 79) }
func c15SiteS080(s *zap.SugaredLogger) { s.Infow("site", "i", 80) }
func c15SiteS081(s *zap.SugaredLogger) { s.Infow("site", "i", 81) }
func c15SiteS082(s *zap.SugaredLogger) { s.Infow("site", "i", 82) }
func c15SiteS083(s *zap.SugaredLogger) { s.Infow("site", "i", 83) }
func c15SiteS084(s *zap.SugaredLogger) { s.Infow("site", "i", 84) }
func c15SiteS085(s *zap.SugaredLogger) { s.Infow("site", "i", 85) }
func c15SiteS086(s *zap.SugaredLogger) { s.Infow("site", "i", 86) }
func c15SiteS087(s *zap.SugaredLogger) { s.Infow("site", "i", 87) }
func c15SiteS088(s *zap.SugaredLogger) { s.Infow("site", "i", 88) }
func c15SiteS089(s *zap.SugaredLogger) { s.Infow("site", "i", 89) }
func c15SiteS090(s *zap.SugaredLogger) { s.Infow("site", "i", 90) }
func c15SiteS091(s *zap.SugaredLogger) { s.Infow("site", "i", 91) }
func c15SiteS092(s *zap.SugaredLogger) { s.Infow("site", "i", 92) }
func c15SiteS093(s *zap.SugaredLogger) { s.Infow("site", "i", 93) }
func c15SiteS094(s *zap.SugaredLogger) { s.Infow("site", "i", 94) }
func c15SiteS095(s *zap.SugaredLogger) { s.Infow("site", "i", 95) }
func c15SiteS096(s *zap.SugaredLogger) { s.Infow("site", "i", 96) }
func c15SiteS097(s *zap.SugaredLogger) { s.Infow("site", "i", 97) }
func c15SiteS098(s *zap.SugaredLogger) { s.Infow("site", "i", 98) }
func c15SiteS099(s *zap.SugaredLogger) { s.Infow("site", "i", 99) }
func c15SiteS100(s *zap.SugaredLogger) { s.Infow("site", "i", 100) }
func c15SiteS101(s *zap.SugaredLogger) { s.Infow("site", "i", 101) }
func c15SiteS102(s *zap.SugaredLogger) { s.Infow("site", "i", 102) }
func c15SiteS103(s *zap.SugaredLogger) { s.Infow("site", "i", 103) }
func c15SiteS104(s *zap.SugaredLogger) { s.Infow("site", "i", 104) }
func c15SiteS105(s *zap.SugaredLogger) { s.Infow("site", "i", 105) }
func c15SiteS106(s *zap.SugaredLogger) { s.Infow("site", "i", 106) }
func c15SiteS107(s *zap.SugaredLogger) { s.Infow("site", "i", 107) }
func c15SiteS108(s *zap.SugaredLogger) { s.Infow("site", "i", 108) }
func c15SiteS109(s *zap.SugaredLogger) { s.Infow("site", "i", 109) }
func c15SiteS110(s *zap.SugaredLogger) { s.Infow("site", "i", 110) }
func c15SiteS111(s *zap.SugaredLogger) { s.Infow("site", "i", 111) }
func c15SiteS112(s *zap.SugaredLogger) { s.Infow("site", "i", 112) }
func c15SiteS113(s *zap.SugaredLogger) { s.Infow("site", "i", 113) }
func c15SiteS114(s *zap.SugaredLogger) { s.Infow("site", "i", 114) }
func c15SiteS115(s *zap.SugaredLogger) { s.Infow("site", "i", 115) }
func c15SiteS116(s *zap.SugaredLogger) { s.Infow("site", "i", 116) }
func c15SiteS117(s *zap.SugaredLogger) { s.Infow("site", "i", 117) }
func c15SiteS118(s *zap.SugaredLogger) { s.Infow("site", "i", 118) }
func c15SiteS119(s *zap.SugaredLogger) { s.Infow("site", "i", 119) }
func c15SiteS120(s *zap.SugaredLogger) { s.Infow("site", "i", 120) }
func c15SiteS121(s *zap.SugaredLogger) { s.Infow("site", "i", 121) }
func c15SiteS122(s *zap.SugaredLogger) { s.Infow("site", "i", 122) }
func c15SiteS123(s *zap.SugaredLogger) { s.Infow("site", "i", 123) }
func c15SiteS124(s *zap.SugaredLogger) { s.Infow("site", "i", 124) }
func c15SiteS125(s *zap.SugaredLogger) { s.Infow("site", "i", 125) }
func c15SiteS126(s *zap.SugaredLogger) { s.Infow("site", "i", 126) }
func c15SiteS127(s *zap.SugaredLogger) { s.Infow("site", "i", 127) }
func c15SiteS128(s *zap.SugaredLogger) { s.Infow("site", "i", 128) }
func c15SiteS129(s *zap.SugaredLogger) { s.Infow("site", "i", 129) }
func c15SiteS130(s *zap.SugaredLogger) { s.Infow("site", "i", 130) }
func c15SiteS131(s *zap.SugaredLogger) { s.Infow("site", "i", 131) }
func c15SiteS132(s *zap.SugaredLogger) { s.Infow("site", "i", 132) }
func c15SiteS133(s *zap.SugaredLogger) { s.Infow("site", "i", 133) }
func c15SiteS134(s *zap.SugaredLogger) { s.Infow("site", "i", 134) }
func c15SiteS135(s *zap.SugaredLogger) { s.Infow("site", "i", 135) }
func c15SiteS136(s *zap.SugaredLogger) { s.Infow("site", "i", 136) }
func c15SiteS137(s *zap.SugaredLogger) { s.Infow("site", "i", 137) }
func c15SiteS138(s *zap.SugaredLogger) { s.Infow("site", "i", 138) }
func c15SiteS139(s *zap.SugaredLogger) { s.Infow("site", "i", 139) }
func c15SiteS140(s *zap.SugaredLogger) { s.Infow("site", "i", 140) }
func c15SiteS141(s *zap.SugaredLogger) { s.Infow("site", "i", 141) }
func c15SiteS142(s *zap.SugaredLogger) { s.Infow("site", "i", 142) }
func c15SiteS143(s *zap.SugaredLogger) { s.Infow("site", "i", 143) }
func c15SiteS144(s *zap.SugaredLogger) { s.Infow("site", "i", 144) }
func c15SiteS145(s *zap.SugaredLogger) { s.Infow("site", "i", 145) }
func c15SiteS146(s *zap.SugaredLogger) { s.Infow("site", "i", 146) }
func c15SiteS147(s *zap.SugaredLogger) { s.Infow("site", "i", 147) }
func c15SiteS148(s *zap.SugaredLogger) { s.Infow("site", "i", 148) }
func c15SiteS149(s *zap.SugaredLogger) { s.Infow("site", "i", 149) }
func c15SiteS150(s *zap.SugaredLogger) { s.Infow("site", "i", 150) }
func c15SiteS151(s *zap.SugaredLogger) { s.Infow("site", "i", 151) }
func c15SiteS152(s *zap.SugaredLogger) { s.Infow("site", "i", 152) }
func c15SiteS153(s *zap.SugaredLogger) { s.Infow("site", "i", 153) }
func c15SiteS154(s *zap.SugaredLogger) { s.Infow("site", "i", 154) }
func c15SiteS155(s *zap.SugaredLogger) { s.Infow("site", "i", 155) }
func c15SiteS156(s *zap.SugaredLogger) { s.Infow("site", "i", 156) }
func c15SiteS157(s *zap.SugaredLogger) { s.Infow("site", "i", 157) }
func c15SiteS158(s *zap.SugaredLogger) { s.Infow("site", "i", 158) }
func c15SiteS159(s *zap.SugaredLogger) { s.Infow("site", "i", 159) }
func c15SiteS160(s *zap.SugaredLogger) { s.Infow("site", "i", 160) }
func c15SiteS161(s *zap.SugaredLogger) { s.Infow("site", "i", 161) }
func c15SiteS162(s *zap.SugaredLogger) { s.Infow("site", "i", 162) }
func c15SiteS163(s *zap.SugaredLogger) { s.Infow("site", "i", 163) }
func c15SiteS164(s *zap.SugaredLogger) { s.Infow("site", "i", 164) }
func c15SiteS165(s *zap.SugaredLogger) { s.Infow("site", "i", 165) }
func c15SiteS166(s *zap.SugaredLogger) { s.Infow("site", "i", 166) }
func c15SiteS167(s *zap.SugaredLogger) { s.Infow("site", "i", 167) }
func c15SiteS168(s *zap.SugaredLogger) { s.Infow("site", "i", 168) }
func c15SiteS169(s *zap.SugaredLogger) { s.Infow("site", "i", 169) }
func c15SiteS170(s *zap.SugaredLogger) { s.Infow("site", "i", 170) }
func c15SiteS171(s *zap.SugaredLogger) { s.Infow("site", "i", 171) }
func c15SiteS172(s *zap.SugaredLogger) { s.Infow("site", "i", 172) }
func c15SiteS173(s *zap.SugaredLogger) { s.Infow("site", "i", 173) }
func c15SiteS174(s *zap.SugaredLogger) { s.Infow("site", "i", 174) }
func c15SiteS175(s *zap.SugaredLogger) { s.Infow("site", "i", 175) }
func c15SiteS176(s *zap.SugaredLogger) { s.Infow("site", "i", 176) }
func c15SiteS177(s *zap.SugaredLogger) { s.Infow("site", "i", 177) }
func c15SiteS178(s *zap.SugaredLogger) { s.Infow("site", "i", 178) }
func c15SiteS179(s *zap.SugaredLogger) { s.Infow("site", "i", 179) }
func c15SiteS180(s *zap.SugaredLogger) { s.Infow("site", "i", 180) }
func c15SiteS181(s *zap.SugaredLogger) { s.Infow("site", "i", 181) }
func c15SiteS182(s *zap.SugaredLogger) { s.Infow("site", "i", 182) }
func c15SiteS183(s *zap.SugaredLogger) { s.Infow("site", "i", 183) }
func c15SiteS184(s *zap.SugaredLogger) { s.Infow("site", "i", 184) }
func c15SiteS185(s *zap.SugaredLogger) { s.Infow("site", "i", 185) }
func c15SiteS186(s *zap.SugaredLogger) { s.Infow("site", "i", 186) }
func c15SiteS187(s *zap.SugaredLogger) { s.Infow("site", "i", 187) }
func c15SiteS188(s *zap.SugaredLogger) { s.Infow("site", "i", 188) }
func c15SiteS189(s *zap.SugaredLogger) { s.Infow("site", "i", 189) }
func c15SiteS190(s *zap.SugaredLogger) { s.Infow("site", "i", 190) }
func c15SiteS191(s *zap.SugaredLogger) { s.Infow("site", "i", 191) }
func c15SiteS192(s *zap.SugaredLogger) { s.Infow("site", "i", 192) }
func c15SiteS193(s *zap.SugaredLogger) { s.Infow("site", "i", 193) }
func c15SiteS194(s *zap.SugaredLogger) { s.Infow("site", "i", 194) }
func c15SiteS195(s *zap.SugaredLogger) { s.Infow("site", "i", 195) }
func c15SiteS196(s *zap.SugaredLogger) { s.Infow("site", "i", 196) }
func c15SiteS197(s *zap.SugaredLogger) { s.Infow("site", "i", 197) }
func c15SiteS198(s *zap.SugaredLogger) { s.Infow("site", "i", 198) }
func c15SiteS199(s *zap.SugaredLogger) { s.Infow("site", "i", 199) }
func c15SiteS200(s *zap.SugaredLogger) { s.Infow("site", "i", 200) }
func c15SiteS201(s *zap.SugaredLogger) { s.Infow("site", "i", 201) }
func c15SiteS202(s *zap.SugaredLogger) { s.Infow("site", "i", 202) }
func c15SiteS203(s *zap.SugaredLogger) { s.Infow("site", "i", 203) }
func c15SiteS204(s *zap.SugaredLogger) { s.Infow("site", "i", 204) }
func c15SiteS205(s *zap.SugaredLogger) { s.Infow("site", "i", 205) }
func c15SiteS206(s *zap.SugaredLogger) { s.Infow("site", "i", 206) }
func c15SiteS207(s *zap.SugaredLogger) { s.Infow("site", "i", 207) }
func c15SiteS208(s *zap.SugaredLogger) { s.Infow("site", "i", 208) }
func c15SiteS209(s *zap.SugaredLogger) { s.Infow("site", "i", 209) }
func c15SiteS210(s *zap.SugaredLogger) { s.Infow("site", "i", 210) }
func c15SiteS211(s *zap.SugaredLogger) { s.Infow("site", "i", 211) }
func c15SiteS212(s *zap.SugaredLogger) { s.Infow("site", "i", 212) }
func c15SiteS213(s *zap.SugaredLogger) { s.Infow("site", "i", 213) }
func c15SiteS214(s *zap.SugaredLogger) { s.Infow("site", "i", 214) }
func c15SiteS215(s *zap.SugaredLogger) { s.Infow("site", "i", 215) }
func c15SiteS216(s *zap.SugaredLogger) { s.Infow("site", "i", 216) }
func c15SiteS217(s *zap.SugaredLogger) { s.Infow("site", "i", 217) }
func c15SiteS218(s *zap.SugaredLogger) { s.Infow("site", "i", 218) }
func c15SiteS219(s *zap.SugaredLogger) { s.Infow("site", "i", 219) }
func c15SiteS220(s *zap.SugaredLogger) { s.Infow("site", "i", 220) }
func c15SiteS221(s *zap.SugaredLogger) { s.Infow("site", "i", 221) }
func c15SiteS222(s *zap.SugaredLogger) { s.Infow("site", "i", 222) }
func c15SiteS223(s *zap.SugaredLogger) { s.Infow("site", "i", 223) }
func c15SiteS224(s *zap.SugaredLogger) { s.Infow("site", "i", 224) }
func c15SiteS225(s *zap.SugaredLogger) { s.Infow("site", "i", 225) }
func c15SiteS226(s *zap.SugaredLogger) { s.Infow("site", "i", 226) }
func c15SiteS227(s *zap.SugaredLogger) { s.Infow("site", "i", 227) }
func c15SiteS228(s *zap.SugaredLogger) { s.Infow("site", "i", 228) }
func c15SiteS229(s *zap.SugaredLogger) { s.Infow("site", "i", 229) }
func c15SiteS230(s *zap.SugaredLogger) { s.Infow("site", "i", 230) }
func c15SiteS231(s *zap.SugaredLogger) { s.Infow("site", "i", 231) }
func c15SiteS232(s *zap.SugaredLogger) { s.Infow("site", "i", 232) }
func c15SiteS233(s *zap.SugaredLogger) { s.Infow("site", "i", 233) }
func c15SiteS234(s *zap.SugaredLogger) { s.Infow("site", "i", 234) }
func c15SiteS235(s *zap.SugaredLogger) { s.Infow("site", "i", 235) }
func c15SiteS236(s *zap.SugaredLogger) { s.Infow("site", "i", 236) }
func c15SiteS237(s *zap.SugaredLogger) { s.Infow("site", "i", 237) }
func c15SiteS238(s *zap.SugaredLogger) { s.Infow("site", "i", 238) }
func c15SiteS239(s *zap.SugaredLogger) { s.Infow("site", "i", 239) }
func c15SiteS240(s *zap.SugaredLogger) { s.Infow("site", "i", 240) }
func c15SiteS241(s *zap.SugaredLogger) { s.Infow("site", "i", 241) }
func c15SiteS242(s *zap.SugaredLogger) { s.Infow("site", "i", 242) }
func c15SiteS243(s *zap.SugaredLogger) { s.Infow("site", "i", 243) }
func c15SiteS244(s *zap.SugaredLogger) { s.Infow("site", "i", 244) }
func c15SiteS245(s *zap.SugaredLogger) { s.Infow("site", "i", 245) }
func c15SiteS246(s *zap.SugaredLogger) { s.Infow("site", "i", 246) }
func c15SiteS247(s *zap.SugaredLogger) { s.Infow("site", "i", 247) }
func c15SiteS248(s *zap.SugaredLogger) { s.Infow("site", "i", 248) }
func c15SiteS249(s *zap.SugaredLogger) { s.Infow("site", "i", 249) }
func c15SiteS250(s *zap.SugaredLogger) { s.Infow("site", "i", 250) }
func c15SiteS251(s *zap.SugaredLogger) { s.Infow("site", "i", 251) }
func c15SiteS252(s *zap.SugaredLogger) { s.Infow("site", "i", 252) }
func c15SiteS253(s *zap.SugaredLogger) { s.Infow("site", "i", 253) }
func c15SiteS254(s *zap.SugaredLogger) { s.Infow("site", "i", 254) }
func c15SiteS255(s *zap.SugaredLogger) { s.Infow("site", "i", 255) }
func c15SiteS256(s *zap.SugaredLogger) { s.Infow("site", "i", 256) }
func c15SiteS257(s *zap.SugaredLogger) { s.Infow("site", "i", 257) }
func c15SiteS258(s *zap.SugaredLogger) { s.Infow("site", "i", 258) }
func c15SiteS259(s *zap.SugaredLogger) { s.Infow("site", "i", 259) }
func c15SiteS260(s *zap.SugaredLogger) { s.Infow("site", "i", 260) }
func c15SiteS261(s *zap.SugaredLogger) { s.Infow("site", "i", 261) }
func c15SiteS262(s *zap.SugaredLogger) { s.Infow("site", "i", 262) }
func c15SiteS263(s *zap.SugaredLogger) { s.Infow("site", "i", 263) }
func c15SiteS264(s *zap.SugaredLogger) { s.Infow("site", "i", 264) }
func c15SiteS265(s *zap.SugaredLogger) { s.Infow("site", "i", 265) }
func c15SiteS266(s *zap.SugaredLogger) { s.Infow("site", "i", 266) }
func c15SiteS267(s *zap.SugaredLogger) { s.Infow("site", "i", 267) }
func c15SiteS268(s *zap.SugaredLogger) { s.Infow("site", "i", 268) }
func c15SiteS269(s *zap.SugaredLogger) { s.Infow("site", "i", 269) }
func c15SiteS270(s *zap.SugaredLogger) { s.Infow("site", "i", 270) }
func c15SiteS271(s *zap.SugaredLogger) { s.Infow("site", "i", 271) }
func c15SiteS272(s *zap.SugaredLogger) { s.Infow("site", "i", 272) }
func c15SiteS273(s *zap.SugaredLogger) { s.Infow("site", "i", 273) }
func c15SiteS274(s *zap.SugaredLogger) { s.Infow("site", "i", 274) }
func c15SiteS275(s *zap.SugaredLogger) { s.Infow("site", "i", 275) }
func c15SiteS276(s *zap.SugaredLogger) { s.Infow("site", "i", 276) }
func c15SiteS277(s *zap.SugaredLogger) { s.Infow("site", "i", 277) }
func c15SiteS278(s *zap.SugaredLogger) { s.Infow("site", "i", 278) }
func c15SiteS279(s *zap.SugaredLogger) { s.Infow("site", "i", 279) }
func c15SiteS280(s *zap.SugaredLogger) { s.Infow("site", "i", 280) }
func c15SiteS281(s *zap.SugaredLogger) { s.Infow("site", "i", 281) }
func c15SiteS282(s *zap.SugaredLogger) { s.Infow("site", "i", 282) }
func c15SiteS283(s *zap.SugaredLogger) { s.Infow("site", "i", 283) }
func c15SiteS284(s *zap.SugaredLogger) { s.Infow("site", "i", 284) }
func c15SiteS285(s *zap.SugaredLogger) { s.Infow("site", "i", 285) }
func c15SiteS286(s *zap.SugaredLogger) { s.Infow("site", "i", 286) }
func c15SiteS287(s *zap.SugaredLogger) { s.Infow("site", "i", 287) }
func c15SiteS288(s *zap.SugaredLogger) { s.Infow("site", "i", 288) }
func c15SiteS289(s *zap.SugaredLogger) { s.Infow("site", "i", 289) }
func c15SiteS290(s *zap.SugaredLogger) { s.Infow("site", "i", 290) }
func c15SiteS291(s *zap.SugaredLogger) { s.Infow("site", "i", 291) }
func c15SiteS292(s *zap.SugaredLogger) { s.Infow("site", "i", 292) }
func c15SiteS293(s *zap.SugaredLogger) { s.Infow("site", "i", 293) }
func c15SiteS294(s *zap.SugaredLogger) { s.Infow("site", "i", 294) }
func c15SiteS295(s *zap.SugaredLogger) { s.Infow("site", "i", 295) }
func c15SiteS296(s *zap.SugaredLogger) { s.Infow("site", "i", 296) }
func c15SiteS297(s *zap.SugaredLogger) { s.Infow("site", "i", 297) }
func c15SiteS298(s *zap.SugaredLogger) { s.Infow("site", "i", 298) }
func c15SiteS299(s *zap.SugaredLogger) { s.Infow("site", "i", 299) }

var c15SitesL = []func(*zap.Logger){
	c15SiteL000, c15SiteL001, c15SiteL002, c15SiteL003, c15SiteL004, c15SiteL005, c15SiteL006, c15SiteL007, c15SiteL008, c15SiteL009,
	c15SiteL010, c15SiteL011, c15SiteL012, c15SiteL013, c15SiteL014, c15SiteL015, c15SiteL016, c15SiteL017, c15SiteL018, c15SiteL019,
	c15SiteL020, c15SiteL021, c15SiteL022, c15SiteL023, c15SiteL024, c15SiteL025, c15SiteL026, c15SiteL027, c15SiteL028, c15SiteL029,
	c15SiteL030, c15SiteL031, c15SiteL032, c15SiteL033, c15SiteL034, c15SiteL035, c15SiteL036, c15SiteL037, c15SiteL038, c15SiteL039,
	c15SiteL040, c15SiteL041, c15SiteL042, c15SiteL043, c15SiteL044, c15SiteL045, c15SiteL046, c15SiteL047, c15SiteL048, c15SiteL049,
	c15SiteL050, c15SiteL051, c15SiteL052, c15SiteL053, c15SiteL054, c15SiteL055, c15SiteL056, c15SiteL057, c15SiteL058, c15SiteL059,
	c15SiteL060, c15SiteL061, c15SiteL062, c15SiteL063, c15SiteL064, c15SiteL065, c15SiteL066, c15SiteL067, c15SiteL068, c15SiteL069,
	c15SiteL070, c15SiteL071, c15SiteL072, c15SiteL073, c15SiteL074, c15SiteL075, c15SiteL076, c15SiteL077, c15SiteL078, c15SiteL079,
	c15SiteL080, c15SiteL081, c15SiteL082, c15SiteL083, c15SiteL084, c15SiteL085, c15SiteL086, c15SiteL087, c15SiteL088, c15SiteL089,
	c15SiteL090, c15SiteL091, c15SiteL092, c15SiteL093, c15SiteL094, c15SiteL095, c15SiteL096, c15SiteL097, c15SiteL098, c15SiteL099,
	c15SiteL100, c15SiteL101, c15SiteL102, c15SiteL103, c15SiteL104, c15SiteL105, c15SiteL106, c15SiteL107, c15SiteL108, c15SiteL109,
	c15SiteL110, c15SiteL111, c15SiteL112, c15SiteL113, c15SiteL114, c15SiteL115, c15SiteL116, c15SiteL117, c15SiteL118, c15SiteL119,
	c15SiteL120, c15SiteL121, c15SiteL122, c15SiteL123, c15SiteL124, c15SiteL125, c15SiteL126, c15SiteL127, c15SiteL128, c15SiteL129,
	c15SiteL130, c15SiteL131, c15SiteL132, c15SiteL133, c15SiteL134, c15SiteL135, c15SiteL136, c15SiteL137, c15SiteL138, c15SiteL139,
	c15SiteL140, c15SiteL141, c15SiteL142, c15SiteL143, c15SiteL144, c15SiteL145, c15SiteL146, c15SiteL147, c15SiteL148, c15SiteL149,
	c15SiteL150, c15SiteL151, c15SiteL152, c15SiteL153, c15SiteL154, c15SiteL155, c15SiteL156, c15SiteL157, c15SiteL158, c15SiteL159,
	c15SiteL160, c15SiteL161, c15SiteL162, c15SiteL163, c15SiteL164, c15SiteL165, c15SiteL166, c15SiteL167, c15SiteL168, c15SiteL169,
	c15SiteL170, c15SiteL171, c15SiteL172, c15SiteL173, c15SiteL174, c15SiteL175, c15SiteL176, c15SiteL177, c15SiteL178, c15SiteL179,
	c15SiteL180, c15SiteL181, c15SiteL182, c15SiteL183, c15SiteL184, c15SiteL185, c15SiteL186, c15SiteL187, c15SiteL188, c15SiteL189,
	c15SiteL190, c15SiteL191, c15SiteL192, c15SiteL193, c15SiteL194, c15SiteL195, c15SiteL196, c15SiteL197, c15SiteL198, c15SiteL199,
	c15SiteL200, c15SiteL201, c15SiteL202, c15SiteL203, c15SiteL204, c15SiteL205, c15SiteL206, c15SiteL207, c15SiteL208, c15SiteL209,
	c15SiteL210, c15SiteL211, c15SiteL212, c15SiteL213, c15SiteL214, c15SiteL215, c15SiteL216, c15SiteL217, c15SiteL218, c15SiteL219,
	c15SiteL220, c15SiteL221, c15SiteL222, c15SiteL223, c15SiteL224, c15SiteL225, c15SiteL226, c15SiteL227, c15SiteL228, c15SiteL229,
	c15SiteL230, c15SiteL231, c15SiteL232, c15SiteL233, c15SiteL234, c15SiteL235, c15SiteL236, c15SiteL237, c15SiteL238, c15SiteL239,
	c15SiteL240, c15SiteL241, c15SiteL242, c15SiteL243, c15SiteL244, c15SiteL245, c15SiteL246, c15SiteL247, c15SiteL248, c15SiteL249,
	c15SiteL250, c15SiteL251, c15SiteL252, c15SiteL253, c15SiteL254, c15SiteL255, c15SiteL256, c15SiteL257, c15SiteL258, c15SiteL259,
	c15SiteL260, c15SiteL261, c15SiteL262, c15SiteL263, c15SiteL264, c15SiteL265, c15SiteL266, c15SiteL267, c15SiteL268, c15SiteL269,
	c15SiteL270, c15SiteL271, c15SiteL272, c15SiteL273, c15SiteL274, c15SiteL275, c15SiteL276, c15SiteL277, c15SiteL278, c15SiteL279,
	c15SiteL280, c15SiteL281, c15SiteL282, c15SiteL283, c15SiteL284, c15SiteL285, c15SiteL286, c15SiteL287, c15SiteL288, c15SiteL289,
	c15SiteL290, c15SiteL291, c15SiteL292, c15SiteL293, c15SiteL294, c15SiteL295, c15SiteL296, c15SiteL297, c15SiteL298, c15SiteL299,
}

var c15SitesS = []func(*zap.SugaredLogger){
	c15SiteS000, c15SiteS001, c15SiteS002, c15SiteS003, c15SiteS004, c15SiteS005, c15SiteS006, c15SiteS007, c15SiteS008, c15SiteS009,
	c15SiteS010, c15SiteS011, c15SiteS012, c15SiteS013, c15SiteS014, c15SiteS015, c15SiteS016, c15SiteS017, c15SiteS018, c15SiteS019,
	c15SiteS020, c15SiteS021, c15SiteS022, c15SiteS023, c15SiteS024, c15SiteS025, c15SiteS026, c15SiteS027, c15SiteS028, c15SiteS029,
	c15SiteS030, c15SiteS031, c15SiteS032, c15SiteS033, c15SiteS034, c15SiteS035, c15SiteS036, c15SiteS037, c15SiteS038, c15SiteS039,
	c15SiteS040, c15SiteS041, c15SiteS042, c15SiteS043, c15SiteS044, c15SiteS045, c15SiteS046, c15SiteS047, c15SiteS048, c15SiteS049,
	c15SiteS050, c15SiteS051, c15SiteS052, c15SiteS053, c15SiteS054, c15SiteS055, c15SiteS056, c15SiteS057, c15SiteS058, c15SiteS059,
	c15SiteS060, c15SiteS061, c15SiteS062, c15SiteS063, c15SiteS064, c15SiteS065, c15SiteS066, c15SiteS067, c15SiteS068, c15SiteS069,
	c15SiteS070, c15SiteS071, c15SiteS072, c15SiteS073, c15SiteS074, c15SiteS075, c15SiteS076, c15SiteS077, c15SiteS078, c15SiteS079,
	c15SiteS080, c15SiteS081, c15SiteS082, c15SiteS083, c15SiteS084, c15SiteS085, c15SiteS086, c15SiteS087, c15SiteS088, c15SiteS089,
	c15SiteS090, c15SiteS091, c15SiteS092, c15SiteS093, c15SiteS094, c15SiteS095, c15SiteS096, c15SiteS097, c15SiteS098, c15SiteS099,
	c15SiteS100, c15SiteS101, c15SiteS102, c15SiteS103, c15SiteS104, c15SiteS105, c15SiteS106, c15SiteS107, c15SiteS108, c15SiteS109,
	c15SiteS110, c15SiteS111, c15SiteS112, c15SiteS113, c15SiteS114, c15SiteS115, c15SiteS116, c15SiteS117, c15SiteS118, c15SiteS119,
	c15SiteS120, c15SiteS121, c15SiteS122, c15SiteS123, c15SiteS124, c15SiteS125, c15SiteS126, c15SiteS127, c15SiteS128, c15SiteS129,
	c15SiteS130, c15SiteS131, c15SiteS132, c15SiteS133, c15SiteS134, c15SiteS135, c15SiteS136, c15SiteS137, c15SiteS138, c15SiteS139,
	c15SiteS140, c15SiteS141, c15SiteS142, c15SiteS143, c15SiteS144, c15SiteS145, c15SiteS146, c15SiteS147, c15SiteS148, c15SiteS149,
	c15SiteS150, c15SiteS151, c15SiteS152, c15SiteS153, c15SiteS154, c15SiteS155, c15SiteS156, c15SiteS157, c15SiteS158, c15SiteS159,
	c15SiteS160, c15SiteS161, c15SiteS162, c15SiteS163, c15SiteS164, c15SiteS165, c15SiteS166, c15SiteS167, c15SiteS168, c15SiteS169,
	c15SiteS170, c15SiteS171, c15SiteS172, c15SiteS173, c15SiteS174, c15SiteS175, c15SiteS176, c15SiteS177, c15SiteS178, c15SiteS179,
	c15SiteS180, c15SiteS181, c15SiteS182, c15SiteS183, c15SiteS184, c15SiteS185, c15SiteS186, c15SiteS187, c15SiteS188, c15SiteS189,
	c15SiteS190, c15SiteS191, c15SiteS192, c15SiteS193, c15SiteS194, c15SiteS195, c15SiteS196, c15SiteS197, c15SiteS198, c15SiteS199,
	c15SiteS200, c15SiteS201, c15SiteS202, c15SiteS203, c15SiteS204, c15SiteS205, c15SiteS206, c15SiteS207, c15SiteS208, c15SiteS209,
	c15SiteS210, c15SiteS211, c15SiteS212, c15SiteS213, c15SiteS214, c15SiteS215, c15SiteS216, c15SiteS217, c15SiteS218, c15SiteS219,
	c15SiteS220, c15SiteS221, c15SiteS222, c15SiteS223, c15SiteS224, c15SiteS225, c15SiteS226, c15SiteS227, c15SiteS228, c15SiteS229,
	c15SiteS230, c15SiteS231, c15SiteS232, c15SiteS233, c15SiteS234, c15SiteS235, c15SiteS236, c15SiteS237, c15SiteS238, c15SiteS239,
	c15SiteS240, c15SiteS241, c15SiteS242, c15SiteS243, c15SiteS244, c15SiteS245, c15SiteS246, c15SiteS247, c15SiteS248, c15SiteS249,
	c15SiteS250, c15SiteS251, c15SiteS252, c15SiteS253, c15SiteS254, c15SiteS255, c15SiteS256, c15SiteS257, c15SiteS258, c15SiteS259,
	c15SiteS260, c15SiteS261, c15SiteS262, c15SiteS263, c15SiteS264, c15SiteS265, c15SiteS266, c15SiteS267, c15SiteS268, c15SiteS269,
	c15SiteS270, c15SiteS271, c15SiteS272, c15SiteS273, c15SiteS274, c15SiteS275, c15SiteS276, c15SiteS277, c15SiteS278, c15SiteS279,
	c15SiteS280, c15SiteS281, c15SiteS282, c15SiteS283, c15SiteS284, c15SiteS285, c15SiteS286, c15SiteS287, c15SiteS288, c15SiteS289,
	c15SiteS290, c15SiteS291, c15SiteS292, c15SiteS293, c15SiteS294, c15SiteS295, c15SiteS296, c15SiteS297, c15SiteS298, c15SiteS299,
}
