package props

import (
	"errors"
	"fmt"
	"testing"

	"go.uber.org/zap"
	"go.uber.org/zap/zapcore"
	"pgregory.net/rapid"
)

// c13FlakySink fails its first n writes (and, independently, its first m syncs) and works afterwards.
type c13FlakySink struct {
	failWrites, failSyncs int
	writes, syncs         int
	lastLen               int
}

var errC13Down = errors.New("destination is down")

func (s *c13FlakySink) Write(p []byte) (int, error) {
	s.writes++
	s.lastLen = len(p)
	if s.writes <= s.failWrites {
		return 0, errC13Down
	}
	return len(p), nil
}

func (s *c13FlakySink) Sync() error {
	s.syncs++
	if s.syncs <= s.failSyncs {
		return errC13Down
	}
	return nil
}

// propC13MultiLongRun: a multi syncer that lives for thousands of writes while one of its destinations is down for a
// long stretch and then comes back: on EVERY call every destination is offered the bytes (and the Sync), and every
// failure is reported - the thousandth consecutive failure like the first, the first success after it like any other.
func propC13MultiLongRun(t *rapid.T) {
	n := rapid.IntRange(2, 4).Draw(t, "sinks")
	sinks := make([]*c13FlakySink, n)
	ws := make([]zapcore.WriteSyncer, n)
	for i := range sinks {
		sinks[i] = &c13FlakySink{}
		if rapid.IntRange(0, 1).Draw(t, "flaky") == 0 {
			sinks[i].failWrites = rapid.SampledFrom([]int{1, 100, 1023, 1024, 1025, 1500, 2100}).Draw(t, "downForWrites")
			sinks[i].failSyncs = rapid.SampledFrom([]int{0, 1, 300, 1100}).Draw(t, "downForSyncs")
		}
		ws[i] = sinks[i]
	}
	var multi zapcore.WriteSyncer
	how := rapid.SampledFrom([]string{"NewMultiWriteSyncer", "CombineWriteSyncers", "Lock(NewMultiWriteSyncer)"}).Draw(t, "constructor")
	switch how {
	case "CombineWriteSyncers":
		multi = zap.CombineWriteSyncers(ws...)
	case "Lock(NewMultiWriteSyncer)":
		multi = zapcore.Lock(zapcore.NewMultiWriteSyncer(ws...))
	default:
		multi = zapcore.NewMultiWriteSyncer(ws...)
	}
	total := rapid.SampledFrom([]int{300, 1300, 2600}).Draw(t, "writes")
	syncEvery := rapid.SampledFrom([]int{1, 2, 7}).Draw(t, "syncEvery")
	longOutage := false
	nsync := 0
	for k := 1; k <= total; k++ {
		p := []byte(fmt.Sprintf("entry %d\n", k))
		wantErr := false
		for _, s := range sinks {
			wantErr = wantErr || k <= s.failWrites
			longOutage = longOutage || (s.failWrites >= 1023 && total > s.failWrites)
		}
		nw, err := multi.Write(p)
		for i, s := range sinks {
			if s.writes != k || s.lastLen != len(p) {
				t.Fatalf("write %d (%s): destination %d has been offered %d writes (the last of %d bytes), want %d (of %d bytes): every destination receives every write, whatever happened to it or to the others before", k, how, i, s.writes, s.lastLen, k, len(p))
			}
		}
		if (err != nil) != wantErr || (wantErr && nw != 0) || (!wantErr && nw != len(p)) {
			t.Fatalf("write %d (%s) returned (%d, %v); a destination failed: %v", k, how, nw, err, wantErr)
		}
		if k%syncEvery == 0 {
			nsync++
			wantSyncErr := false
			for _, s := range sinks {
				wantSyncErr = wantSyncErr || nsync <= s.failSyncs
			}
			serr := multi.Sync()
			for i, s := range sinks {
				if s.syncs != nsync {
					t.Fatalf("sync %d (%s): destination %d has seen %d syncs", nsync, how, i, s.syncs)
				}
			}
			if (serr != nil) != wantSyncErr {
				t.Fatalf("sync %d (%s) returned %v; a destination failed: %v", nsync, how, serr, wantSyncErr)
			}
		}
	}
	statCase("C13", longOutage, fmt.Sprintf("multilong|%d|%s|%d|%v", n, how, total, longOutage), "long-lived multi syncer", fmt.Sprintf("%d writes", total))
}

func TestC13MultiLongRun(t *testing.T) { rapid.Check(t, propC13MultiLongRun) }
