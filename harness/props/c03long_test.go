package props

import (
	"errors"
	"fmt"
	"testing"
	"time"

	"go.uber.org/zap"
	"go.uber.org/zap/zapcore"
)

type c03NilErr struct{ msg string }

func (e *c03NilErr) Error() string { return e.msg } // panics on a nil receiver; zap logs "<nil>" for it

type c03Group struct{ errs []error }

func (g c03Group) Error() string   { return fmt.Sprintf("%d errors", len(g.errs)) }
func (g c03Group) Errors() []error { return g.errs }

// c03ProcessLongRun: the encoder receives the value it was given however much the PROCESS has encoded before: after
// thousands of fields of every troublesome kind (errors whose Error panics, failing marshalers, nil pointers, huge
// values), a representative of each field family is delivered exactly as it was the first time.
func c03ProcessLongRun(t *testing.T) {
	var nilErr *c03NilErr
	group := c03Group{[]error{errors.New("first cause"), c03Group{[]error{errors.New("nested cause")}}}}
	probe := func() string {
		enc := zapcore.NewMapObjectEncoder()
		for _, f := range []zapcore.Field{
			zap.Error(group), zap.NamedError("plain", errors.New("plain")), zap.Errors("list", []error{group, errors.New("x")}),
			zap.Time("t", time.Unix(1, 5).In(time.FixedZone("Z", 3600))), zap.Duration("d", time.Second), zap.Ints("ints", []int{1, 2, 3}),
			zap.Dict("dict", zap.Int("a", 1), zap.String("b", "c")), zap.Stringer("s", okStringer{"str"}), zap.Binary("bin", []byte{1, 2}),
			zap.Reflect("r", map[string]int{"x": 1}), zap.Any("any", []time.Duration{1, 2}), zap.Namespace("ns"), zap.Int("inner", 1),
		} {
			f.AddTo(enc)
		}
		return fmt.Sprintf("%v", enc.Fields)
	}
	first := probe()
	for i := 1; i <= 6000; i++ {
		enc := zapcore.NewMapObjectEncoder()
		zap.Error(nilErr).AddTo(enc)
		zap.NamedError("k", nilErr).AddTo(enc)
		zap.Errors("es", []error{nilErr, group}).AddTo(enc)
		zap.Object("o", zapcore.ObjectMarshalerFunc(func(zapcore.ObjectEncoder) error { return errors.New("marshal failed") })).AddTo(enc)
		zap.Stringer("s", (*okStringerPtr)(nil)).AddTo(enc)
		if i%500 == 0 || i == 1023 || i == 1024 || i == 1025 {
			if got := probe(); got != first {
				t.Fatalf("after %d rounds of troublesome fields the probe fields arrive as\n %s\nthe first time they arrived as\n %s", i, clipS(got), clipS(first))
			}
		}
	}
	statCase("C03", true, "processlongrun", "long-lived process")
}

type okStringerPtr struct{}

func (*okStringerPtr) String() string { return "ptr" }
