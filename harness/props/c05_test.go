package props

// C05 — an entry is written exactly where its level is enabled; reported levels agree.

import (
	"context"
	"encoding/json"
	"fmt"
	"log/slog"
	"strings"
	"testing"
	"time"

	"go.uber.org/zap"
	"go.uber.org/zap/exp/zapslog"
	"go.uber.org/zap/zapcore"
	"go.uber.org/zap/zapgrpc"
	"go.uber.org/zap/zapio"
	"go.uber.org/zap/zaptest/observer"
	"pgregory.net/rapid"
)

// lvlSet is an arbitrary (possibly non-monotone, possibly empty) level enabler.
type lvlSet [256]bool

func (s *lvlSet) Enabled(l zapcore.Level) bool { return s[uint8(l)] }

// c05Enab is either an arbitrary set or a shared AtomicLevel.
type c05Enab struct {
	set *lvlSet
	al  *zap.AtomicLevel
	// leveled: the user's enabler type also reports its lowest enabled level through a Level() method (what zap's
	// LevelOf would find by asking) - which says nothing about the levels above it: the set need not be a threshold
	leveled bool
}

// c05LeveledSet is a user-written LevelEnabler with a Level() method: an arbitrary set plus its floor.
type c05LeveledSet struct{ *lvlSet }

func (s c05LeveledSet) Level() zapcore.Level {
	for l := zapcore.DebugLevel; l <= zapcore.FatalLevel; l++ {
		if s.Enabled(l) {
			return l
		}
	}
	return zapcore.InvalidLevel
}

func (e c05Enab) enabler() zapcore.LevelEnabler {
	if e.al != nil {
		return *e.al
	}
	if e.leveled {
		return c05LeveledSet{e.set}
	}
	return e.set
}

// on is the reference: a set membership or the documented threshold rule.
func (e c05Enab) on(l zapcore.Level) bool {
	if e.al != nil {
		return int8(l) >= int8(e.al.Level())
	}
	return e.set[uint8(l)]
}

func (e c05Enab) String() string {
	if e.al != nil {
		return fmt.Sprintf("atomic(%d)", int8(e.al.Level()))
	}
	var on []string
	for l := -128; l < 128; l++ {
		if e.set[uint8(int8(l))] && (l >= -3 && l <= 8) {
			on = append(on, fmt.Sprint(l))
		}
	}
	return "{" + strings.Join(on, " ") + "}"
}

func genC05Enab(t *rapid.T, atomics []*zap.AtomicLevel) c05Enab {
	switch rapid.IntRange(0, 5).Draw(t, "enabKind") {
	case 0, 1: // shared atomic level
		return c05Enab{al: atomics[rapid.IntRange(0, len(atomics)-1).Draw(t, "atomic")]}
	case 2: // monotone threshold as a plain set
		th := rapid.IntRange(-3, 8).Draw(t, "threshold")
		s := &lvlSet{}
		for l := -128; l < 128; l++ {
			s[uint8(int8(l))] = l >= th
		}
		return c05Enab{set: s}
	case 3: // arbitrary over the interesting band, rest off
		s := &lvlSet{}
		for l := -3; l <= 8; l++ {
			s[uint8(int8(l))] = rapid.Bool().Draw(t, "bit")
		}
		return c05Enab{set: s, leveled: rapid.Bool().Draw(t, "enablerHasLevelMethod")}
	case 4: // arbitrary over all 256 values
		s := &lvlSet{}
		bits := rapid.SliceOfN(rapid.Uint64(), 4, 4).Draw(t, "bits256")
		for i := 0; i < 256; i++ {
			s[i] = bits[i/64]>>(uint(i)%64)&1 == 1
		}
		return c05Enab{set: s}
	default: // nothing
		return c05Enab{set: &lvlSet{}}
	}
}

type c05Node struct {
	id    int
	kind  string // obs json tee inc hook sampler lazy with
	en    c05Enab
	kids  []*c05Node
	logs  *observer.ObservedLogs
	sink  *memSink
	hookN *int
	sampN *int // sampling-decision hook calls (sampler nodes)
	core  zapcore.Core
}

type c05Builder struct {
	t       *rapid.T
	next    int
	atomics []*zap.AtomicLevel
}

func (b *c05Builder) gen(depth int) *c05Node {
	k := "leaf"
	if depth > 0 {
		k = rapid.SampledFrom([]string{"leaf", "leaf", "tee", "tee", "inc", "hook", "sampler", "dropper", "lazy", "with"}).Draw(b.t, "nodeKind")
	}
	b.next++
	n := &c05Node{id: b.next, kind: k}
	switch k {
	case "leaf":
		n.kind = rapid.SampledFrom([]string{"obs", "obs", "json"}).Draw(b.t, "leafKind")
		n.en = genC05Enab(b.t, b.atomics)
	case "tee":
		nk := rapid.IntRange(0, 3).Draw(b.t, "teeBranches")
		for i := 0; i < nk; i++ {
			n.kids = append(n.kids, b.gen(depth-1))
		}
	case "inc":
		n.kids = []*c05Node{b.gen(depth - 1)}
		n.en = genC05Enab(b.t, b.atomics)
	default:
		n.kids = []*c05Node{b.gen(depth - 1)}
	}
	return n
}

// ---- reference model (from the statement)

func (n *c05Node) enabled(l zapcore.Level) bool {
	switch n.kind {
	case "obs", "json":
		return n.en.on(l)
	case "tee":
		for _, k := range n.kids {
			if k.enabled(l) {
				return true
			}
		}
		return false
	case "inc":
		return n.en.on(l)
	default:
		return n.kids[0].enabled(l)
	}
}

// deliver adds the expected deliveries for level l and returns how many
// destinations below n accepted the entry. reached says whether the entry is
// offered to this node at all (the logger's cheap pre-check and every filter
// above let it through); samp counts the expected sampling-decision hook calls.
func (n *c05Node) deliver(l zapcore.Level, reached bool, leaves, hooks, samp map[int]int) int {
	switch n.kind {
	case "obs", "json":
		if reached && n.en.on(l) {
			leaves[n.id]++
			return 1
		}
		return 0
	case "tee":
		c := 0
		for _, k := range n.kids {
			c += k.deliver(l, reached, leaves, hooks, samp)
		}
		return c
	case "inc":
		return n.kids[0].deliver(l, reached && n.en.on(l), leaves, hooks, samp)
	case "hook":
		c := n.kids[0].deliver(l, reached, leaves, hooks, samp)
		if c > 0 {
			hooks[n.id]++
		}
		return c
	case "sampler":
		// a sampler decides (and reports its decision) only for entries at levels
		// its wrapped core enables; out-of-range levels pass undecided
		on := reached && n.kids[0].enabled(l)
		if on && l >= zapcore.DebugLevel && l <= zapcore.FatalLevel {
			samp[n.id]++
		}
		return n.kids[0].deliver(l, on, leaves, hooks, samp)
	case "dropper":
		// a sampler with an empty budget: it decides for every in-range entry its wrapped core enables - and drops
		// it. Nothing below receives the entry; whatever accepted it elsewhere in the tree keeps it.
		on := reached && n.kids[0].enabled(l)
		if on && l >= zapcore.DebugLevel && l <= zapcore.FatalLevel {
			samp[n.id]++
			return n.kids[0].deliver(l, false, leaves, hooks, samp)
		}
		return n.kids[0].deliver(l, on, leaves, hooks, samp)
	default:
		return n.kids[0].deliver(l, reached, leaves, hooks, samp)
	}
}

var c05JSONCfg = zapcore.EncoderConfig{MessageKey: "m", LevelKey: "l", EncodeLevel: zapcore.LowercaseLevelEncoder}

func (n *c05Node) build(t *rapid.T) zapcore.Core {
	n.core = n.build0(t)
	return n.core
}

func (n *c05Node) build0(t *rapid.T) zapcore.Core {
	switch n.kind {
	case "obs":
		c, logs := observer.New(n.en.enabler())
		n.logs = logs
		return c
	case "json":
		n.sink = &memSink{}
		return zapcore.NewCore(zapcore.NewJSONEncoder(c05JSONCfg), n.sink, n.en.enabler())
	case "tee":
		var cs []zapcore.Core
		for _, k := range n.kids {
			cs = append(cs, k.build(t))
		}
		// the caller's list may hold cores that enable nothing (a tee may want to leave them out) and is the
		// caller's to use again: the tee is built twice from it and the list must be as it was
		if at := rapid.IntRange(-2, len(cs)).Draw(t, "nopCoreAt"); at >= 0 {
			cs = append(cs[:at:at], append([]zapcore.Core{zapcore.NewNopCore()}, cs[at:]...)...)
		}
		callers := append([]zapcore.Core(nil), cs...)
		_ = zapcore.NewTee(cs...)
		for i := range cs {
			if !sameIface(cs[i], callers[i]) {
				t.Fatalf("NewTee rearranged the caller's list of cores: element %d of %d is now %T", i, len(cs), cs[i])
			}
		}
		return zapcore.NewTee(cs...)
	case "inc":
		child := n.kids[0].build(t)
		wantErr := false
		for l := zapcore.DebugLevel; l <= zapcore.FatalLevel; l++ {
			if n.en.on(l) && !n.kids[0].enabled(l) {
				wantErr = true
			}
		}
		c, err := zapcore.NewIncreaseLevelCore(child, n.en.enabler())
		if (err != nil) != wantErr {
			t.Fatalf("NewIncreaseLevelCore(child=%s, level=%s): error=%v, want error=%v (an error exactly when the new enabler enables an in-range level the wrapped core does not)", n.kids[0], n.en, err, wantErr)
		}
		if err != nil {
			// degrade the node to a transparent wrapper
			n.kind = "with"
			return child.With(nil)
		}
		return c
	case "hook":
		child := n.kids[0].build(t)
		cnt := new(int)
		n.hookN = cnt
		// hooks handed over by spreading a slice the caller goes on using (e.g. to assemble the next core): the
		// core keeps running the hooks it was registered with
		hs := []func(zapcore.Entry) error{func(zapcore.Entry) error { *cnt++; return nil }, func(zapcore.Entry) error { return nil }}
		hc := zapcore.RegisterHooks(child, hs...)
		for i := range hs {
			hs[i] = func(zapcore.Entry) error {
				*cnt += 1000 // a hook registered LATER in the recycled slice: never this core's
				return nil
			}
		}
		return hc
	case "sampler":
		cnt := new(int)
		n.sampN = cnt
		return zapcore.NewSamplerWithOptions(n.kids[0].build(t), time.Hour, 1<<30, 0, zapcore.SamplerHook(func(zapcore.Entry, zapcore.SamplingDecision) { *cnt++ }))
	case "dropper":
		cnt := new(int)
		n.sampN = cnt
		return zapcore.NewSamplerWithOptions(n.kids[0].build(t), time.Hour, 0, 0, zapcore.SamplerHook(func(zapcore.Entry, zapcore.SamplingDecision) { *cnt++ }))
	case "lazy":
		return zapcore.NewLazyWith(n.kids[0].build(t), []zapcore.Field{zap.Int("lazy", n.id)})
	default:
		return n.kids[0].build(t).With([]zapcore.Field{zap.Int("with", n.id)})
	}
}

func (n *c05Node) walk(f func(*c05Node)) {
	f(n)
	for _, k := range n.kids {
		k.walk(f)
	}
}

func (n *c05Node) depth() int {
	d := 0
	for _, k := range n.kids {
		if kd := k.depth() + 1; kd > d {
			d = kd
		}
	}
	return d
}

func (n *c05Node) String() string {
	var ks []string
	for _, k := range n.kids {
		ks = append(ks, k.String())
	}
	s := ""
	if n.kind == "obs" || n.kind == "json" || n.kind == "inc" {
		s = n.en.String()
	}
	return fmt.Sprintf("%s#%d%s(%s)", n.kind, n.id, s, strings.Join(ks, ","))
}

type cntObj struct{ n *int }

func (c cntObj) MarshalLogObject(enc zapcore.ObjectEncoder) error {
	*c.n++
	enc.AddInt("x", 1)
	return nil
}

type c05Logger struct {
	root *c05Node
	lg   *zap.Logger
	desc string
}

var c05Levels = []int8{-128, -3, -2, -1, 0, 1, 2, 3, 4, 5, 6, 7, 8, 100, 127}

func propC05(t *rapid.T) {
	atomics := []*zap.AtomicLevel{}
	for i := 0; i < 2; i++ {
		al := zap.NewAtomicLevelAt(zapcore.Level(rapid.IntRange(-2, 6).Draw(t, "atomicInit")))
		atomics = append(atomics, &al)
	}
	b := &c05Builder{t: t, atomics: atomics}
	root := b.gen(rapid.IntRange(0, 4).Draw(t, "depth"))
	core := root.build(t)
	term := new(int64)
	eout := &memSink{}
	base := zap.New(core, zap.WithFatalHook(countHook{term}), zap.WithPanicHook(countHook{term}), zap.ErrorOutput(eout))
	loggers := []*c05Logger{{root, base, "base"}}
	var history []string
	history = append(history, "tree="+root.String())
	atomicChanged, teeSplit, hookBehindTee := false, false, false
	lastWasLog := false
	nLogs := 0

	checkLevels := func(lgr *c05Logger) {
		c := lgr.lg.Core()
		leastIn, leastAll := zapcore.InvalidLevel, zapcore.Level(127)
		anyAll := false
		for l := 127; l >= -128; l-- {
			lv := zapcore.Level(int8(l))
			want := lgr.root.enabled(lv)
			if got := c.Enabled(lv); got != want {
				t.Fatalf("Enabled(%d)=%v, model says %v\nlogger %s\nhistory: %s", l, got, want, lgr.desc, strings.Join(history, " ; "))
			}
			if want {
				leastAll, anyAll = lv, true
				if lv >= zapcore.DebugLevel && lv <= zapcore.FatalLevel {
					leastIn = lv
				}
			}
		}
		_, _ = leastAll, anyAll
		// The reported minimum is the least in-range enabled level (InvalidLevel
		// if none). A threshold enabler may instead report its own threshold when
		// that lies outside the range — accepted only if that level is indeed
		// enabled and does not hide an enabled in-range level above Fatal.
		ok := func(got zapcore.Level) bool {
			if got == leastIn {
				return true
			}
			outOfRange := got < zapcore.DebugLevel || got > zapcore.FatalLevel
			return outOfRange && lgr.root.enabled(got) && (got < zapcore.DebugLevel || leastIn == zapcore.InvalidLevel)
		}
		if got := lgr.lg.Level(); !ok(got) {
			t.Fatalf("Logger.Level()=%d, want the least enabled level %d\nlogger %s\nhistory: %s", got, leastIn, lgr.desc, strings.Join(history, " ; "))
		}
		// a tee enables whatever any branch enables: its reported minimum is never above a branch's
		lgr.root.walk(func(n *c05Node) {
			if n.kind != "tee" || n.core == nil {
				return
			}
			lt := zapcore.LevelOf(n.core)
			for _, k := range n.kids {
				if k.core == nil {
					continue
				}
				if lk := zapcore.LevelOf(k.core); lk < zapcore.InvalidLevel && (lt >= zapcore.InvalidLevel || lt > lk) {
					t.Fatalf("LevelOf(tee #%d)=%d although its branch #%d reports %d (a tee enables every level one of its branches enables)\nhistory: %s", n.id, lt, k.id, lk, strings.Join(history, " ; "))
				}
			}
		})
		if got := zapcore.LevelOf(c); !ok(got) {
			t.Fatalf("LevelOf(core)=%d, want the least enabled level %d\nhistory: %s", got, leastIn, strings.Join(history, " ; "))
		}
		g := zapgrpc.NewLogger(lgr.lg)
		for k, zl := range map[int]zapcore.Level{0: zapcore.InfoLevel, 1: zapcore.WarnLevel, 2: zapcore.ErrorLevel, 3: zapcore.FatalLevel} {
			if got := g.V(k); got != lgr.root.enabled(zl) {
				t.Fatalf("zapgrpc V(%d)=%v, model Enabled(%v)=%v\nhistory: %s", k, got, zl, lgr.root.enabled(zl), strings.Join(history, " ; "))
			}
		}
		h := zapslog.NewHandler(c)
		for sl, zl := range map[slog.Level]zapcore.Level{slog.LevelDebug: zapcore.DebugLevel, slog.LevelInfo: zapcore.InfoLevel, slog.LevelWarn: zapcore.WarnLevel, slog.LevelError: zapcore.ErrorLevel} {
			if got := h.Enabled(context.Background(), sl); got != lgr.root.enabled(zl) {
				t.Fatalf("slog handler Enabled(%v)=%v, model Enabled(%v)=%v", sl, got, zl, lgr.root.enabled(zl))
			}
		}
	}

	logOnce := func(lgr *c05Logger) {
		lv := zapcore.Level(rapid.OneOf(rapid.Int8Range(-2, 6), rapid.SampledFrom(c05Levels), rapid.Int8()).Draw(t, "level"))
		fronts := []string{"log", "check", "sugarLogw", "sugarLog", "sugarLogf", "sugarLogln", "zapio"}
		if lv >= zapcore.DebugLevel && lv <= zapcore.FatalLevel {
			fronts = append(fronts, "method", "method", "stdlog", "sugarMethodw")
		}
		if lv >= zapcore.InfoLevel && lv <= zapcore.ErrorLevel {
			fronts = append(fronts, "grpc")
		}
		if lv >= zapcore.DebugLevel && lv <= zapcore.ErrorLevel {
			fronts = append(fronts, "slog")
		}
		front := rapid.SampledFrom(fronts).Draw(t, "frontEnd")
		nLogs++
		msg := fmt.Sprintf("m%d", nLogs)
		wl, wh, ws := map[int]int{}, map[int]int{}, map[int]int{}
		// every front end applies the cheap level pre-check below DPanic
		reachedRoot := lv >= zapcore.DPanicLevel || lgr.root.enabled(lv)
		delivered := lgr.root.deliver(lv, reachedRoot, wl, wh, ws)
		// classification
		lgr.root.walk(func(n *c05Node) {
			if n.kind == "tee" && len(n.kids) >= 2 {
				on, off := 0, 0
				for _, k := range n.kids {
					if k.deliver(lv, true, map[int]int{}, map[int]int{}, map[int]int{}) > 0 {
						on++
					} else {
						off++
					}
					k.walk(func(m *c05Node) {
						if m.kind == "hook" {
							hookBehindTee = true
						}
					})
				}
				if on > 0 && off > 0 {
					teeSplit = true
				}
			}
		})
		before := map[int]int{}
		lgr.root.walk(func(n *c05Node) {
			switch {
			case n.logs != nil:
				before[n.id] = n.logs.Len()
			case n.sink != nil:
				before[n.id] = len(n.sink.writes)
			case n.hookN != nil:
				before[n.id] = *n.hookN
			case n.sampN != nil:
				before[n.id] = *n.sampN
			}
		})
		marsh := 0
		obj := cntObj{&marsh}
		hasField := true
		lg := lgr.lg
		switch front {
		case "log":
			lg.Log(lv, msg, zap.Object("o", obj))
		case "check":
			if ce := lg.Check(lv, msg); ce != nil {
				ce.Write(zap.Object("o", obj))
			} else if delivered > 0 {
				t.Fatalf("Check(%d) returned nil although %d destinations enable the level\nhistory: %s", lv, delivered, strings.Join(history, " ; "))
			}
		case "method":
			f := zap.Object("o", obj)
			switch lv {
			case zapcore.DebugLevel:
				lg.Debug(msg, f)
			case zapcore.InfoLevel:
				lg.Info(msg, f)
			case zapcore.WarnLevel:
				lg.Warn(msg, f)
			case zapcore.ErrorLevel:
				lg.Error(msg, f)
			case zapcore.DPanicLevel:
				lg.DPanic(msg, f)
			case zapcore.PanicLevel:
				lg.Panic(msg, f)
			case zapcore.FatalLevel:
				lg.Fatal(msg, f)
			}
		case "stdlog":
			std, err := zap.NewStdLogAt(lg, lv)
			if err != nil {
				t.Fatalf("NewStdLogAt(%v): %v", lv, err)
			}
			std.Print(msg)
			hasField = false
		case "zapio":
			w := &zapio.Writer{Log: lg, Level: lv}
			if n, err := w.Write([]byte(msg + "\n")); n != len(msg)+1 || err != nil {
				t.Fatalf("zapio.Writer.Write = %d, %v", n, err)
			}
			hasField = false
		case "sugarMethodw":
			sg := lg.Sugar()
			[]func(string, ...any){sg.Debugw, sg.Infow, sg.Warnw, sg.Errorw, sg.DPanicw, sg.Panicw, sg.Fatalw}[lv+1](msg, "o", obj)
		case "sugarLogw":
			lg.Sugar().Logw(lv, msg, "o", obj)
		case "sugarLog":
			lg.Sugar().Log(lv, msg)
			hasField = false
		case "sugarLogf":
			lg.Sugar().Logf(lv, "%s", msg)
			hasField = false
		case "sugarLogln":
			lg.Sugar().Logln(lv, msg)
			hasField = false
		case "grpc":
			g := zapgrpc.NewLogger(lg)
			switch lv {
			case zapcore.InfoLevel:
				g.Info(msg)
			case zapcore.WarnLevel:
				g.Warningf("%s", msg)
			case zapcore.ErrorLevel:
				g.Errorln(msg)
			}
			hasField = false
		case "slog":
			// any slog level of the class that maps to lv: slog's scale has room between and beyond the named
			// levels (Debug+1 ... Info-1 are still debug records, Error+4 is an error record)
			sl := map[zapcore.Level]slog.Level{zapcore.DebugLevel: slog.LevelDebug, zapcore.InfoLevel: slog.LevelInfo, zapcore.WarnLevel: slog.LevelWarn, zapcore.ErrorLevel: slog.LevelError}[lv]
			switch lv {
			case zapcore.DebugLevel:
				sl += slog.Level(rapid.IntRange(-4, 3).Draw(t, "slogOffset"))
			case zapcore.ErrorLevel:
				sl += slog.Level(rapid.IntRange(0, 12).Draw(t, "slogOffset"))
			default:
				sl += slog.Level(rapid.IntRange(0, 3).Draw(t, "slogOffset"))
			}
			if c18ZapLevel(sl) != lv {
				t.Fatalf("harness: slog level %d is not of the class of zap level %v", sl, lv)
			}
			slog.New(zapslog.NewHandler(lg.Core())).Log(context.Background(), sl, msg, "o", 1)
			hasField = false
		}
		history = append(history, fmt.Sprintf("log(%s,%s,L%d)", lgr.desc, front, int8(lv)))
		fail := func(f string, a ...any) {
			t.Fatalf("%s\nlevel %d via %s through logger %s\nhistory: %s", fmt.Sprintf(f, a...), int8(lv), front, lgr.desc, strings.Join(history, " ; "))
		}
		jsonDelivered := 0
		lgr.root.walk(func(n *c05Node) {
			switch {
			case n.logs != nil:
				got := n.logs.Len() - before[n.id]
				if got != wl[n.id] {
					fail("observer leaf #%d received %d entries, model says %d", n.id, got, wl[n.id])
				}
				if got > 0 {
					es := n.logs.All()
					e := es[len(es)-1]
					if e.Message != msg || e.Level != lv {
						fail("observer leaf #%d got entry %q at level %d, want %q at %d", n.id, e.Message, e.Level, msg, lv)
					}
				}
			case n.sink != nil:
				got := len(n.sink.writes) - before[n.id]
				if got != wl[n.id] {
					fail("JSON leaf #%d sink received %d writes, model says %d (no sink activity for undelivered entries)", n.id, got, wl[n.id])
				}
				jsonDelivered += got
				if got > 0 {
					line := string(n.sink.writes[len(n.sink.writes)-1])
					if !strings.Contains(line, fmt.Sprintf("%q", msg)) {
						fail("JSON leaf #%d line %q lacks message %q", n.id, line, msg)
					}
				}
			case n.hookN != nil:
				if got := *n.hookN - before[n.id]; got != wh[n.id] {
					fail("hook #%d fired %d times, model says %d (exactly once per entry its wrapped core accepts, never otherwise)", n.id, got, wh[n.id])
				}
			case n.sampN != nil:
				if got := *n.sampN - before[n.id]; got != ws[n.id] {
					fail("sampler #%d reported %d sampling decisions, model says %d (a disabled entry causes no hook call and consumes no budget)", n.id, got, ws[n.id])
				}
			}
		})
		if hasField {
			if marsh != jsonDelivered {
				fail("call-site object was marshaled %d times, want once per JSON destination that received the entry (%d)", marsh, jsonDelivered)
			}
		}
		if delivered == 0 && marsh != 0 {
			fail("disabled entry caused field marshaling (%d)", marsh)
		}
		if !lgr.root.enabled(lv) && delivered != 0 {
			fail("internal: model delivers a level it does not enable")
		}
		lastWasLog = true
	}

	t.Repeat(map[string]func(*rapid.T){
		"log": func(*rapid.T) {
			logOnce(loggers[rapid.IntRange(0, len(loggers)-1).Draw(t, "logger")])
		},
		"log2": func(*rapid.T) {
			logOnce(loggers[rapid.IntRange(0, len(loggers)-1).Draw(t, "logger")])
		},
		"setLevel": func(*rapid.T) {
			al := atomics[rapid.IntRange(0, len(atomics)-1).Draw(t, "atomic")]
			nl := zapcore.Level(rapid.OneOf(rapid.Int8Range(-2, 6), rapid.Int8()).Draw(t, "newLevel"))
			// the routes by which a shared threshold is changed in practice: SetLevel, or text decoding INTO the
			// handle in use (encoding.TextUnmarshaler as driven by encoding/json, yaml, flag.TextVar), directly or
			// through a copy of the handle; all of them must reach every core built on the level earlier
			route := "SetLevel"
			if nl >= zapcore.DebugLevel && nl <= zapcore.FatalLevel {
				route = rapid.SampledFrom([]string{"SetLevel", "UnmarshalText", "copy.UnmarshalText", "json.Unmarshal", "json.Unmarshal(struct)"}).Draw(t, "setRoute")
			}
			var rerr error
			switch route {
			case "SetLevel":
				al.SetLevel(nl)
			case "UnmarshalText":
				rerr = al.UnmarshalText([]byte(nl.String()))
			case "copy.UnmarshalText":
				cp := *al
				rerr = cp.UnmarshalText([]byte(strings.ToUpper(nl.String())))
			case "json.Unmarshal":
				rerr = json.Unmarshal([]byte(`"`+nl.String()+`"`), al)
			case "json.Unmarshal(struct)":
				holder := struct{ Level zap.AtomicLevel }{Level: *al}
				rerr = json.Unmarshal([]byte(`{"Level":"`+nl.String()+`"}`), &holder)
			}
			if rerr != nil {
				t.Fatalf("changing a shared AtomicLevel to %v by %s failed: %v", nl, route, rerr)
			}
			if got := al.Level(); got != nl {
				t.Fatalf("after changing a shared AtomicLevel to %v by %s the handle the loggers were built from reports %v", nl, route, got)
			}
			history = append(history, fmt.Sprintf("setLevel(%d by %s)", int8(nl), route))
			if lastWasLog {
				atomicChanged = true
			}
		},
		"derive": func(*rapid.T) {
			p := loggers[rapid.IntRange(0, len(loggers)-1).Draw(t, "parent")]
			c := &c05Logger{root: p.root}
			op := rapid.SampledFrom([]string{"with", "named", "lazy", "increase", "hooks"}).Draw(t, "deriveOp")
			// an option may just as well be applied on the sugared side of a Sugar/Desugar round trip (twice over)
			withOpts := func(l *zap.Logger, o zap.Option) *zap.Logger { return l.WithOptions(o) }
			switch rapid.IntRange(0, 3).Draw(t, "optionRoute") {
			case 0:
				withOpts = func(l *zap.Logger, o zap.Option) *zap.Logger { return l.Sugar().WithOptions(o).Desugar() }
				op = "sugared-" + op
			case 1:
				withOpts = func(l *zap.Logger, o zap.Option) *zap.Logger {
					return l.Sugar().Desugar().Sugar().WithOptions(o).Named("").Desugar()
				}
				op = "roundtrip-" + op
			}
			switch strings.TrimPrefix(strings.TrimPrefix(op, "sugared-"), "roundtrip-") {
			case "with":
				c.lg = p.lg.With(zap.Int("w", len(loggers)))
			case "named":
				c.lg = p.lg.Named("n")
			case "lazy":
				c.lg = p.lg.WithLazy(zap.Int("lz", len(loggers)))
			case "hooks":
				b.next++
				hn := &c05Node{id: b.next, kind: "hook", kids: []*c05Node{p.root}, hookN: new(int)}
				cnt := hn.hookN
				c.lg = withOpts(p.lg, zap.Hooks(func(zapcore.Entry) error { *cnt++; return nil }))
				c.root = hn
			case "increase":
				en := genC05Enab(t, atomics)
				wantErr := false
				for l := zapcore.DebugLevel; l <= zapcore.FatalLevel; l++ {
					if en.on(l) && !p.root.enabled(l) {
						wantErr = true
					}
				}
				e0 := len(eout.writes)
				c.lg = withOpts(p.lg, zap.IncreaseLevel(en.enabler()))
				reported := len(eout.writes) > e0
				if reported != wantErr {
					t.Fatalf("IncreaseLevel(%s) on %s: failure reported=%v, want %v", en, p.root, reported, wantErr)
				}
				if !wantErr {
					b.next++
					c.root = &c05Node{id: b.next, kind: "inc", en: en, kids: []*c05Node{p.root}}
				}
				op += en.String()
			}
			c.desc = fmt.Sprintf("L%d=%s(%s)", len(loggers), op, p.desc)
			history = append(history, c.desc)
			loggers = append(loggers, c)
		},
		"readLevels": func(*rapid.T) {
			checkLevels(loggers[rapid.IntRange(0, len(loggers)-1).Draw(t, "logger")])
		},
	})
	for _, l := range loggers {
		checkLevels(l)
	}
	nt := root.depth() >= 2 && (teeSplit || hookBehindTee) || atomicChanged
	var labels []string
	if teeSplit {
		labels = append(labels, "tee with branches of different enablement")
	}
	if hookBehindTee {
		labels = append(labels, "hook behind a tee")
	}
	if atomicChanged {
		labels = append(labels, "AtomicLevel change between two logs")
	}
	if len(loggers) > 1 {
		labels = append(labels, "derived loggers")
	}
	shape := root.shape()
	statCase("C05", nt, fmt.Sprintf("%s|loggers%d|split%v hook%v atom%v", shape, len(loggers), teeSplit, hookBehindTee, atomicChanged), labels...)
	if nt {
		statSample("C05", func() string { return strings.Join(history, " ; ") })
	}
}

func (n *c05Node) shape() string {
	var ks []string
	for _, k := range n.kids {
		ks = append(ks, k.shape())
	}
	e := ""
	if n.en.al != nil {
		e = "A"
	} else if n.en.set != nil {
		e = "S"
	}
	return n.kind[:1] + e + "(" + strings.Join(ks, "") + ")"
}

func TestC05Levels(t *testing.T) { rapid.Check(t, propC05) }

func TestRegressC05(t *testing.T) {
	// F5: a hook must not fire when its wrapped core declined the entry, even
	// inside a tee whose other branch accepted it.
	a, alogs := observer.New(zapcore.DebugLevel)
	bcore, blogs := observer.New(zapcore.ErrorLevel)
	fired := 0
	core := zapcore.NewTee(a, zapcore.RegisterHooks(bcore, func(zapcore.Entry) error { fired++; return nil }))
	lg := zap.New(core)
	lg.Info("info")
	if fired != 0 || alogs.Len() != 1 || blogs.Len() != 0 {
		t.Fatalf("hook fired %d times for a declined entry (a=%d b=%d)", fired, alogs.Len(), blogs.Len())
	}
	lg.Error("err")
	if fired != 1 {
		t.Fatalf("hook fired %d times for an accepted entry", fired)
	}
	// F6: LevelOf a tee that enables nothing
	if got := zapcore.LevelOf(zapcore.NewTee(zapcore.NewNopCore(), zapcore.NewNopCore())); got != zapcore.InvalidLevel {
		t.Fatalf("LevelOf(tee(nop,nop)) = %v", got)
	}
	// increase-level only narrows
	al := zap.NewAtomicLevelAt(zapcore.WarnLevel)
	base, logs := observer.New(al)
	if _, err := zapcore.NewIncreaseLevelCore(base, zapcore.InfoLevel); err == nil {
		t.Fatalf("IncreaseLevelCore accepted a decrease")
	}
	inc, err := zapcore.NewIncreaseLevelCore(base, zapcore.ErrorLevel)
	if err != nil {
		t.Fatal(err)
	}
	l2 := zap.New(inc)
	l2.Warn("w")
	l2.Error("e")
	al.SetLevel(zapcore.FatalLevel)
	l2.Error("e2")
	if logs.Len() != 1 {
		t.Fatalf("got %d entries, want 1", logs.Len())
	}
}
