package props

// C02 — JSON output decodes to exactly the logged values, in order, at the right nesting.

import (
	"encoding/base64"
	"fmt"
	"math"
	"testing"
	"time"

	"go.uber.org/zap"
	"go.uber.org/zap/zapcore"
	"pgregory.net/rapid"
)

var c02CfgOpts = cfgOpts{builtinOnly: true, timeNeedsEncoder: true}

func (c *c01Case) expectedTree() *objX {
	o := newObjX()
	c.cs.expectMetaJSON(c.ent, o)
	for _, round := range c.ctx {
		for _, s := range round {
			s.ExpectField(o)
		}
	}
	for _, s := range c.site {
		s.ExpectField(o)
	}
	c.cs.expectStackJSON(c.ent, o)
	return o
}

func hasUnencodableReflect(tr *specTraits, lists ...[]*Spec) bool {
	var walk func(s *Spec) bool
	walk = func(s *Spec) bool {
		if s.Kind == "reflect" {
			if _, txt := refJSON(s.V); txt != "" {
				return true
			}
		}
		for _, k := range s.Kids {
			if walk(k) {
				return true
			}
		}
		return false
	}
	for _, l := range lists {
		for _, s := range l {
			if walk(s) {
				return true
			}
		}
	}
	return false
}

// cmpMap compares the expected tree with what zapcore.MapObjectEncoder
// recorded for the same fields: same nesting and keys (last wins on
// duplicates) and typed values equal to the Spec's.
func cmpMap(path string, want *xnode, got any) string {
	bad := func(f string, a ...any) string { return path + ": " + fmt.Sprintf(f, a...) }
	switch want.kind {
	case "obj":
		m, ok := got.(map[string]interface{})
		if !ok {
			return bad("map encoder has %T, want a nested map", got)
		}
		last := map[string]*xnode{}
		for _, kv := range want.kids {
			last[kv.k] = kv.v
		}
		if len(last) != len(m) {
			return bad("map encoder has %d keys, want %d distinct keys", len(m), len(last))
		}
		for k, v := range last {
			g, ok := m[k]
			if !ok {
				return bad("map encoder lacks key %q", k)
			}
			if e := cmpMap(path+"."+k, v, g); e != "" {
				return e
			}
		}
	case "arr":
		var n int
		var at func(i int) any
		switch a := got.(type) {
		case []interface{}:
			n, at = len(a), func(i int) any { return a[i] }
		default:
			return bad("map encoder has %T, want a slice", got)
		}
		if n != len(want.els) {
			return bad("map encoder array has %d elements, want %d", n, len(want.els))
		}
		for i, w := range want.els {
			if e := cmpMap(fmt.Sprintf("%s[%d]", path, i), w, at(i)); e != "" {
				return e
			}
		}
	case "str":
		switch g := got.(type) {
		case string:
			if uni(g) != want.s {
				return bad("map encoder string %q, want %q", clipS(g), clipS(want.s))
			}
		case []byte:
			if base64.StdEncoding.EncodeToString(g) != want.s {
				return bad("map encoder binary differs")
			}
		default:
			return bad("map encoder has %T, want string", got)
		}
	case "int":
		switch got.(type) {
		case int, int8, int16, int32, int64, uint, uint8, uint16, uint32, uint64, uintptr:
			if fmt.Sprint(got) != want.s {
				return bad("map encoder integer %v, want %s", got, want.s)
			}
		default:
			return bad("map encoder has %T, want an integer", got)
		}
	case "bool":
		if b, ok := got.(bool); !ok || fmt.Sprint(b) != want.s {
			return bad("map encoder has %v, want bool %s", got, want.s)
		}
	case "null":
		if got != nil {
			return bad("map encoder has %v, want nil", got)
		}
	case "f64":
		if f, ok := got.(float64); !ok || math.Float64bits(f) != math.Float64bits(want.f) {
			return bad("map encoder has %v (%T), want float64 %v bit-for-bit", got, got, want.f)
		}
	case "f32":
		// the expectation keeps the value widened to float64, which quiets a signalling NaN:
		// compare with the original float32 when it is known, and otherwise treat NaNs as a class
		wantBits := math.Float32bits(float32(want.f))
		if r, isF32 := want.raw.(float32); isF32 {
			wantBits = math.Float32bits(r)
		}
		if f, ok := got.(float32); !ok || (math.Float32bits(f) != wantBits && !(f != f && want.f != want.f && want.raw == nil)) {
			return bad("map encoder has %v (%T), want float32 %v bit-for-bit", got, got, want.f)
		}
	case "c128":
		if c, ok := got.(complex128); !ok || !sameBits(real(c), real(want.c)) || !sameBits(imag(c), imag(want.c)) {
			return bad("map encoder has %v (%T), want complex128 %v", got, got, want.c)
		}
	case "c64":
		c, ok := got.(complex64)
		if !ok || math.Float32bits(real(c)) != math.Float32bits(float32(real(want.c))) || math.Float32bits(imag(c)) != math.Float32bits(float32(imag(want.c))) {
			return bad("map encoder has %v (%T), want complex64 %v", got, got, want.c)
		}
	case "dur":
		if d, ok := got.(time.Duration); !ok || d != want.d {
			return bad("map encoder has %v (%T), want duration %v", got, got, want.d)
		}
	case "time":
		tm, ok := got.(time.Time)
		if !ok || !tm.Equal(want.t) {
			return bad("map encoder has %v (%T), want time %v", got, got, want.t)
		}
		_, o1 := tm.Zone()
		_, o2 := want.t.Zone()
		if o1 != o2 {
			return bad("map encoder time has zone offset %d, want %d", o1, o2)
		}
	case "raw":
		js, txt := refJSON(got)
		if txt != "" || js != want.s {
			return bad("map encoder reflected value encodes as %q, want %q", js, want.s)
		}
	case "anystr":
		if _, ok := got.(string); !ok {
			return bad("map encoder has %T, want string", got)
		}
	}
	return ""
}

func sameBits(a, b float64) bool { return math.Float64bits(a) == math.Float64bits(b) }

func propC02Tree(t *rapid.T) {
	c := genC01Case(t, c02CfgOpts, specOpts{faults: true, viaAny: true}, 3)
	out, err, p := c.encodeDirect()
	if p != nil || err != nil {
		t.Fatalf("EncodeEntry failed: panic=%v err=%v\ncase: %s", p, err, c.render())
	}
	why, got := checkJSONLine(out, c.cs.lineEnding())
	if why != "" {
		t.Fatalf("%s\noutput: %q\ncase: %s", why, clipS(string(out)), c.render())
	}
	want := c.expectedTree()
	if e := cmpTree("$", want.root, got, c.cs); e != "" {
		t.Fatalf("decoded line differs from the reference encoding: %s\n line: %s\n want: %s\ncase: %s", e, clipS(string(out)), clipS(renderX(want.root)), c.render())
	}
	// (b) the in-memory map encoder must record the same nesting/keys/values.
	all := append([][]*Spec{c.site}, c.ctx...)
	labels := []string{}
	if !hasUnencodableReflect(nil, all...) {
		menc := zapcore.NewMapObjectEncoder()
		fo := newObjX()
		for _, round := range c.ctx {
			for _, s := range round {
				s.Field().AddTo(menc)
				s.ExpectField(fo)
			}
		}
		for _, s := range c.site {
			s.Field().AddTo(menc)
			s.ExpectField(fo)
		}
		if e := cmpMap("$", fo.root, menc.Fields); e != "" {
			t.Fatalf("MapObjectEncoder disagrees with the reference: %s\n want: %s\ncase: %s", e, clipS(renderX(fo.root)), c.render())
		}
		labels = append(labels, "map encoder compared")
	} else {
		labels = append(labels, "map encoder skipped (unencodable reflected value)")
	}
	_, sig, l2, tr := c.classify()
	nt := tr.extreme || tr.badUTF8 || tr.maxDepth >= 2 || tr.nsNested
	if tr.extreme {
		labels = append(labels, "extreme numeric")
	}
	statCase("C02", nt, "tree|"+sig, append(labels, l2...)...)
	if nt {
		statSample("C02", func() string { return c.render() + " => " + string(out) })
	}
}

// propC02Scalar: one scalar field at a time over its full range (cheap, so the
// numeric formatting gets hundreds of thousands of values).
func propC02Scalar(t *rapid.T) {
	cs := genCfgSpec(t, c02CfgOpts)
	kind := rapid.SampledFrom(append([]string{"bin", "slice"}, scalarKinds...)).Draw(t, "kind")
	n := rapid.IntRange(1, 4).Draw(t, "n")
	var specs []*Spec
	for i := 0; i < n; i++ {
		s := &Spec{Kind: kind, Key: genKey().Draw(t, "key")}
		switch kind {
		case "str":
			s.V = genStr().Draw(t, "v")
		case "bstr", "bin":
			s.V = []byte(genStr().Draw(t, "v"))
		case "bool":
			s.V = rapid.Bool().Draw(t, "v")
		case "i64":
			s.V = genInt64().Draw(t, "v")
		case "i32":
			s.V = rapid.Int32().Draw(t, "v")
		case "i16":
			s.V = rapid.Int16().Draw(t, "v")
		case "i8":
			s.V = rapid.Int8().Draw(t, "v")
		case "int":
			s.V = rapid.Int().Draw(t, "v")
		case "u64":
			s.V = genUint64().Draw(t, "v")
		case "u32":
			s.V = rapid.Uint32().Draw(t, "v")
		case "u16":
			s.V = rapid.Uint16().Draw(t, "v")
		case "u8":
			s.V = rapid.Uint8().Draw(t, "v")
		case "uint":
			s.V = rapid.Uint().Draw(t, "v")
		case "uptr":
			s.V = rapid.Uintptr().Draw(t, "v")
		case "f64":
			s.V = genFloat().Draw(t, "v")
		case "f32":
			s.V = genFloat32().Draw(t, "v")
		case "c128":
			s.V = genComplex().Draw(t, "v")
		case "c64":
			s.V = complex64(genComplex().Draw(t, "v"))
		case "dur":
			s.V = genDuration().Draw(t, "v")
		case "time":
			s.V = genTime().Draw(t, "v")
		case "slice":
			s.V = genSliceValue(t)
		}
		if kind != "bstr" && kind != "bin" && kind != "slice" {
			s.Ptr = rapid.IntRange(0, 4).Draw(t, "ptr") == 0
		}
		if s.anyCapable() {
			s.ViaAny = rapid.IntRange(0, 3).Draw(t, "any") == 0
		}
		specs = append(specs, s)
	}
	c := &c01Case{cs: cs, site: specs, ent: zapcore.Entry{Message: "m"}}
	out, err, p := c.encodeDirect()
	if p != nil || err != nil {
		t.Fatalf("EncodeEntry failed: panic=%v err=%v\ncase: %s", p, err, c.render())
	}
	why, got := checkJSONLine(out, cs.lineEnding())
	if why != "" {
		t.Fatalf("%s\noutput: %q\ncase: %s", why, clipS(string(out)), c.render())
	}
	if e := cmpTree("$", c.expectedTree().root, got, cs); e != "" {
		t.Fatalf("decoded line differs from the reference encoding: %s\n line: %s\ncase: %s", e, clipS(string(out)), c.render())
	}
	tr := traitsOf(specs)
	nt := tr.extreme || tr.badUTF8 || kind == "time" || kind == "dur" || kind == "c128" || kind == "c64" || kind == "f32"
	statCase("C02", nt, fmt.Sprintf("scalar|%s|%s|%s|%v|%v", kind, cs.timeEnc, cs.durEnc, specs[0].Ptr, specs[0].ViaAny), "scalar "+kind)
}

func TestC02Tree(t *testing.T)   { rapid.Check(t, propC02Tree) }
func TestC02Scalar(t *testing.T) { rapid.Check(t, propC02Scalar) }

func TestRegressC02(t *testing.T) {
	c02MapEncoderAfterPanic(t)
	c02UserReflectedEncoderSeesEveryValue(t)
	enc := func(fs ...zapcore.Field) string {
		buf, err := zapcore.NewJSONEncoder(zapcore.EncoderConfig{}).EncodeEntry(zapcore.Entry{}, fs)
		if err != nil {
			t.Fatal(err)
		}
		return buf.String()
	}
	cases := []struct{ got, want string }{
		// F3: sign of the imaginary part
		{enc(zap.Complex128("k", complex(1, math.Copysign(0, -1)))), `{"k":"1-0i"}` + "\n"},
		{enc(zap.Complex128("k", complex(1, math.Inf(1)))), `{"k":"1+Infi"}` + "\n"},
		{enc(zap.Complex128("k", complex(1, math.NaN()))), `{"k":"1+NaNi"}` + "\n"},
		{enc(zap.Complex128("k", complex(1, 2))), `{"k":"1+2i"}` + "\n"},
		{enc(zap.Complex64("k", complex(1, -2))), `{"k":"1-2i"}` + "\n"},
		{enc(zap.Uint64("k", math.MaxUint64)), `{"k":18446744073709551615}` + "\n"},
		{enc(zap.Float32("k", 0.1)), `{"k":0.1}` + "\n"},
		{enc(zap.Float64("k", math.Inf(-1))), `{"k":"-Inf"}` + "\n"},
		{enc(zap.String("k", "a\xffb")), `{"k":"a\ufffdb"}` + "\n"},
		{enc(zap.Binary("k", []byte{0xff, 0xfe})), `{"k":"//4="}` + "\n"},
	}
	for i, c := range cases {
		if c.got != c.want {
			t.Fatalf("case %d: got %q want %q", i, c.got, c.want)
		}
	}
	// harness regression (false alarm of the thorough tier, corrected): a float32
	// signalling NaN must compare bit-for-bit with itself through the map-encoder oracle
	for _, bits := range []uint32{0x7f800001, 0xffa00000, 0x7fc00000, 0x7fbfffff} {
		for _, ptr := range []bool{false, true} {
			sp := &Spec{Kind: "f32", Key: "a", V: math.Float32frombits(bits), ViaAny: true, Ptr: ptr}
			menc := zapcore.NewMapObjectEncoder()
			fo := newObjX()
			sp.Field().AddTo(menc)
			sp.ExpectField(fo)
			if e := cmpMap("$", fo.root, menc.Fields); e != "" {
				t.Fatalf("float32 NaN %08x: %s", bits, e)
			}
		}
	}
}
