package props

// C08 — output is independent of logging history and of pooled-object reuse.

import (
	"bytes"
	"errors"
	"fmt"
	"io"
	"math"
	"os"
	"runtime"
	"strings"
	"sync"
	"sync/atomic"
	"testing"
	"time"

	"go.uber.org/zap"
	"go.uber.org/zap/internal/bufferpool"
	"go.uber.org/zap/zapcore"
	"pgregory.net/rapid"
)

type countHook struct{ n *int64 }

func (h countHook) OnWrite(*zapcore.CheckedEntry, []zapcore.Field) { atomic.AddInt64(h.n, 1) }

// seenHook is a terminal hook that also records which entry it was handed.
type seenHook struct {
	n    *int64
	seen *[]string
}

var c08Audit = zap.New(zapcore.NewCore(zapcore.NewJSONEncoder(zapcore.EncoderConfig{MessageKey: "m"}), zapcore.AddSync(io.Discard), zapcore.DebugLevel))

func (h seenHook) OnWrite(ce *zapcore.CheckedEntry, fs []zapcore.Field) {
	atomic.AddInt64(h.n, 1)
	// a hook may itself log (an audit line) before it looks at its entry
	c08Audit.Info("terminal hook invoked", zap.Int("fields", len(fs)))
	*h.seen = append(*h.seen, fmt.Sprintf("%v|%s|%d", ce.Level, ce.Message, len(fs)))
}

// c08PanicObj panics while it is being marshaled.
type c08PanicObj struct{}

func (c08PanicObj) MarshalLogObject(enc zapcore.ObjectEncoder) error {
	enc.AddString("partial", "x")
	panic("marshaler panics")
}
func (c08PanicObj) MarshalLogArray(enc zapcore.ArrayEncoder) error {
	enc.AppendString("partial")
	panic("marshaler panics")
}

// failSink fails every Write (and Sync).
type failSink struct{}

func (failSink) Write(p []byte) (int, error) { return 0, fmt.Errorf("sink down") }
func (failSink) Sync() error                 { return fmt.Errorf("sink down") }

//go:noinline
func deepCall(n int, f func()) {
	if n <= 0 {
		f()
		return
	}
	deepCall(n-1, f)
}

const c08Poison = "\x01POISON\x02SENTINEL\x03"

// c08Probe is the observed call P: a fixed logger, entry and field list.
type c08Probe struct {
	c           *c01Case
	console     bool
	caller      bool
	sink        *memSink
	lg          *zap.Logger
	hooks       *int64
	ehooks      *int64
	level       zapcore.Level
	depth       int
	late        []*Spec // context added by a With issued as part of every probe call
	seen        []string
	outstanding bool        // P is issued as Check ... Write with another Check in between
	skip        int         // AddCallerSkip of the probe's logger (the probe is issued from deep enough a stack)
	cur         *zap.Logger // the logger P is being logged through right now
	nestedOn    bool        // P's level/time/name encoder logs ANOTHER entry through that logger before doing its work
	inNested    bool
	nestedCount int
	lastWrites  [][]byte // the sink writes of the last observe
	errOut      *memSink // the probe logger's error output
}

// c08FailCore is a core used without any logger (Check adds it to a nil CheckedEntry, as the slog handler does) whose
// Write fails.
type c08FailCore struct{}

func (c08FailCore) Enabled(zapcore.Level) bool          { return true }
func (c c08FailCore) With([]zapcore.Field) zapcore.Core { return c }
func (c c08FailCore) Check(e zapcore.Entry, ce *zapcore.CheckedEntry) *zapcore.CheckedEntry {
	return ce.AddCore(e, c)
}
func (c08FailCore) Write(zapcore.Entry, []zapcore.Field) error {
	return errors.New("bare core write failed")
}
func (c08FailCore) Sync() error { return nil }

// nest is what the wrapped encoder callbacks of the probe do first.
func (p *c08Probe) nest() {
	if !p.nestedOn || p.inNested || p.cur == nil {
		return
	}
	p.inNested = true
	defer func() { p.inNested = false }()
	p.nestedCount++
	p.cur.Info("nested entry, logged while the header of P is being encoded", zap.Int("nested", p.nestedCount))
}

func newC08Probe(t *rapid.T) *c08Probe {
	p := &c08Probe{c: genC01Case(t, cfgOpts{}, specOpts{faults: true, viaAny: true, stack: false}, 2), sink: &memSink{}, hooks: new(int64), ehooks: new(int64)}
	if p.c.cs.reflEnc != "default" && rapid.Bool().Draw(t, "htmlSensitiveReflect") {
		// the probe's reflection encoder matters only for values with HTML-sensitive characters
		p.c.site = append(p.c.site, &Spec{Kind: "reflect", Key: "html", V: map[string]string{"k": "<a&b>"}})
	}
	p.outstanding = rapid.IntRange(0, 3).Draw(t, "twoChecksOutstanding") == 0
	p.console = rapid.Bool().Draw(t, "console")
	p.caller = rapid.Bool().Draw(t, "callerAndStack")
	p.level = zapcore.Level(rapid.IntRange(-1, 5).Draw(t, "probeLevel"))
	p.depth = rapid.SampledFrom([]int{0, 0, 3, 70}).Draw(t, "probeDepth")
	// the callbacks of P's encoder configuration can be told to log re-entrantly (they are user code)
	if orig := p.c.cs.cfg.EncodeLevel; orig != nil {
		p.c.cs.cfg.EncodeLevel = func(l zapcore.Level, pa zapcore.PrimitiveArrayEncoder) { p.nest(); orig(l, pa) }
	}
	if orig := p.c.cs.cfg.EncodeTime; orig != nil {
		p.c.cs.cfg.EncodeTime = func(tm time.Time, pa zapcore.PrimitiveArrayEncoder) { p.nest(); orig(tm, pa) }
	}
	if orig := p.c.cs.cfg.EncodeName; orig != nil {
		p.c.cs.cfg.EncodeName = func(n string, pa zapcore.PrimitiveArrayEncoder) { orig(n, pa); p.nest() }
	}
	var enc zapcore.Encoder
	if p.console {
		enc = zapcore.NewConsoleEncoder(p.c.cs.cfg)
	} else {
		enc = zapcore.NewJSONEncoder(p.c.cs.cfg)
	}
	if rapid.Bool().Draw(t, "lateWith") {
		p.late = genSpecs(t, 1, 2, specOpts{faults: true, viaAny: true}, "lateCtx")
	}
	opts := []zap.Option{zap.WithClock(fixedClock{p.c.ent.Time}), zap.WithFatalHook(seenHook{p.hooks, &p.seen}), zap.WithPanicHook(seenHook{p.hooks, &p.seen}),
		zap.Hooks(func(zapcore.Entry) error { atomic.AddInt64(p.ehooks, 1); return nil })}
	if p.caller {
		opts = append(opts, zap.AddCaller(), zap.AddStacktrace(zapcore.WarnLevel))
		// a wrapper library's skip: P itself is always issued from a stack deep enough for it
		if p.skip = rapid.SampledFrom([]int{0, 0, 1, 2}).Draw(t, "callerSkip"); p.skip > 0 {
			opts = append(opts, zap.AddCallerSkip(p.skip))
		}
	}
	p.errOut = &memSink{}
	opts = append(opts, zap.ErrorOutput(p.errOut))
	lg := zap.New(zapcore.NewCore(enc, p.sink, zapcore.DebugLevel), opts...)
	if p.c.ent.LoggerName != "" {
		lg = lg.Named(p.c.ent.LoggerName)
	}
	for _, round := range p.c.ctx {
		lg = lg.With(fieldsOf(round)...)
	}
	p.lg = lg
	return p
}

type c08Obs struct {
	bytes  string
	writes int
	hooks  int64
	ehooks int64
}

// run issues P. Always called from the single line in (*c08Probe).observe so
// that caller and stack annotations are legitimately identical.
func (p *c08Probe) run() {
	deepCall(p.depth, func() {
		lg := p.lg
		if p.late != nil {
			lg = lg.With(fieldsOf(p.late)...) // a derivation made after the history (holds pooled objects while P is encoded)
		}
		p.cur = lg
		defer func() { p.cur = nil }()
		if p.outstanding {
			// P as Check + Write with ANOTHER checked entry outstanding in between
			ce := lg.Check(p.level, p.c.ent.Message)
			ce2 := c08Audit.Check(zapcore.InfoLevel, "another entry checked while P is outstanding")
			if ce != nil {
				ce.Write(fieldsOf(p.c.site)...)
			}
			if ce2 != nil {
				ce2.Write(zap.Int("x", 1))
			}
			return
		}
		lg.Log(p.level, p.c.ent.Message, fieldsOf(p.c.site)...)
	})
}

func (p *c08Probe) observe() c08Obs {
	w0, h0, e0 := len(p.sink.writes), atomic.LoadInt64(p.hooks), atomic.LoadInt64(p.ehooks)
	p.seen = nil
	p.run()
	p.lastWrites = p.sink.writes[w0:]
	return c08Obs{string(bytes.Join(p.sink.writes[w0:], nil)), len(p.sink.writes) - w0, atomic.LoadInt64(p.hooks) - h0, atomic.LoadInt64(p.ehooks) - e0}
}

// c08History is logging traffic on OTHER loggers (plus clones of P's encoder
// family and pool poisoning).
type c08History struct {
	ops       []func()
	pools     map[string]bool
	big       bool
	names     []string
	otherRefl bool
	own       *zap.Logger // the probe's own logger (sequential property only): history may also be traffic on P's logger itself
}

func genC08History(t *rapid.T, maxOps int, discard *memSink, probeCfg ...*cfgSpec) *c08History {
	h := &c08History{pools: map[string]bool{}}
	n := rapid.IntRange(1, maxOps).Draw(t, "nHistory")
	cs2 := genCfgSpec(t, cfgOpts{})
	if len(probeCfg) > 0 && probeCfg[0].reflEnc != "default" && rapid.Bool().Draw(t, "otherReflectedEncoder") {
		// the other loggers use a reflection encoder built by the same constructor code as the probe's, with different captured state
		cs2.reflEnc = map[string]string{"html": "nohtml", "nohtml": "html"}[probeCfg[0].reflEnc]
		cs2.cfg.NewReflectedEncoder = mkReflectedEncoder(cs2.reflEnc == "html")
		h.otherRefl = true
	}
	other := zap.New(zapcore.NewTee(
		zapcore.NewCore(zapcore.NewJSONEncoder(cs2.cfg), discard, zapcore.DebugLevel),
		zapcore.NewCore(zapcore.NewConsoleEncoder(cs2.cfg), discard, zapcore.DebugLevel),
	), zap.AddCaller(), zap.AddStacktrace(zapcore.DebugLevel), zap.WithFatalHook(countHook{new(int64)}), zap.WithPanicHook(countHook{new(int64)}))
	so := specOpts{faults: true, viaAny: true}
	for i := 0; i < n; i++ {
		kind := rapid.SampledFrom([]string{"log", "log", "bigopen", "gc", "poison", "deepstack", "errors", "clone", "terminal", "with", "sinkfail", "encfail", "panicmarshal", "panicmarshal", "reuse", "bigreflect", "ownlogger", "shallow"}).Draw(t, "historyOp")
		if kind == "reuse" && len(probeCfg) == 0 {
			// histories that run on several goroutines (they get no probe configuration) must not misuse a
			// CheckedEntry: after the first Write it is back in the pool and may already belong to another
			// goroutine, so the second Write is a data race of the CALLER's making (DESIGN 9.4)
			kind = "clone"
		}
		h.names = append(h.names, kind)
		switch kind {
		case "log":
			lvl := zapcore.Level(rapid.IntRange(-1, 2).Draw(t, "hLevel"))
			msg := genStr().Draw(t, "hMsg")
			fs := fieldsOf(genSpecs(t, 2, 4, so, "hFields"))
			fs = append(fs, zap.Reflect("hr", map[string]string{"<k>": "&v"}))
			h.ops = append(h.ops, func() { other.Log(lvl, msg, fs...) })
			h.pools["json encoder"], h.pools["slice encoder"], h.pools["checked entry"], h.pools["stack"], h.pools["buffer"] = true, true, true, true, true
		case "bigopen":
			sz := rapid.IntRange(1100, 6000).Draw(t, "bigSize")
			h.ops = append(h.ops, func() {
				other.Info(strings.Repeat("x", sz), zap.Namespace("open"), zap.Namespace("open2"), zap.Reflect("r", map[string]any{"big": strings.Repeat("y", sz)}))
			})
			h.big = true
			h.pools["json encoder"], h.pools["buffer"] = true, true
		case "gc":
			h.ops = append(h.ops, func() { runtime.GC(); runtime.GC() })
		case "poison":
			cnt := rapid.IntRange(1, 6).Draw(t, "poisonBuffers")
			rep := rapid.IntRange(1, 400).Draw(t, "poisonRepeat")
			h.ops = append(h.ops, func() {
				var bs []interface{ Free() }
				for j := 0; j < cnt; j++ {
					b := bufferpool.Get()
					b.AppendString(strings.Repeat(c08Poison, rep))
					bs = append(bs, b)
				}
				for _, b := range bs {
					b.Free()
				}
			})
			if rep*len(c08Poison) > 1024 {
				h.big = true
			}
			h.pools["buffer"] = true
		case "deepstack":
			d := rapid.IntRange(60, 220).Draw(t, "deep")
			h.ops = append(h.ops, func() { deepCall(d, func() { other.Error("deep") }) })
			h.pools["stack"] = true
		case "errors":
			es := genErrSpec(t, 2, true)
			fs := genSpecs(t, 1, 2, so, "hFields")
			h.ops = append(h.ops, func() {
				other.With(fieldsOf(fs)...).Warn("w", zap.Errors("errs", []error{nil, es.build(), groupErr{"g", []error{verboseErr{"b"}, nil}}}), zap.NamedError("e", es.build()))
			})
			h.pools["error-array element"] = true
		case "clone":
			cs3 := genCfgSpec(t, cfgOpts{})
			ctx := genSpecs(t, 2, 3, so, "hCtx")
			site := genSpecs(t, 2, 2, so, "hSite")
			ent := genEntry(t)
			console := rapid.Bool().Draw(t, "hConsole")
			h.ops = append(h.ops, func() {
				var e zapcore.Encoder
				if console {
					e = zapcore.NewConsoleEncoder(cs3.cfg)
				} else {
					e = zapcore.NewJSONEncoder(cs3.cfg)
				}
				e2 := e.Clone()
				for _, f := range fieldsOf(ctx) {
					f.AddTo(e2)
				}
				if b, err := e2.EncodeEntry(ent, fieldsOf(site)); err == nil {
					b.Free()
				}
			})
			h.pools["json encoder"], h.pools["slice encoder"] = true, true
		case "sinkfail":
			// an entry whose sink write fails (reported to a discarded ErrorOutput)
			cs3 := genCfgSpec(t, cfgOpts{})
			fs := genSpecs(t, 1, 3, so, "hFields")
			lvl := zapcore.Level(rapid.IntRange(-1, 5).Draw(t, "hLevel"))
			console := rapid.Bool().Draw(t, "hConsole")
			h.ops = append(h.ops, func() {
				var e zapcore.Encoder
				if console {
					e = zapcore.NewConsoleEncoder(cs3.cfg)
				} else {
					e = zapcore.NewJSONEncoder(cs3.cfg)
				}
				bad := zap.New(zapcore.NewTee(zapcore.NewCore(e, failSink{}, zapcore.DebugLevel), zapcore.NewCore(e, discard, zapcore.DebugLevel)),
					zap.ErrorOutput(discard), zap.WithFatalHook(countHook{new(int64)}), zap.WithPanicHook(countHook{new(int64)}))
				bad.Log(lvl, "write fails", fieldsOf(fs)...)
				_ = bad.Sync()
			})
			h.pools["buffer"], h.pools["checked entry"], h.pools["json encoder"] = true, true, true
		case "panicmarshal":
			// a user marshaler that panics: the panic reaches (and is recovered by) the caller of the log method;
			// whatever the encoders held at that moment must not come back to haunt later entries
			console := rapid.Bool().Draw(t, "hConsole")
			cs3 := genCfgSpec(t, cfgOpts{})
			h.ops = append(h.ops, func() {
				var e zapcore.Encoder
				if console {
					e = zapcore.NewConsoleEncoder(cs3.cfg)
				} else {
					e = zapcore.NewJSONEncoder(cs3.cfg)
				}
				lg := zap.New(zapcore.NewCore(e, discard, zapcore.DebugLevel), zap.AddCaller())
				func() {
					defer func() { _ = recover() }()
					lg.Info("marshaler panics", zap.Int("before", 1), zap.Object("boom", c08PanicObj{}), zap.Int("after", 2))
				}()
				func() {
					defer func() { _ = recover() }()
					lg.With(zap.Array("boomarr", c08PanicObj{})).Info("never reached")
				}()
				// ... with namespaces open around it, at the call site and inside a nested object
				func() {
					defer func() { _ = recover() }()
					lg.Info("marshaler panics inside namespaces", zap.Namespace("ns1"), zap.Int("a", 1), zap.Namespace("ns2"), zap.Object("boom", c08PanicObj{}))
				}()
				func() {
					defer func() { _ = recover() }()
					lg.With(zap.Namespace("ctxns")).Info("nested", zap.Object("outer", zapcore.ObjectMarshalerFunc(func(e zapcore.ObjectEncoder) error {
						e.OpenNamespace("inner")
						return e.AddObject("boom", c08PanicObj{})
					})))
				}()
				// the encoder configuration's own callbacks are user code too: one that panics after earlier columns
				// or members have been produced
				for _, which := range []string{"level", "caller", "name"} {
					cfg := cs3.cfg
					cfg.TimeKey, cfg.LevelKey, cfg.NameKey, cfg.CallerKey = "ts", "lvl", "logger", "caller"
					cfg.EncodeTime = zapcore.ISO8601TimeEncoder
					cfg.EncodeLevel, cfg.EncodeCaller, cfg.EncodeName = zapcore.CapitalLevelEncoder, zapcore.ShortCallerEncoder, zapcore.FullNameEncoder
					switch which {
					case "level":
						cfg.EncodeLevel = func(zapcore.Level, zapcore.PrimitiveArrayEncoder) { panic("level encoder panics") }
					case "caller":
						cfg.EncodeCaller = func(zapcore.EntryCaller, zapcore.PrimitiveArrayEncoder) { panic("caller encoder panics") }
					default:
						cfg.EncodeName = func(string, zapcore.PrimitiveArrayEncoder) { panic("name encoder panics") }
					}
					var e2 zapcore.Encoder
					if console {
						e2 = zapcore.NewConsoleEncoder(cfg)
					} else {
						e2 = zapcore.NewJSONEncoder(cfg)
					}
					l2 := zap.New(zapcore.NewCore(e2, discard, zapcore.DebugLevel), zap.AddCaller()).Named("svc")
					for k := 0; k < 2; k++ {
						func() {
							defer func() { _ = recover() }()
							l2.Warn("an encoder callback panics", zap.Int("k", k))
						}()
					}
				}
				// and so are hooks
				hooked := lg.WithOptions(zap.Hooks(func(zapcore.Entry) error { panic("hook panics") }))
				func() {
					defer func() { _ = recover() }()
					hooked.Info("the hook panics", zap.Int("x", 1))
				}()
			})
			h.pools["json encoder"], h.pools["slice encoder"], h.pools["buffer"] = true, true, true
		case "shallow":
			// an entry of P's own logger (or a child of it) issued from a goroutine whose stack is shallower than
			// the logger's caller skip: zap cannot name its caller. What that entry looks like is its own business;
			// P, issued later from the usual place, is annotated as ever
			viaChild := rapid.Bool().Draw(t, "shallowViaChild")
			h.ops = append(h.ops, func() {
				lg := h.own
				if lg == nil {
					return
				}
				if viaChild {
					lg = lg.Named("shallow").With(zap.Int("shallow", 1))
				}
				done := make(chan struct{})
				go func() {
					defer close(done)
					lg.Info("from a goroutine with nothing above it")
				}()
				<-done
			})
		case "ownlogger":
			// earlier entries of P's own logger, its children and its siblings: without call-site fields, with
			// them, with a namespace left open - none of them may change what the logger's next entry looks like
			shape := rapid.SampledFrom([]string{"nofields", "fields", "namespace", "child", "mixed"}).Draw(t, "ownShape")
			h.ops = append(h.ops, func() {
				lg := h.own
				if lg == nil {
					return
				}
				switch shape {
				case "nofields":
					lg.Info("own history")
				case "fields":
					lg.Info("own history", zap.Int("h", 1), zap.Reflect("r", map[string]int{"a": 1}))
				case "namespace":
					lg.Info("own history", zap.Namespace("open"), zap.Int("h", 1))
				case "child":
					lg.With(zap.Namespace("childns"), zap.Int("c", 1)).Info("own history")
				default:
					lg.Info("own history")
					lg.Info("own history", zap.Int("h", 1))
					lg.Sugar().Infow("own history", "k", "v")
				}
			})
		case "reuse":
			// a CheckedEntry written twice: zap detects and reports the misuse; later entries must not suffer
			h.ops = append(h.ops, func() {
				lg := zap.New(zapcore.NewCore(zapcore.NewJSONEncoder(zapcore.EncoderConfig{MessageKey: "m"}), discard, zapcore.DebugLevel), zap.ErrorOutput(discard))
				if ce := lg.Check(zapcore.InfoLevel, "written twice"); ce != nil {
					ce.Write(zap.Int("n", 1))
					ce.Write(zap.Int("n", 2))
				}
			})
			h.pools["checked entry"] = true
		case "bigreflect":
			sz := rapid.SampledFrom([]int{1100, 2000, 5000}).Draw(t, "bigReflectUnits")
			h.ops = append(h.ops, func() {
				ctx := other.With(zap.Reflect("bigctx", map[string]string{"b": strings.Repeat("0123456789abcdef", sz)}), zap.Reflect("smallctx", 1))
				ctx.Info("big then small", zap.Reflect("big", []string{strings.Repeat("0123456789abcdef", sz)}), zap.Reflect("small", map[string]int{"a": 1}))
			})
			h.big = true
			h.pools["buffer"], h.pools["json encoder"] = true, true
		case "encfail":
			// reflected values that cannot be encoded, as context and at the call site
			h.ops = append(h.ops, func() {
				other.With(zap.Reflect("ctxbad", map[string]float64{"x": math.NaN()})).Info("unencodable", zap.Reflect("bad", make(chan int)), zap.Reflect("ok", map[string]int{"a": 1}))
			})
			h.pools["buffer"], h.pools["json encoder"] = true, true
		case "terminal":
			lvl := zapcore.Level(rapid.IntRange(3, 5).Draw(t, "termLevel"))
			h.ops = append(h.ops, func() { other.Log(lvl, "terminal with returning hook") })
			h.pools["checked entry"] = true
		case "with":
			fs := genSpecs(t, 2, 3, so, "hFields")
			h.ops = append(h.ops, func() { other.With(fieldsOf(fs)...).Sugar().Infow("sugar", "k", 1, "dangling") })
			h.pools["checked entry"], h.pools["json encoder"] = true, true
		}
	}
	return h
}

func (h *c08History) run() {
	for _, op := range h.ops {
		func() {
			defer func() { _ = recover() }() // history ops may legitimately panic nowhere; be safe
			op()
		}()
	}
}

func c08Compare(t *rapid.T, p *c08Probe, phase string, base, got c08Obs, h *c08History) {
	if got.bytes != base.bytes || got.writes != base.writes || got.hooks != base.hooks || got.ehooks != base.ehooks {
		t.Fatalf("output depends on history (%s):\n before: %q (writes=%d terminal-hooks=%d entry-hooks=%d)\n after:  %q (writes=%d terminal-hooks=%d entry-hooks=%d)\n history: %v\n probe: console=%v caller=%v level=%v %s",
			phase, clipS(base.bytes), base.writes, base.hooks, base.ehooks, clipS(got.bytes), got.writes, got.hooks, got.ehooks, h.names, p.console, p.caller, p.level, p.c.render())
	}
	if strings.Contains(got.bytes, "POISON") {
		t.Fatalf("poisoned pool buffer content is visible in the output (%s): %q", phase, clipS(got.bytes))
	}
}

// c08HookSaw: the terminal hook of P (if P is at a terminal level) must have
// been handed P's own entry.
func c08HookSaw(t *rapid.T, p *c08Probe) {
	for _, s := range p.seen {
		if want := fmt.Sprintf("%v|%s|%d", p.level, p.c.ent.Message, len(p.c.site)); s != want {
			t.Fatalf("the terminal hook was handed entry %q, the logged entry is %q", clipS(s), clipS(want))
		}
	}
}

func propC08Sequential(t *rapid.T) {
	old := runtime.GOMAXPROCS(1) // a freed pooled object is the next one handed out
	defer runtime.GOMAXPROCS(old)
	p := newC08Probe(t)
	discard := &memSink{}
	h := genC08History(t, 14, discard, p.c.cs)
	h.own = p.lg
	// P is issued from ONE source line (the stack trace legitimately contains
	// the caller's line), in a loop over the phases.
	var base c08Obs
	// a third observation of P's fields: what an observing core would hand to its reader (the map encoder's
	// result). It is taken once and KEPT while the history runs: nothing later may change it.
	var keptMap map[string]interface{}
	keptText := ""
	func() {
		defer func() {
			if recover() != nil {
				keptMap = nil // a generated marshaler that panics: no observation
			}
		}()
		menc := zapcore.NewMapObjectEncoder()
		for _, round := range p.c.ctx {
			for _, f := range fieldsOf(round) {
				f.AddTo(menc)
			}
		}
		for _, f := range fieldsOf(p.c.site) {
			f.AddTo(menc)
		}
		keptMap = menc.Fields
		keptText = fmt.Sprintf("%v", keptMap)
	}()
	phases := []string{"first call", "after history", "after GC", "after second history", "after GC followed by history", "with entries logged from inside P's encoder callbacks"}
	for ph, name := range phases {
		switch ph {
		case 1, 3:
			h.run()
		case 2:
			runtime.GC()
			runtime.GC()
		case 4:
			// the pools are empty when the history runs: whatever it leaves behind is what P finds
			runtime.GC()
			runtime.GC()
			h.run()
		case 5:
			// P once more, and this time its level/time/name encoders (user code) log ANOTHER entry through the
			// very same logger before P's line is complete: whatever is being collected for P belongs to P
			p.nestedOn = true
		}
		got := p.observe()
		if ph == 5 {
			p.nestedOn = false
			if ws := p.lastWrites; p.nestedCount > 0 {
				if len(ws) != 1+p.nestedCount || string(ws[len(ws)-1]) != base.bytes {
					t.Fatalf("P's output depends on an entry logged from inside its own encoder callbacks:\n alone:  %q\n nested: %q (%d writes, %d nested entries)\n probe: console=%v caller=%v level=%v %s",
						clipS(base.bytes), clipS(string(ws[len(ws)-1])), len(ws), p.nestedCount, p.console, p.caller, p.level, p.c.render())
				}
				for _, w := range ws[:len(ws)-1] {
					if !bytes.Contains(w, []byte("nested")) {
						t.Fatalf("a nested entry's line is %q", clipS(string(w)))
					}
				}
			}
			continue
		}
		if ph == 0 {
			base = got
			if base.writes != 1 {
				t.Fatalf("probe produced %d writes", base.writes)
			}
			c08HookSaw(t, p)
			continue
		}
		c08Compare(t, p, name, base, got, h)
		c08HookSaw(t, p)
		if keptMap != nil {
			if now := fmt.Sprintf("%v", keptMap); now != keptText {
				t.Fatalf("%s: the field map an observer was handed BEFORE the history has changed under its reader's feet:\n was %s\n now %s\nhistory %v", name, clipS(keptText), clipS(now), h.names)
			}
		}
	}
	// entries written through a bare core (no logger involved) whose Write fails, right after P has been logged:
	// whichever pooled objects they are handed, P's logger's error output hears nothing of them
	errBefore := len(p.errOut.writes)
	for i := 0; i < 3; i++ {
		if ce := (c08FailCore{}).Check(zapcore.Entry{Level: zapcore.InfoLevel, Message: "bare core entry"}, nil); ce != nil {
			ce.Write()
		}
	}
	if n := len(p.errOut.writes) - errBefore; n != 0 {
		t.Fatalf("the error output of P's logger received %d reports about entries that were written through a bare core, not through that logger: %q", n, p.errOut.writes[errBefore:])
	}
	if bytes.Contains(discard.all(), []byte("POISON")) {
		t.Fatalf("poisoned pool buffer content is visible in another logger's output")
	}
	// the probe's own output is also what the reference says (ties to C01)
	if !p.console && !p.caller {
		if why, _ := checkJSONLine([]byte(base.bytes), p.c.cs.lineEnding()); why != "" {
			t.Fatalf("probe line malformed: %s: %q", why, clipS(base.bytes))
		}
	}
	var pools []string
	for k := range h.pools {
		pools = append(pools, k)
	}
	sortStrings(pools)
	nt := len(pools) > 0 && h.big
	labels := []string{}
	for _, k := range pools {
		labels = append(labels, "history uses pool: "+k)
	}
	if p.caller {
		labels = append(labels, "probe with caller+stack")
	}
	if p.late != nil {
		labels = append(labels, "probe derives With after the history")
	}
	hs := append([]string(nil), h.names...)
	sortStrings(hs)
	statCase("C08", nt, fmt.Sprintf("seq|c%v k%v l%d d%d|%s|%s", p.console, p.caller, p.level, p.depth, strings.Join(hs, ","), traitsOf(p.c.site).kindSig()), labels...)
	if nt {
		statSample("C08", func() string { return fmt.Sprintf("history=%v probe=%s => %q", h.names, p.c.render(), base.bytes) })
	}
}

// Concurrent variant: other goroutines run history-like traffic on OTHER
// loggers while P is observed repeatedly. Run under the race detector.
func propC08Concurrent(t *rapid.T) {
	p := newC08Probe(t)
	nG := rapid.IntRange(2, 6).Draw(t, "goroutines")
	discards := make([]*memSink, nG)
	hs := make([]*c08History, nG)
	for g := range hs {
		discards[g] = &memSink{}
		hs[g] = genC08History(t, 8, discards[g])
	}
	rounds := rapid.IntRange(2, 6).Draw(t, "rounds")
	dumpProgram(map[string]any{"property": "C08", "goroutines": nG, "histories": func() [][]string {
		var o [][]string
		for _, h := range hs {
			o = append(o, h.names)
		}
		return o
	}(), "probe": p.c.render()})
	var base c08Obs
	var wg sync.WaitGroup
	stop := make(chan struct{})
	var failed string
	for r := 0; r <= rounds*5 && failed == ""; r++ {
		if r == 1 {
			for g := 0; g < nG; g++ {
				wg.Add(1)
				go func(h *c08History) {
					defer wg.Done()
					for {
						select {
						case <-stop:
							return
						default:
							h.run()
							runtime.Gosched()
						}
					}
				}(hs[g])
			}
		}
		got := p.observe() // single call line for every round
		if r == 0 {
			base = got
			continue
		}
		if got != base {
			failed = fmt.Sprintf("round %d:\n before: %q (w=%d h=%d e=%d)\n during: %q (w=%d h=%d e=%d)", r, clipS(base.bytes), base.writes, base.hooks, base.ehooks, clipS(got.bytes), got.writes, got.hooks, got.ehooks)
		}
		if strings.Contains(got.bytes, "POISON") {
			failed = "poison visible in probe output"
		}
		runtime.Gosched()
	}
	close(stop)
	wg.Wait()
	if failed != "" {
		t.Fatalf("output depends on concurrent activity on other loggers: %s\n probe: %s", failed, p.c.render())
	}
	statCase("C08", true, fmt.Sprintf("conc|g%d|c%v k%v l%d|%s", nG, p.console, p.caller, p.level, strings.Join(hs[0].names, ",")), "concurrent history")
}

// dumpProgram writes the fully drawn program of a schedule-dependent case to
// current-program.json in the shard's work directory before it runs, so that a
// race report / crash (which kills the process) can be attributed to it.
func dumpProgram(v any) {
	dir := os.Getenv("VERIF_WORKDIR")
	if dir == "" {
		return
	}
	b, err := jsonMarshalIndent(v)
	if err != nil {
		return
	}
	_ = os.WriteFile(dir+"/current-program.json", b, 0o644)
}

func TestC08Sequential(t *testing.T) { rapid.Check(t, propC08Sequential) }
func TestC08Concurrent(t *testing.T) { rapid.Check(t, propC08Concurrent) }

func TestRegressC08(t *testing.T) {
	// a Fatal with a returning hook must not leave its hook on the pooled CheckedEntry
	sink := &memSink{}
	n := new(int64)
	lg := zap.New(zapcore.NewCore(zapcore.NewJSONEncoder(zapcore.EncoderConfig{MessageKey: "m"}), sink, zapcore.DebugLevel), zap.WithFatalHook(countHook{n}))
	runtime.GOMAXPROCS(runtime.GOMAXPROCS(0))
	lg.Fatal("f")
	lg.Info("i")
	lg.Info("i2")
	if *n != 1 {
		t.Fatalf("fatal hook ran %d times", *n)
	}
	// namespaces left open and a reflected value must not leak into the next entry of a pooled encoder
	lg.Info("a", zap.Namespace("ns"), zap.Reflect("r", map[string]int{"x": 1}))
	lg.Info("b", zap.Int("k", 1))
	got := string(sink.writes[len(sink.writes)-1])
	if got != `{"m":"b","k":1}`+"\n" {
		t.Fatalf("got %q", got)
	}
}
