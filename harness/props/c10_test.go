package props

// C10 — field and sink failures are contained and reported; the entry is never lost.

import (
	"bytes"
	"context"
	"errors"
	"fmt"
	"log/slog"
	"os"
	"runtime"
	"strings"
	"sync"
	"sync/atomic"
	"testing"
	"time"

	"go.uber.org/zap"
	"go.uber.org/zap/exp/zapslog"
	"go.uber.org/zap/zapcore"
	"go.uber.org/zap/zaptest/observer"
	"pgregory.net/rapid"
)

// ------------------------------------------------------------------ (a) field faults

var c10SpecOpts = specOpts{faults: true, viaAny: true, faultPct: 45}

func propC10Fields(t *rapid.T) {
	c := genC01Case(t, c02CfgOpts, c10SpecOpts, 3)
	c.ent.Caller = zapcore.EntryCaller{}
	c.ent.Stack = ""
	c.ent.LoggerName = ""
	c.ent.Level = zapcore.Level(rapid.IntRange(-1, 2).Draw(t, "level"))
	jsink, csink, eout := &memSink{}, &memSink{}, &memSink{}
	obsCore, obs := observer.New(zapcore.DebugLevel)
	core := zapcore.NewTee(
		zapcore.NewCore(zapcore.NewJSONEncoder(c.cs.cfg), jsink, zapcore.DebugLevel),
		zapcore.NewCore(zapcore.NewConsoleEncoder(c.cs.cfg), csink, zapcore.DebugLevel),
		obsCore,
	)
	lg := zap.New(core, zap.WithClock(fixedClock{c.ent.Time}), zap.ErrorOutput(eout))
	func() {
		defer func() {
			if p := recover(); p != nil {
				t.Fatalf("a field failure escaped the logging call as a panic: %v\ncase: %s", p, c.render())
			}
		}()
		for _, round := range c.ctx {
			lg = lg.With(fieldsOf(round)...)
		}
		lg.Log(c.ent.Level, c.ent.Message, fieldsOf(c.site)...)
	}()
	if len(jsink.writes) != 1 || len(csink.writes) != 1 || obs.Len() != 1 {
		t.Fatalf("entry lost or duplicated: json sink %d writes, console sink %d, observer %d entries\ncase: %s", len(jsink.writes), len(csink.writes), obs.Len(), c.render())
	}
	if len(eout.writes) != 0 {
		t.Fatalf("field failure was reported as a write error: %q", eout.all())
	}
	// JSON line: well-formed, all other fields intact, <key>Error fields as documented
	why, got := checkJSONLine(jsink.writes[0], c.cs.lineEnding())
	if why != "" {
		t.Fatalf("JSON line malformed after a field failure: %s\n line: %q\ncase: %s", why, clipS(string(jsink.writes[0])), c.render())
	}
	want := c.expectedTree()
	if e := cmpTree("$", want.root, got, c.cs); e != "" {
		t.Fatalf("JSON line differs from the reference (fields intact + <key>Error): %s\n line: %s\n want: %s\ncase: %s", e, clipS(string(jsink.writes[0])), clipS(renderX(want.root)), c.render())
	}
	// console line: context must be the same object
	fo := newObjX()
	for _, round := range c.ctx {
		for _, s := range round {
			s.ExpectField(fo)
		}
	}
	for _, s := range c.site {
		s.ExpectField(fo)
	}
	cline := string(csink.writes[0])
	if len(fo.root.kids) > 0 {
		le := c.cs.lineEnding()
		body := strings.TrimSuffix(cline, le)
		prefix := c.consolePrefix()
		if !strings.HasPrefix(body, prefix) {
			t.Fatalf("console columns differ: want prefix %q\n line: %q\ncase: %s", clipS(prefix), clipS(cline), c.render())
		}
		ctx := body[len(prefix):]
		if prefix != "" {
			if !strings.HasPrefix(ctx, c.sepOrTab()) {
				t.Fatalf("console: separator missing before the context\n line: %q", clipS(cline))
			}
			ctx = ctx[len(c.sepOrTab()):]
		}
		why, cgot := checkJSONLine([]byte(ctx), "")
		if why != "" {
			t.Fatalf("console context malformed after a field failure: %s\n ctx: %q\n line: %q\ncase: %s", why, clipS(ctx), clipS(cline), c.render())
		}
		if e := cmpTree("$ctx", fo.root, cgot, c.cs); e != "" {
			t.Fatalf("console context differs from the reference: %s\n line: %s\ncase: %s", e, clipS(cline), c.render())
		}
	}
	// observer: the entry carries the With context and the call-site fields; replaying
	// them into the map encoder gives the reference nesting
	all := append([][]*Spec{c.site}, c.ctx...)
	tr := traitsOf(all...)
	if !hasUnencodableReflect(nil, all...) {
		menc := zapcore.NewMapObjectEncoder()
		func() {
			defer func() {
				if p := recover(); p != nil {
					t.Fatalf("replaying observed fields panicked: %v\ncase: %s", p, c.render())
				}
			}()
			for _, f := range obs.All()[0].Context {
				f.AddTo(menc)
			}
		}()
		if e := cmpMap("$obs", fo.root, menc.Fields); e != "" {
			t.Fatalf("observer fields differ from the reference: %s\ncase: %s", e, c.render())
		}
	}
	nt := tr.faults >= 2 || (tr.faults >= 1 && tr.faultDepth >= 1)
	labels := []string{fmt.Sprintf("faults=%d", min(tr.faults, 4))}
	if tr.faultDepth >= 1 {
		labels = append(labels, "fault inside nested object/array")
	}
	statCase("C10", nt, "fields|"+tr.kindSig()+fmt.Sprintf("|fd%d", tr.faultDepth), labels...)
	if nt {
		statSample("C10", func() string { return c.render() + " => " + string(jsink.writes[0]) })
	}
}

func (c *c01Case) sepOrTab() string {
	if c.cs.cfg.ConsoleSeparator == "" {
		return "\t"
	}
	return c.cs.cfg.ConsoleSeparator
}

func (c *c01Case) consolePrefix() string {
	cols, _ := c.cs.consoleColumns(c.ent)
	prefix := strings.Join(cols, c.sepOrTab())
	if c.cs.cfg.MessageKey != "" {
		if prefix != "" {
			prefix += c.sepOrTab()
		}
		prefix += c.ent.Message
	}
	return prefix
}

// ------------------------------------------------------------------ (b) sink / core faults

// panicHook is a terminal hook that does not return (like the default ones).
type panicHook struct{}

func (panicHook) OnWrite(ce *zapcore.CheckedEntry, _ []zapcore.Field) {
	panic("terminal:" + ce.Message)
}

type sinkOutcome struct {
	Kind string // ok err short zero syncerr
}

type faultSink struct {
	mu      sync.Mutex
	name    string
	script  []sinkOutcome // per write call; beyond the script: ok
	syncErr bool          // every Sync fails
	got     [][]byte
	syncs   int
}

func (s *faultSink) Write(p []byte) (int, error) {
	s.mu.Lock()
	defer s.mu.Unlock()
	i := len(s.got)
	s.got = append(s.got, append([]byte(nil), p...))
	if i < len(s.script) {
		switch s.script[i].Kind {
		case "err":
			return len(p), fmt.Errorf("werr-%s-%d", s.name, i)
		case "short":
			return len(p) / 2, fmt.Errorf("short-%s-%d", s.name, i)
		case "zero":
			return 0, fmt.Errorf("zero-%s-%d", s.name, i)
		case "closed":
			// what a file that was closed under the logger reports: an error like any other
			return 0, &os.PathError{Op: "write", Path: "sink-" + s.name, Err: os.ErrClosed}
		case "nilerr":
			return 0, (*ptrErr)(nil) // an error value whose Error method panics (nil receiver)
		case "panicerr":
			return len(p) / 2, panicErr{"sink error text panics"}
		}
	}
	return len(p), nil
}

func (s *faultSink) Sync() error {
	s.mu.Lock()
	defer s.mu.Unlock()
	s.syncs++
	if s.syncErr {
		return fmt.Errorf("serr-%s", s.name)
	}
	return nil
}

func (s *faultSink) failsAt(i int) (string, bool) {
	if i < len(s.script) {
		switch s.script[i].Kind {
		case "err":
			return fmt.Sprintf("werr-%s-%d", s.name, i), true
		case "short":
			return fmt.Sprintf("short-%s-%d", s.name, i), true
		case "zero":
			return fmt.Sprintf("zero-%s-%d", s.name, i), true
		case "closed":
			return "write sink-" + s.name + ": file already closed", true
		case "nilerr", "panicerr":
			return "", true // must be reported, but the text of the report is whatever fmt makes of a panicking Error method
		}
	}
	return "", false
}

// failCore is a custom core whose Write fails on scripted entries.
type failCore struct {
	name   string
	script []bool
	seen   *[]string
	syncs  *int
}

func (c failCore) Enabled(zapcore.Level) bool        { return true }
func (c failCore) With([]zapcore.Field) zapcore.Core { return c }
func (c failCore) Check(e zapcore.Entry, ce *zapcore.CheckedEntry) *zapcore.CheckedEntry {
	return ce.AddCore(e, c)
}
func (c failCore) Write(e zapcore.Entry, _ []zapcore.Field) error {
	i := len(*c.seen)
	*c.seen = append(*c.seen, e.Message)
	if i < len(c.script) && c.script[i] {
		return fmt.Errorf("corefail-%s-%d", c.name, i)
	}
	return nil
}
func (c failCore) Sync() error { *c.syncs++; return nil }

type c10Topology struct {
	cores   []zapcore.Core
	sinks   [][]*faultSink // per IO core
	fcores  []failCore
	entries int
}

// delegatingCore signs itself up in Check and forwards Write to the wrapped
// core as a whole (the way user-written wrapper cores do), so that a Tee's own
// Write method is exercised.
type delegatingCore struct{ zapcore.Core }

func (d delegatingCore) Check(e zapcore.Entry, ce *zapcore.CheckedEntry) *zapcore.CheckedEntry {
	if d.Enabled(e.Level) {
		return ce.AddCore(e, d)
	}
	return ce
}
func (d delegatingCore) With(fs []zapcore.Field) zapcore.Core { return delegatingCore{d.Core.With(fs)} }

func c10Check(t interface {
	Fatalf(string, ...any)
}, cores [][]*faultSink, fcores []failCore, nEntries int, level zapcore.Level, desc string, wrap string) {
	cfg := zapcore.EncoderConfig{MessageKey: "m", LevelKey: "l", EncodeLevel: zapcore.LowercaseLevelEncoder}
	var zc []zapcore.Core
	// every second custom core additionally sits behind entry hooks that fail on the same entries as the core (a
	// hooked core reports its hooks' errors as its own write error). The hooks are handed over by spreading a slice
	// that the caller recycles afterwards: the core keeps the hooks it was registered with.
	hookRuns := make([]int, len(fcores))
	hookedFail := func(i int) zapcore.Core {
		// (not behind a wrapper that calls Tee.Write as a whole: a hooked core relies on its wrapped core having
		// signed up for the entry during Check and does not forward Write itself)
		if i%2 == 0 || strings.HasPrefix(wrap, "delegating") || strings.HasPrefix(wrap, "nested") {
			return fcores[i]
		}
		fc := fcores[i]
		hs := []func(zapcore.Entry) error{func(zapcore.Entry) error {
			e := hookRuns[i]
			hookRuns[i]++
			if e < len(fc.script) && fc.script[e] {
				return fmt.Errorf("hookfail-%s-%d", fc.name, e)
			}
			return nil
		}}
		hc := zapcore.RegisterHooks(fc, hs...)
		hs[0] = func(zapcore.Entry) error { return nil } // the slice now serves the next registration
		return hc
	}
	// interleave custom failing cores between IO cores
	for i, ss := range cores {
		ws := make([]zapcore.WriteSyncer, len(ss))
		for j, s := range ss {
			ws[j] = s
		}
		zc = append(zc, zapcore.NewCore(zapcore.NewJSONEncoder(cfg), zapcore.NewMultiWriteSyncer(ws...), zapcore.DebugLevel))
		if i < len(fcores) {
			zc = append(zc, hookedFail(i))
		}
	}
	for i := len(cores); i < len(fcores); i++ {
		zc = append(zc, hookedFail(i))
	}
	eout := &memSink{}
	var top zapcore.Core
	switch strings.SplitN(wrap, "+", 2)[0] {
	case "delegating": // Tee.Write is called as a whole
		top = delegatingCore{zapcore.NewTee(zc...)}
	case "nested": // tee of tees behind a delegating wrapper
		half := len(zc) / 2
		top = delegatingCore{zapcore.NewTee(zapcore.NewTee(zc[:half]...), zapcore.NewTee(zc[half:]...))}
	default:
		top = zapcore.NewTee(zc...)
	}
	lg := zap.New(top, zap.ErrorOutput(eout), zap.WithFatalHook(panicHook{}))
	// front ends without an error output: a core driven directly (as custom front ends do) and the slog handler.
	// The failure cannot be reported there, but the call still returns and the healthy destinations get the entry.
	front := "logger"
	if strings.HasSuffix(wrap, "+direct") {
		front = "direct"
	} else if strings.HasSuffix(wrap, "+slog") {
		front = "slog"
	}
	if front != "logger" && level >= zapcore.DPanicLevel {
		level = zapcore.ErrorLevel
	}
	sh := zapslog.NewHandler(top)
	for e := 0; e < nEntries; e++ {
		before := len(eout.writes)
		func() {
			defer func() {
				p := recover()
				terminal := level >= zapcore.PanicLevel // Panic panics by default; Fatal uses a hook that panics
				if p != nil && !terminal {
					t.Fatalf("%s: logging call (%s front end) panicked on a sink failure: %v", desc, front, p)
				}
				if p == nil && terminal {
					t.Fatalf("%s: terminal level %v did not run its action", desc, level)
				}
			}()
			switch front {
			case "direct":
				if ce := top.Check(zapcore.Entry{Level: level, Message: fmt.Sprintf("msg%d", e)}, nil); ce != nil {
					ce.Write()
				}
			case "slog":
				sl := map[zapcore.Level]slog.Level{zapcore.DebugLevel: slog.LevelDebug, zapcore.InfoLevel: slog.LevelInfo, zapcore.WarnLevel: slog.LevelWarn, zapcore.ErrorLevel: slog.LevelError}[level]
				var zt time.Time
				_ = sh.Handle(context.Background(), slog.NewRecord(zt, sl, fmt.Sprintf("msg%d", e), 0))
			default:
				lg.Log(level, fmt.Sprintf("msg%d", e))
			}
		}()
		// expected failures for this entry
		var wantErrs []string
		for _, ss := range cores {
			for _, s := range ss {
				if txt, bad := s.failsAt(e); bad {
					wantErrs = append(wantErrs, txt)
				}
			}
		}
		for i, fc := range fcores {
			if e < len(fc.script) && fc.script[e] {
				wantErrs = append(wantErrs, fmt.Sprintf("corefail-%s-%d", fc.name, e))
				if i%2 == 1 && !strings.HasPrefix(wrap, "delegating") && !strings.HasPrefix(wrap, "nested") {
					wantErrs = append(wantErrs, fmt.Sprintf("hookfail-%s-%d", fc.name, e))
				}
			}
		}
		reports := eout.writes[before:]
		if front != "logger" {
			if len(reports) != 0 {
				t.Fatalf("%s: a front end without error output wrote a report", desc)
			}
		} else if len(wantErrs) == 0 {
			if len(reports) != 0 {
				t.Fatalf("%s: entry %d had no failing destination but the error output got %q", desc, e, reports)
			}
		} else {
			if len(reports) != 1 {
				t.Fatalf("%s: entry %d had failing destinations %v: want exactly one report on the error output, got %d: %q", desc, e, wantErrs, len(reports), reports)
			}
			rep := string(reports[0])
			if !strings.Contains(rep, "write error") || !strings.HasSuffix(rep, "\n") {
				t.Fatalf("%s: entry %d: malformed report %q", desc, e, rep)
			}
			relaxed := false
			for _, w := range wantErrs {
				if w == "" {
					relaxed = true // a panicking Error method may swallow the texts of the errors combined with it
				}
			}
			for _, w := range wantErrs {
				if relaxed {
					break
				}
				if !strings.Contains(rep, w) {
					t.Fatalf("%s: entry %d: report %q does not mention failing destination %s", desc, e, rep, w)
				}
			}
		}
	}
	line := func(e int) string { return fmt.Sprintf("{\"l\":%q,\"m\":\"msg%d\"}\n", level.String(), e) }
	for ci, ss := range cores {
		for si, s := range ss {
			if len(s.got) != nEntries {
				t.Fatalf("%s: core %d sink %d received %d writes for %d entries (the remaining destinations must still get every entry)", desc, ci, si, len(s.got), nEntries)
			}
			for e, g := range s.got {
				if string(g) != line(e) {
					t.Fatalf("%s: core %d sink %d entry %d: got %q want %q", desc, ci, si, e, g, line(e))
				}
			}
		}
	}
	for _, fc := range fcores {
		if len(*fc.seen) != nEntries {
			t.Fatalf("%s: custom core %s saw %d of %d entries", desc, fc.name, len(*fc.seen), nEntries)
		}
	}
	// Logger.Sync reaches every sink and returns the combined errors
	syncsBefore := map[*faultSink]int{}
	var wantSync []string
	for _, ss := range cores {
		for _, s := range ss {
			syncsBefore[s] = s.syncs
			if s.syncErr {
				wantSync = append(wantSync, "serr-"+s.name)
			}
		}
	}
	err := lg.Sync()
	for s, n := range syncsBefore {
		if s.syncs != n+1 {
			t.Fatalf("%s: Logger.Sync did not reach sink %s exactly once (%d -> %d)", desc, s.name, n, s.syncs)
		}
	}
	if (err == nil) != (len(wantSync) == 0) {
		t.Fatalf("%s: Logger.Sync returned %v, want errors %v", desc, err, wantSync)
	}
	for _, w := range wantSync {
		if !strings.Contains(err.Error(), w) {
			t.Fatalf("%s: Logger.Sync error %q lacks %s", desc, err, w)
		}
	}
}

var c10Outcomes = []string{"ok", "ok", "ok", "err", "err", "short", "short", "zero", "zero", "nilerr", "panicerr", "closed"}

func propC10Sinks(t *rapid.T) {
	nCores := rapid.IntRange(1, 4).Draw(t, "nCores")
	nEntries := rapid.IntRange(1, 6).Draw(t, "nEntries")
	var cores [][]*faultSink
	failBeforeHealthy, anyFail := false, false
	for i := 0; i < nCores; i++ {
		n := rapid.IntRange(1, 3).Draw(t, "nSinks")
		var ss []*faultSink
		for j := 0; j < n; j++ {
			s := &faultSink{name: fmt.Sprintf("c%ds%d", i, j), syncErr: rapid.IntRange(0, 4).Draw(t, "syncErr") == 0}
			for e := 0; e < nEntries; e++ {
				s.script = append(s.script, sinkOutcome{rapid.SampledFrom(c10Outcomes).Draw(t, "outcome")})
			}
			ss = append(ss, s)
		}
		cores = append(cores, ss)
	}
	nf := rapid.IntRange(0, 2).Draw(t, "nFailCores")
	var fcores []failCore
	for i := 0; i < nf; i++ {
		fc := failCore{name: fmt.Sprintf("f%d", i), seen: new([]string), syncs: new(int)}
		for e := 0; e < nEntries; e++ {
			fc.script = append(fc.script, rapid.IntRange(0, 2).Draw(t, "coreFails") == 0)
		}
		fcores = append(fcores, fc)
	}
	// classification: a failing destination before a healthy one for the same entry
	for e := 0; e < nEntries; e++ {
		seenFail := false
		for _, ss := range cores {
			for _, s := range ss {
				if _, bad := s.failsAt(e); bad {
					seenFail, anyFail = true, true
				} else if seenFail {
					failBeforeHealthy = true
				}
			}
		}
	}
	level := zapcore.Level(rapid.SampledFrom([]int{-1, 0, 1, 2, 2, 3, 4, 5}).Draw(t, "level"))
	sig := fmt.Sprintf("sinks|c%d e%d f%d L%d|", nCores, nEntries, nf, level)
	for _, ss := range cores {
		for _, s := range ss {
			for _, o := range s.script {
				sig += o.Kind[:1]
			}
			sig += "/"
		}
	}
	wrap := rapid.SampledFrom([]string{"plain", "delegating", "nested"}).Draw(t, "wrap") + rapid.SampledFrom([]string{"", "", "", "+direct", "+slog"}).Draw(t, "frontEnd")
	sig += wrap
	c10Check(t, cores, fcores, nEntries, level, sig, wrap)
	dests := 0
	for _, ss := range cores {
		dests += len(ss)
	}
	labels := []string{"sink faults"}
	if anyFail {
		labels = append(labels, "some destination fails")
	}
	if failBeforeHealthy {
		labels = append(labels, "failing destination before a healthy one")
	}
	if nf > 0 {
		labels = append(labels, "custom failing core in tee")
	}
	labels = append(labels, "tee "+wrap)
	statCase("C10", dests+nf >= 2 && failBeforeHealthy, sig, labels...)
	if failBeforeHealthy {
		statSample("C10", func() string { return sig })
	}
}

// Exhaustive enumeration of the small shapes: up to 2 cores x up to 2 sinks,
// every outcome vector, one and two entries.
func TestC10SinksExhaustive(t *testing.T) {
	kinds := []string{"ok", "err", "short", "zero"}
	n := 0
	for nCores := 1; nCores <= 2; nCores++ {
		for nSinks := 1; nSinks <= 2; nSinks++ {
			total := nCores * nSinks
			for nEntries := 1; nEntries <= 2; nEntries++ {
				slots := total * nEntries
				combos := 1
				for i := 0; i < slots; i++ {
					combos *= len(kinds)
				}
				for code := 0; code < combos; code++ {
					for syncMask := 0; syncMask < 2; syncMask++ {
						x := code
						var cores [][]*faultSink
						sig := ""
						fail := false
						for i := 0; i < nCores; i++ {
							var ss []*faultSink
							for j := 0; j < nSinks; j++ {
								s := &faultSink{name: fmt.Sprintf("c%ds%d", i, j), syncErr: syncMask == 1 && (i+j)%2 == 0}
								for e := 0; e < nEntries; e++ {
									k := kinds[x%len(kinds)]
									x /= len(kinds)
									s.script = append(s.script, sinkOutcome{k})
									sig += k[:1]
									if k != "ok" {
										fail = true
									}
								}
								sig += "/"
								ss = append(ss, s)
							}
							cores = append(cores, ss)
						}
						c10Check(t, cores, nil, nEntries, zapcore.InfoLevel, sig, []string{"plain", "delegating"}[syncMask])
						statCase("C10", fail && total >= 2, "exh|"+sig, "exhaustive small shape")
						n++
					}
				}
			}
		}
	}
	t.Logf("enumerated %d small topologies", n)
}

// lockedReports serialises error-output writes and keeps each one.
type lockedReports struct {
	mu      sync.Mutex
	reports []string
}

func (l *lockedReports) Write(p []byte) (int, error) {
	// the bytes must be consumed within the call; give other goroutines a
	// chance to run first, the way a slow destination would
	runtime.Gosched()
	l.mu.Lock()
	defer l.mu.Unlock()
	l.reports = append(l.reports, string(p))
	return len(p), nil
}
func (l *lockedReports) Sync() error { return nil }

// propC10Concurrent: under concurrent logging through a tee with a failing
// core every entry still reaches the healthy cores and every failure is
// reported exactly once, each report intact.
func propC10Concurrent(t *rapid.T) {
	g := rapid.IntRange(2, 8).Draw(t, "goroutines")
	per := rapid.IntRange(1, 80).Draw(t, "entriesPerGoroutine")
	failEvery := rapid.IntRange(1, 3).Draw(t, "failEvery")
	dumpProgram(map[string]any{"property": "C10", "goroutines": g, "per": per, "failEvery": failEvery})
	healthy := &tornSink{}
	var failN atomic.Int64
	failing := zapcore.AddSync(writerFunc(func(p []byte) (int, error) {
		if int(failN.Add(1))%failEvery == 0 {
			return 0, errors.New("sinkfail-" + strings.Repeat("x", 40))
		}
		return len(p), nil
	}))
	cfg := zapcore.EncoderConfig{MessageKey: "m", TimeKey: "t", EncodeTime: zapcore.ISO8601TimeEncoder}
	reports := &lockedReports{}
	lg := zap.New(zapcore.NewTee(
		zapcore.NewCore(zapcore.NewJSONEncoder(cfg), zapcore.Lock(failing), zapcore.DebugLevel),
		zapcore.NewCore(zapcore.NewJSONEncoder(cfg), zapcore.Lock(healthy), zapcore.DebugLevel),
	), zap.ErrorOutput(reports))
	var wg sync.WaitGroup
	for i := 0; i < g; i++ {
		wg.Add(1)
		go func(i int) {
			defer wg.Done()
			for j := 0; j < per; j++ {
				lg.Info(fmt.Sprintf("entry-%d-%d", i, j), zap.Reflect("r", map[string]int{"g": i}), zap.String("pad", strings.Repeat("p", j%50)))
			}
		}(i)
	}
	wg.Wait()
	total := g * per
	lines := strings.Split(strings.TrimSuffix(string(healthy.buf), "\n"), "\n")
	if len(lines) != total {
		t.Fatalf("healthy core received %d lines for %d entries", len(lines), total)
	}
	for i, ln := range lines {
		if why, _ := checkJSONLine([]byte(ln), ""); why != "" {
			t.Fatalf("healthy core line %d corrupted: %s: %q", i, why, clipS(ln))
		}
	}
	wantReports := total / failEvery
	if len(reports.reports) != wantReports {
		t.Fatalf("%d failing writes but %d reports on the error output", wantReports, len(reports.reports))
	}
	for i, r := range reports.reports {
		idx := strings.Index(r, " write error: ")
		if idx < 0 || !strings.HasSuffix(r, "sinkfail-"+strings.Repeat("x", 40)+"\n") || strings.Count(r, "\n") != 1 || strings.Contains(r, "{") {
			t.Fatalf("report %d on the error output is corrupted: %q", i, clipS(r))
		}
	}
	statCase("C10", true, fmt.Sprintf("conc|g%d per%d f%d", g, per/10, failEvery), "concurrent failure reports")
}

type writerFunc func([]byte) (int, error)

func (f writerFunc) Write(p []byte) (int, error) { return f(p) }

func TestC10Fields(t *testing.T)     { rapid.Check(t, propC10Fields) }
func TestC10Concurrent(t *testing.T) { rapid.Check(t, propC10Concurrent) }
func TestC10Sinks(t *testing.T)      { rapid.Check(t, propC10Sinks) }

// c10SliceStringer is a Stringer on an UNCOMPARABLE struct type (it holds a slice) whose String panics.
type c10SliceStringer struct{ hops []string }

func (r c10SliceStringer) String() string {
	if len(r.hops) == 0 {
		panic("route without hops")
	}
	return strings.Join(r.hops, "->")
}

// The DEFAULT error output (no ErrorOutput option) is the process's standard error as it is when the logger is
// built - for every constructor that does not say otherwise.
func c10DefaultErrorOutput(t *testing.T) {
	dir := os.Getenv("VERIF_WORKDIR")
	if dir == "" {
		dir = os.TempDir()
	}
	f, err := os.CreateTemp(dir, "c10-stderr-*")
	if err != nil {
		t.Fatalf("VERIF-INCONCLUSIVE %v", err)
	}
	defer os.Remove(f.Name())
	defer f.Close()
	seen, syncs := []string{}, 0
	broken := failCore{name: "broken", script: []bool{true, true, true, true}, seen: &seen, syncs: &syncs}
	healthy, logs := observer.New(zapcore.DebugLevel)
	old := os.Stderr
	os.Stderr = f
	loggers := map[string]*zap.Logger{
		"zap.New(core)":             zap.New(zapcore.NewTee(broken, healthy)),
		"zap.New(core).With.Named":  zap.New(zapcore.NewTee(broken, healthy)).With(zap.Int("k", 1)).Named("n"),
		"zap.NewExample + WrapCore": zap.NewExample(zap.WrapCore(func(zapcore.Core) zapcore.Core { return zapcore.NewTee(broken, healthy) })),
	}
	os.Stderr = old
	for name, lg := range loggers {
		before, _ := os.ReadFile(f.Name())
		lg.Info("entry")
		after, _ := os.ReadFile(f.Name())
		if rep := string(after[len(before):]); !strings.Contains(rep, "write error") || !strings.Contains(rep, "corefail-broken") {
			t.Fatalf("%s: a core failed and the logger has no ErrorOutput option: the report belongs on the standard error of the time the logger was built, which received %q", name, rep)
		}
	}
	if logs.Len() != len(loggers) {
		t.Fatalf("the healthy core received %d of %d entries", logs.Len(), len(loggers))
	}
}

func TestRegressC10(t *testing.T) {
	c10BlankErrorTextStillReported(t)
	c10DefaultErrorOutput(t)
	// Stringers over an uncomparable element type whose String panics: contained like any other
	{
		sink := &memSink{}
		lg := zap.New(zapcore.NewCore(zapcore.NewJSONEncoder(zapcore.EncoderConfig{MessageKey: "m"}), sink, zapcore.DebugLevel))
		func() {
			defer func() {
				if p := recover(); p != nil {
					t.Fatalf("Stringers over an uncomparable element type: the panic of an element's String escaped the log call: %v", p)
				}
			}()
			lg.Info("routes", zap.Int("before", 1), zap.Stringers("routes", []c10SliceStringer{{hops: []string{"a", "b"}}, {}}), zap.Int("after", 2))
		}()
		if len(sink.writes) != 1 {
			t.Fatalf("Stringers over an uncomparable element type: %d lines", len(sink.writes))
		}
		line := string(sink.writes[0])
		if why, _ := checkJSONLine(sink.writes[0], "\n"); why != "" || !strings.Contains(line, `"routes":["a->b"`) || !strings.Contains(line, `"routesError":"PANIC=`) || !strings.Contains(line, `"after":2`) {
			t.Fatalf("Stringers with a panicking element of an uncomparable type: %s %s", why, line)
		}
	}
	// F9: nil / panicking element in zap.Stringers must not escape the log call
	sink := &memSink{}
	lg := zap.New(zapcore.NewCore(zapcore.NewJSONEncoder(zapcore.EncoderConfig{MessageKey: "m"}), sink, zapcore.DebugLevel))
	func() {
		defer func() {
			if p := recover(); p != nil {
				t.Fatalf("panic escaped: %v", p)
			}
		}()
		var np *ptrStringer
		lg.Info("x", zap.Stringers("k", []fmt.Stringer{np}), zap.Int("after", 1))
		lg.Info("y", zap.Stringers("k", []fmt.Stringer{okStringer{"a"}, panicStringer{"boom"}}), zap.Int("after", 1))
	}()
	want := []string{`{"m":"x","k":["<nil>"],"after":1}` + "\n", `{"m":"y","k":["a"],"kError":"PANIC=boom","after":1}` + "\n"}
	if len(sink.writes) != 2 || string(sink.writes[0]) != want[0] || string(sink.writes[1]) != want[1] {
		t.Fatalf("got %q want %q", sink.writes, want)
	}
	// marshaler error keeps the partial value and the other fields
	sink.writes = nil
	lg.Info("z", (&Spec{Kind: "obj", Key: "o", Err: "bad", ErrAt: 1, Kids: []*Spec{{Kind: "i64", Key: "a", V: int64(1)}, {Kind: "i64", Key: "b", V: int64(2)}}}).Field(), zap.Error(errors.New("e")))
	if got := string(bytes.Join(sink.writes, nil)); got != `{"m":"z","o":{"a":1},"oError":"bad","error":"e"}`+"\n" {
		t.Fatalf("got %q", got)
	}
}
