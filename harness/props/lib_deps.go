package props

// Keeps the module requirements stable (go.mod is not rewritten at check time).
import (
	_ "go.uber.org/multierr"
	_ "go.uber.org/zap/exp/zapfield"
	_ "go.uber.org/zap/exp/zapslog"
	_ "gopkg.in/yaml.v3"
)
