package props

// C18, a derived slog handler used by several goroutines from the moment it exists. The harness owns the
// schedule: the encoding of the attributes given to WithAttrs is parked inside a marshaler; whoever obtains the
// derived handler (which, with an eager WithAttrs, is nobody before the gate opens) logs through it at once.
// Every record handled through the derived handler carries the derived attributes under the pending groups.

import (
	"context"
	"fmt"
	"log/slog"
	"strings"
	"sync"
	"sync/atomic"
	"testing"
	"time"

	"go.uber.org/zap/exp/zapslog"
	"go.uber.org/zap/zapcore"
	"pgregory.net/rapid"
)

func propC18FirstUse(t *rapid.T) {
	sink := &c07LockedLines{}
	core := zapcore.NewCore(zapcore.NewJSONEncoder(zapcore.EncoderConfig{MessageKey: "m"}), sink, zapcore.DebugLevel)
	g := c07GateObj{evals: new(atomic.Int32), entered: make(chan struct{}), gate: make(chan struct{})}
	var base slog.Handler = zapslog.NewHandler(core)
	grouped := rapid.Bool().Draw(t, "pendingGroup")
	if grouped {
		base = base.WithGroup("req")
	}
	others := rapid.IntRange(1, 3).Draw(t, "otherGoroutines")
	handed := make(chan slog.Handler, others+1)
	var wg sync.WaitGroup
	var mu sync.Mutex
	var problems []string
	run := func(name string, f func()) {
		wg.Add(1)
		go func() {
			defer wg.Done()
			defer func() {
				if p := recover(); p != nil {
					mu.Lock()
					problems = append(problems, fmt.Sprintf("%s panicked: %v", name, p))
					mu.Unlock()
				}
			}()
			f()
		}()
	}
	rec := func(msg string, k int) slog.Record {
		r := slog.NewRecord(time.Time{}, slog.LevelInfo, msg, 0)
		r.AddAttrs(slog.Int("site", k))
		return r
	}
	run("deriving goroutine", func() {
		h := base.WithAttrs([]slog.Attr{slog.Any("gated", g), slog.Int("k", 1)})
		for i := 0; i <= others; i++ {
			handed <- h
		}
		_ = h.Handle(context.Background(), rec("first", 0))
	})
	select {
	case <-g.entered:
	case <-time.After(10 * time.Second):
		t.Fatalf("VERIF-INCONCLUSIVE the derived attributes were never encoded")
	}
	early := make(chan struct{}, others)
	kinds := make([]string, others)
	for i := range kinds {
		kinds[i] = rapid.SampledFrom([]string{"same", "same", "child-attrs", "child-group"}).Draw(t, "use")
		i, k := i, kinds[i]
		run(fmt.Sprintf("goroutine %d (%s)", i, k), func() {
			h := <-handed
			switch k {
			case "child-attrs":
				h = h.WithAttrs([]slog.Attr{slog.Int("c", i)})
			case "child-group":
				h = h.WithGroup("inner")
			}
			_ = h.Handle(context.Background(), rec("other", i+1))
			early <- struct{}{}
		})
	}
	select {
	case <-early:
	case <-time.After(20 * time.Millisecond):
	}
	close(g.gate)
	wg.Wait()
	desc := fmt.Sprintf("pending group %v, other users %v", grouped, kinds)
	if len(problems) > 0 {
		t.Fatalf("%s: %s", desc, strings.Join(problems, "; "))
	}
	if n := g.evals.Load(); n != 1 {
		t.Fatalf("%s: the attributes given to WithAttrs were encoded %d times, want once", desc, n)
	}
	sink.mu.Lock()
	lines := append([]string(nil), sink.lines...)
	sink.mu.Unlock()
	if len(lines) != 1+others {
		t.Fatalf("%s: %d lines for %d records: %q", desc, len(lines), 1+others, lines)
	}
	want := `"gated":{"eval":1},"k":1`
	if grouped {
		want = `"req":{` + want
	}
	for _, ln := range lines {
		if !strings.Contains(ln, want) {
			t.Fatalf("%s: a record handled through the derived handler lacks its attributes (want %s): %s", desc, want, clipS(ln))
		}
	}
	statCase("C18", true, fmt.Sprintf("firstuse|%v|%s", grouped, strings.Join(kinds, ",")), "derived handler used by several goroutines at once")
}

func TestC18FirstUse(t *testing.T) { rapid.Check(t, propC18FirstUse) }
