package props

// C03 — field constructors and zap.Any deliver exactly the value they were given.

import (
	"errors"
	"fmt"
	"go/ast"
	"go/parser"
	"go/token"
	"math"
	"os"
	"path/filepath"
	"reflect"
	"sort"
	"strings"
	"sync/atomic"
	"testing"
	"time"

	"go.uber.org/zap"
	"go.uber.org/zap/zapcore"
	"pgregory.net/rapid"
)

// clone makes an independent deep copy of a Spec (fresh slices, fresh Specs),
// so that two fields can be built "from equal inputs" without sharing memory.
func (s *Spec) clone() *Spec {
	c := *s
	c.Kids = nil
	for _, k := range s.Kids {
		c.Kids = append(c.Kids, k.clone())
	}
	switch v := s.V.(type) {
	case []byte:
		if v != nil {
			c.V = append(make([]byte, 0, len(v)), v...)
		}
	case *errSpec:
		c.V = v.clone()
	case []*errSpec:
		if v != nil {
			out := make([]*errSpec, len(v))
			for i, e := range v {
				out[i] = e.clone()
			}
			c.V = out
		}
	case []strSpec:
		if v != nil {
			c.V = append(make([]strSpec, 0, len(v)), v...)
		}
	default:
		rv := reflect.ValueOf(s.V)
		if rv.IsValid() && rv.Kind() == reflect.Slice && !rv.IsNil() && s.Kind == "slice" || s.Kind == "zfstrs" && rv.IsValid() && !rv.IsNil() {
			cp := reflect.MakeSlice(rv.Type(), rv.Len(), rv.Len())
			reflect.Copy(cp, rv)
			if rv.Type().Elem().Kind() == reflect.Slice { // [][]byte
				for i := 0; i < rv.Len(); i++ {
					if !rv.Index(i).IsNil() {
						e := reflect.MakeSlice(rv.Type().Elem(), rv.Index(i).Len(), rv.Index(i).Len())
						reflect.Copy(e, rv.Index(i))
						cp.Index(i).Set(e)
					}
				}
			}
			c.V = cp.Interface()
		}
	}
	return &c
}

func (e *errSpec) clone() *errSpec {
	if e == nil {
		return nil
	}
	c := *e
	c.Kids = nil
	for _, k := range e.Kids {
		c.Kids = append(c.Kids, k.clone())
	}
	return &c
}

func anyNaN(v any) bool {
	switch x := v.(type) {
	case float64:
		return x != x
	case float32:
		return x != x
	case complex128:
		return x != x
	case complex64:
		return x != x
	case []float64:
		for _, f := range x {
			if f != f {
				return true
			}
		}
	case []float32:
		for _, f := range x {
			if f != f {
				return true
			}
		}
	case []complex128:
		for _, f := range x {
			if f != f {
				return true
			}
		}
	case []complex64:
		for _, f := range x {
			if f != f {
				return true
			}
		}
	}
	return false
}

// notSelfEqual reports whether the field built from s carries a value that is
// not equal to (a copy of) itself under Go's == / reflect.DeepEqual — known
// finding K1 (NaN inside an interface-carried value, non-nil func).
func (s *Spec) notSelfEqual(top bool) bool {
	switch s.Kind {
	case "f64", "f32":
		if top {
			return false // packed as bits into the integer slot
		}
		return anyNaN(s.V)
	case "c128", "c64", "slice":
		return anyNaN(s.V)
	case "reflect":
		switch v := s.V.(type) {
		case func():
			return true
		case float64:
			return v != v
		}
		return false
	}
	for _, k := range s.Kids {
		if k.notSelfEqual(false) {
			return true
		}
	}
	return false
}

var c03Opts = specOpts{faults: true, stack: false, viaAny: true, zapfield: true}

func expectRecorded(specs []*Spec) *objX {
	o := newObjX()
	for _, s := range specs {
		s.ExpectField(o)
	}
	return o
}

func equalsNoPanic(a, b zapcore.Field) (eq bool, p any) {
	defer func() { p = recover() }()
	return a.Equals(b), nil
}

// propC03Tree: whole field lists (nested marshalers, zap.Any routing, pointer
// constructors) delivered to the reference recorder.
func propC03Tree(t *rapid.T) {
	specs := genSpecs(t, 2, 4, c03Opts, "nFields")
	if len(specs) == 0 {
		specs = append(specs, genSpec(t, 2, false, c03Opts))
	}
	// the recorder emulates an encoder that rejects unencodable reflected values,
	// so the JSON-oriented expectation (<key>Error) applies unchanged
	inputGuardOn, inputGuards = true, nil
	defer func() { inputGuardOn, inputGuards = false, nil }()
	fields := fieldsOf(specs)
	got, p := record(fields...)
	if p != nil {
		t.Fatalf("AddTo panicked: %v\nfields: %s", p, renderSpecs(specs))
	}
	if e := checkInputGuards(); e != "" {
		t.Fatalf("%s\nfields: %s", e, renderSpecs(specs))
	}
	inputGuardOn = false
	want := expectRecorded(specs)
	if e := cmpRec("$", want.root, got, false); e != "" {
		t.Fatalf("encoder did not receive the original values: %s\n recorded: %s\nfields: %s", e, clipS(renderR(got)), renderSpecs(specs))
	}
	c03Equals(t, specs)
	tr := traitsOf(specs)
	nt := tr.extreme || tr.viaAny > 0 || tr.kinds["nilptr"] > 0 || tr.kinds["slice"] > 0 || tr.maxDepth > 0
	statCase("C03", nt, "tree|"+tr.kindSig(), "field list")
	if nt {
		statSample("C03", func() string { return renderSpecs(specs) + " => " + renderR(got) })
	}
}

// c03Equals: fields built independently from equal inputs are Equal (both
// directions), Equals is reflexive, symmetric on arbitrary pairs, never panics.
func c03Equals(t *rapid.T, specs []*Spec) {
	fa := fieldsOf(specs)
	fb := make([]zapcore.Field, len(specs))
	for i, s := range specs {
		fb[i] = s.clone().Field()
	}
	for i, s := range specs {
		ab, p1 := equalsNoPanic(fa[i], fb[i])
		ba, p2 := equalsNoPanic(fb[i], fa[i])
		aa, p3 := equalsNoPanic(fa[i], fa[i])
		if p1 != nil || p2 != nil || p3 != nil {
			t.Fatalf("Field.Equals panicked (%v %v %v) for %s", p1, p2, p3, s.Render())
		}
		if ab != ba {
			t.Fatalf("Field.Equals is not symmetric for two fields built from %s: a.Equals(b)=%v b.Equals(a)=%v", s.Render(), ab, ba)
		}
		if s.notSelfEqual(true) {
			statExcluded("C03", "equals-irreflexive-nan-func")
			continue
		}
		if !ab {
			t.Fatalf("fields built from equal inputs are not Equal: %s", s.Render())
		}
		if !aa {
			t.Fatalf("Field.Equals is not reflexive for %s", s.Render())
		}
	}
	// error values that are related without being the same (one wraps the other, one is the other's group):
	// under ONE key they are different fields in both directions, and each is delivered as what it is
	for _, f := range fa {
		if f.Type != zapcore.ErrorType {
			continue
		}
		inner, ok := f.Interface.(error)
		if !ok || inner == nil {
			continue
		}
		var wrapTxt string
		func() {
			defer func() { _ = recover() }()
			wrapTxt = inner.Error()
		}()
		for _, other := range []zapcore.Field{zap.NamedError(f.Key, fmt.Errorf("context: %w", inner)), zap.NamedError(f.Key, groupErr{"group", []error{inner}})} {
			x, p1 := equalsNoPanic(f, other)
			y, p2 := equalsNoPanic(other, f)
			if p1 != nil || p2 != nil {
				t.Fatalf("Field.Equals panicked (%v %v) for an error field and a field wrapping that error (%q)", p1, p2, clipS(wrapTxt))
			}
			if x != y || x {
				t.Fatalf("an error field and a field whose error WRAPS it (key %q, %q): a.Equals(b)=%v b.Equals(a)=%v, want false both ways (they deliver different values)", f.Key, clipS(wrapTxt), x, y)
			}
		}
	}
	// symmetry on arbitrary pairs (different keys / types / values)
	for i := range fa {
		for j := range fa {
			x, p1 := equalsNoPanic(fa[i], fb[j])
			y, p2 := equalsNoPanic(fb[j], fa[i])
			if p1 != nil || p2 != nil {
				t.Fatalf("Field.Equals panicked (%v %v) for %s vs %s", p1, p2, specs[i].Render(), specs[j].Render())
			}
			if x != y {
				t.Fatalf("Field.Equals is not symmetric: %s vs %s: %v / %v", specs[i].Render(), specs[j].Render(), x, y)
			}
		}
	}
}

// ---- scalar families over their full ranges, every route (value, pointer, slice, Any)

func genScalarSpec(t *rapid.T, kind string) *Spec {
	s := &Spec{Kind: kind, Key: genKey().Draw(t, "key")}
	switch kind {
	case "str", "zfstr":
		s.V = genStr().Draw(t, "v")
	case "bstr", "bin":
		s.V = []byte(genStr().Draw(t, "v"))
	case "bool":
		s.V = rapid.Bool().Draw(t, "v")
	case "i64":
		s.V = genInt64().Draw(t, "v")
	case "i32":
		s.V = rapid.OneOf(rapid.Int32(), rapid.SampledFrom([]int32{math.MinInt32, math.MaxInt32, -1, 0})).Draw(t, "v")
	case "i16":
		s.V = rapid.OneOf(rapid.Int16(), rapid.SampledFrom([]int16{math.MinInt16, math.MaxInt16, -1, 0})).Draw(t, "v")
	case "i8":
		s.V = rapid.Int8().Draw(t, "v")
	case "int":
		s.V = rapid.OneOf(rapid.Int(), rapid.SampledFrom([]int{math.MinInt64, math.MaxInt64, math.MaxInt32 + 1})).Draw(t, "v")
	case "u64":
		s.V = genUint64().Draw(t, "v")
	case "u32":
		s.V = rapid.OneOf(rapid.Uint32(), rapid.SampledFrom([]uint32{math.MaxUint32, 1 << 31, 0})).Draw(t, "v")
	case "u16":
		s.V = rapid.OneOf(rapid.Uint16(), rapid.SampledFrom([]uint16{math.MaxUint16, 1 << 15, 0})).Draw(t, "v")
	case "u8":
		s.V = rapid.Uint8().Draw(t, "v")
	case "uint":
		s.V = rapid.OneOf(rapid.Uint(), rapid.SampledFrom([]uint{math.MaxUint64, 1 << 63})).Draw(t, "v")
	case "uptr":
		s.V = rapid.OneOf(rapid.Uintptr(), rapid.SampledFrom([]uintptr{math.MaxUint64, 1 << 63})).Draw(t, "v")
	case "f64":
		s.V = genFloat().Draw(t, "v")
	case "f32":
		s.V = genFloat32().Draw(t, "v")
	case "c128":
		s.V = genComplex().Draw(t, "v")
	case "c64":
		c := genComplex().Draw(t, "v")
		s.V = complex(genFloat32().Draw(t, "re32"), float32(imag(c)))
	case "dur":
		s.V = genDuration().Draw(t, "v")
	case "time":
		s.V = genTime().Draw(t, "v")
	case "slice":
		s.V = genSliceValue(t)
	case "zfstrs":
		s.V = drawN(t, rapid.IntRange(0, 3).Draw(t, "n"), genStr())
	case "nilptr":
		s.V = rapid.SampledFrom([]string{"int", "string", "bool", "time", "dur", "f64", "u8", "c64", "uptr"}).Draw(t, "nilType")
	}
	if isScalarKind(kind) && kind != "bstr" && kind != "bin" {
		s.Ptr = rapid.IntRange(0, 3).Draw(t, "ptr") == 0
	}
	if s.anyCapable() {
		s.ViaAny = rapid.IntRange(0, 2).Draw(t, "any") == 0
	}
	return s
}

var c03ScalarKinds = append([]string{"bin", "slice", "slice", "slice", "nilptr", "zfstr", "zfstrs"}, scalarKinds...)

func propC03Scalar(t *rapid.T) {
	kind := rapid.SampledFrom(c03ScalarKinds).Draw(t, "kind")
	s := genScalarSpec(t, kind)
	inputGuardOn, inputGuards = true, nil
	defer func() { inputGuardOn, inputGuards = false, nil }()
	f := s.Field()
	got, p := record(f)
	if p != nil {
		t.Fatalf("AddTo panicked: %v for %s", p, s.Render())
	}
	if e := checkInputGuards(); e != "" {
		t.Fatalf("%s\nfield: %s", e, s.Render())
	}
	inputGuardOn = false
	want := expectRecorded([]*Spec{s})
	if e := cmpRec("$", want.root, got, false); e != "" {
		t.Fatalf("encoder did not receive the original value: %s\n recorded: %s\nfield: %s", e, clipS(renderR(got)), s.Render())
	}
	// Any agreement: same Type and same recorded calls as the typed constructor
	if s.anyCapable() {
		typed, viaAny := *s, *s
		typed.ViaAny, viaAny.ViaAny = false, true
		ft, fa := typed.Field(), viaAny.Field()
		if ft.Type != fa.Type {
			t.Fatalf("zap.Any chose field type %v, the typed constructor %v, for %s", fa.Type, ft.Type, s.Render())
		}
		ra, p := record(fa)
		if p != nil {
			t.Fatalf("Any field panicked: %v", p)
		}
		if e := cmpRec("$", want.root, ra, false); e != "" {
			t.Fatalf("zap.Any delivers a different value than the typed constructor: %s\nfield: %s", e, s.Render())
		}
	}
	c03Equals(t, []*Spec{s})
	tr := traitsOf([]*Spec{s})
	class := "plain"
	if tr.extreme {
		class = "extreme"
	}
	if kind == "time" {
		tm := s.V.(time.Time)
		switch {
		case tm.IsZero():
			class = "zero"
		case !timeInNanoRange(tm):
			class = "outside-int64-nanos"
		default:
			n, _ := tm.Zone()
			class = "zone:" + n
		}
	}
	if kind == "slice" {
		class = fmt.Sprintf("%T", s.V)
		if reflect.ValueOf(s.V).IsNil() {
			class += "/nil"
		} else if reflect.ValueOf(s.V).Len() == 0 {
			class += "/empty"
		}
	}
	nt := tr.extreme || s.Ptr || s.ViaAny || kind == "slice" || kind == "nilptr" || kind == "time"
	statCase("C03", nt, fmt.Sprintf("scalar|%s|%s|p%v|a%v", kind, class, s.Ptr, s.ViaAny), "ctor "+kind)
}

// ---- zap.Any on types it does not special-case: must be Reflect with the same value

type (
	namedInt    int
	namedString string
	namedSlice  []int
	plainStruct struct {
		A int
		B string
	}
)

func propC03AnyFallback(t *rapid.T) {
	n := rapid.Int().Draw(t, "n")
	str := genStr().Draw(t, "s")
	vals := []any{
		plainStruct{n, str}, &plainStruct{n, str}, map[string]int{str: n}, map[int]string{n: str},
		namedInt(n), namedString(str), namedSlice{n}, []any{n, str}, [2]int{n, n}, (*plainStruct)(nil), (*namedInt)(nil),
		[]namedInt{namedInt(n)}, [][]byte{[]byte(str)}, []*int{nil}, struct{}{}, nil, (*[]int)(nil), []plainStruct{{n, str}},
		int64(n) > 0 && false, // bool: supported, control
	}
	i := rapid.IntRange(0, len(vals)-1).Draw(t, "which")
	v := vals[i]
	f := zap.Any("k", v)
	if _, isBool := v.(bool); isBool {
		if f.Type != zapcore.BoolType {
			t.Fatalf("Any(bool) has type %v", f.Type)
		}
		statCase("C03", false, "anyfallback|bool")
		return
	}
	if f.Type != zapcore.ReflectType {
		t.Fatalf("zap.Any(%T) must fall back to reflection, got field type %v", v, f.Type)
	}
	if !reflect.DeepEqual(f.Interface, v) || reflect.TypeOf(f.Interface) != reflect.TypeOf(v) {
		t.Fatalf("zap.Any(%T) carries %#v, want the original %#v", v, f.Interface, v)
	}
	if f.Key != "k" {
		t.Fatalf("key %q", f.Key)
	}
	g := zap.Reflect("k", v)
	eq, p := equalsNoPanic(f, g)
	if p != nil || !eq {
		t.Fatalf("Any(%T) and Reflect of the same value: Equals=%v panic=%v", v, eq, p)
	}
	statCase("C03", true, fmt.Sprintf("anyfallback|%T", v), "Any fallback to Reflect")
}

// propC03AnyMulti: dynamic types implementing several of the interfaces zap.Any
// looks for. Any must pick the representation of the corresponding typed
// constructor in its documented order (ObjectMarshaler, ArrayMarshaler, the
// concrete types, error, fmt.Stringer, reflection last) and deliver what that
// constructor delivers.
func propC03AnyMulti(t *rapid.T) {
	v, want := genMultiIface(t)
	key := genKey().Draw(t, "key")
	fa := zap.Any(key, v)
	var ft zapcore.Field
	switch want {
	case "object":
		ft = zap.Object(key, v.(zapcore.ObjectMarshaler))
	case "array":
		ft = zap.Array(key, v.(zapcore.ArrayMarshaler))
	case "error":
		ft = zap.NamedError(key, v.(error))
	case "stringer":
		ft = zap.Stringer(key, v.(fmt.Stringer))
	}
	if fa.Type != ft.Type || fa.Key != key {
		t.Fatalf("zap.Any(%T) chose field type %v (key %q); the corresponding typed constructor (%s) gives %v", v, fa.Type, fa.Key, want, ft.Type)
	}
	ra, p1 := record(fa)
	rt, p2 := record(ft)
	if p1 != nil || p2 != nil {
		t.Fatalf("AddTo panicked: %v %v", p1, p2)
	}
	if renderR(ra) != renderR(rt) {
		t.Fatalf("zap.Any(%T) delivers %s, the %s constructor delivers %s", v, renderR(ra), want, renderR(rt))
	}
	if eq, p := equalsNoPanic(fa, ft); p != nil || !eq {
		t.Fatalf("Any(%T) vs %s constructor: Equals=%v panic=%v", v, want, eq, p)
	}
	statCase("C03", true, fmt.Sprintf("anymulti|%T", v), "Any on a type implementing several interfaces")
}

func TestC03Tree(t *testing.T)        { rapid.Check(t, propC03Tree) }
func TestC03AnyMulti(t *testing.T)    { rapid.Check(t, propC03AnyMulti) }
func TestC03Scalar(t *testing.T)      { rapid.Check(t, propC03Scalar) }
func TestC03AnyFallback(t *testing.T) { rapid.Check(t, propC03AnyFallback) }

// ---- completeness: every exported constructor returning a Field has a row

var c03Covered = map[string]bool{}

func init() {
	for _, n := range strings.Fields(`Skip Binary Bool Boolp ByteString Complex128 Complex128p Complex64 Complex64p Float64 Float64p
		Float32 Float32p Int Intp Int64 Int64p Int32 Int32p Int16 Int16p Int8 Int8p String Stringp Uint Uintp Uint64 Uint64p
		Uint32 Uint32p Uint16 Uint16p Uint8 Uint8p Uintptr Uintptrp Reflect Namespace Stringer Time Timep Stack StackSkip
		Duration Durationp Object Inline Dict Any Array Bools ByteStrings Complex128s Complex64s Durations Float64s Float32s
		Ints Int64s Int32s Int16s Int8s Objects ObjectValues Strings Stringers Times Uints Uint64s Uint32s Uint16s Uint8s
		Uintptrs Errors Error NamedError zapfield.Str zapfield.Strs`) {
		c03Covered[n] = true
	}
}

func repoDir() string {
	if d := os.Getenv("VERIF_REPO"); d != "" {
		return d
	}
	return "/repo"
}

func TestC03Completeness(t *testing.T) {
	files := map[string]string{"field.go": "", "array.go": "", "error.go": "", "exp/zapfield/zapfield.go": "zapfield."}
	var found, uncovered []string
	for f, prefix := range files {
		fset := token.NewFileSet()
		af, err := parser.ParseFile(fset, filepath.Join(repoDir(), f), nil, 0)
		if err != nil {
			t.Fatalf("VERIF-INCONCLUSIVE cannot parse %s: %v", f, err)
		}
		for _, d := range af.Decls {
			fd, ok := d.(*ast.FuncDecl)
			if !ok || fd.Recv != nil || !fd.Name.IsExported() || fd.Type.Results == nil || len(fd.Type.Results.List) != 1 {
				continue
			}
			res := fd.Type.Results.List[0].Type
			name := ""
			switch r := res.(type) {
			case *ast.Ident:
				name = r.Name
			case *ast.SelectorExpr:
				name = r.Sel.Name
			}
			if name != "Field" {
				continue
			}
			n := prefix + fd.Name.Name
			found = append(found, n)
			if !c03Covered[n] {
				uncovered = append(uncovered, n)
			}
		}
	}
	sort.Strings(found)
	statLabel("C03", "constructors found in source", int64(len(found)))
	if len(found) < 75 {
		t.Fatalf("VERIF-INCONCLUSIVE only %d constructors found in the source; parser out of date?", len(found))
	}
	if len(uncovered) > 0 {
		t.Fatalf("VERIF-INCONCLUSIVE constructors without a row in the C03 table (extend the harness): %v", uncovered)
	}
}

// TestKnownC03 re-checks that known finding K1 still reproduces.
func TestKnownC03(t *testing.T) {
	nan := math.NaN()
	cases := map[string]zapcore.Field{
		"Complex128(NaN)": zap.Complex128("k", complex(nan, 0)),
		"Reflect(NaN)":    zap.Reflect("k", nan),
		"Reflect(func)":   zap.Reflect("k", func() {}),
	}
	repro := 0
	for name, f := range cases {
		if eq, p := equalsNoPanic(f, f); p == nil && !eq {
			repro++
			t.Logf("K1 reproduces: %s is not Equal to itself", name)
		}
	}
	if repro > 0 {
		fmt.Println("KNOWN-FINDING-REPRODUCES key=equals-irreflexive-nan-func")
	}
}

func TestRegressC03(t *testing.T) {
	c03ObjectValuesElements(t)
	c03SharedErrorConcurrently(t)
	c03TimeKeepsItsZone(t)
	c03ProcessLongRun(t)
	c03ObjectsIntoUserArrayEncoder(t)
	// F4: Equals on inline-marshaler / uncomparable Stringer fields must not panic
	a := zap.Inline(zap.DictObject(zap.Int("a", 1)))
	if eq, p := equalsNoPanic(a, a); p != nil || !eq {
		t.Fatalf("Inline(DictObject).Equals(self) = %v, panic %v", eq, p)
	}
	b := zap.Stringer("k", sliceStringer{"x"})
	if eq, p := equalsNoPanic(b, zap.Stringer("k", sliceStringer{"x"})); p != nil || !eq {
		t.Fatalf("Stringer(slice type).Equals = %v, panic %v", eq, p)
	}
	// time: zone must survive, also outside the int64-nanosecond range
	loc := time.FixedZone("X", 3600)
	for _, tm := range []time.Time{time.Unix(5, 6).In(loc), time.Unix(1<<40, 0).In(loc), {}} {
		got, _ := record(zap.Time("k", tm))
		if d := sameTimeExact(got.Kids[0].V.(time.Time), tm); d != "" {
			t.Fatalf("Time(%v): %s", tm, d)
		}
	}
	// nil error is skipped, nil pointer is an explicit null
	got, _ := record(zap.Error(nil), zap.Intp("p", nil), zap.Uint32("u", math.MaxUint32))
	if len(got.Kids) != 2 || got.Kids[0].M != "Reflected" || got.Kids[0].V != nil || got.Kids[1].V != uint32(math.MaxUint32) {
		t.Fatalf("got %s", renderR(got))
	}
}

// c03SelfObj knows its own address: its pointer-receiver marshaler reports whether it was invoked on the caller's
// own slice element (ObjectValues is documented for element types whose POINTERS implement ObjectMarshaler) and
// counts its invocations in that element.
type c03SelfObj struct {
	self *c03SelfObj
	hits int
}

func (o *c03SelfObj) MarshalLogObject(enc zapcore.ObjectEncoder) error {
	o.hits++
	enc.AddBool("own", o.self == o)
	return nil
}

func c03ObjectValuesElements(t *testing.T) {
	for _, n := range []int{1, 2, 5} {
		vs := make([]c03SelfObj, n)
		for i := range vs {
			vs[i].self = &vs[i]
		}
		r, p := record(zap.ObjectValues("k", vs))
		if p != nil {
			t.Fatalf("ObjectValues panicked: %v", p)
		}
		got := renderR(r)
		if strings.Contains(got, "false") || strings.Count(got, "true") != n {
			t.Fatalf("ObjectValues of %d elements: marshalers were not invoked on the caller's own elements: %s", n, got)
		}
		for i := range vs {
			if vs[i].hits != 1 {
				t.Fatalf("ObjectValues: element %d of the caller's slice was marshaled %d times (the marshaler ran on a copy)", i, vs[i].hits)
			}
		}
	}
}

// c03PtrGroup is a pointer-typed error group (the shape of multi-error libraries) that two goroutines log at once.
type c03PtrGroup struct {
	msg  string
	errs []error
}

func (g *c03PtrGroup) Error() string   { return g.msg }
func (g *c03PtrGroup) Errors() []error { return g.errs }

type c03GateErr struct {
	calls   *atomic.Int32
	entered chan struct{}
	gate    chan struct{}
}

func (e c03GateErr) Error() string {
	if e.calls.Add(1) == 1 {
		close(e.entered)
		<-e.gate
	}
	return "cause"
}

// Two goroutines encode the SAME error value at the same time (the harness parks the first inside a cause's Error
// method): each encoder receives the complete value - message and every cause.
func c03SharedErrorConcurrently(t *testing.T) {
	ge := c03GateErr{calls: new(atomic.Int32), entered: make(chan struct{}), gate: make(chan struct{})}
	grp := &c03PtrGroup{msg: "flush failed", errs: []error{ge, errors.New("second cause")}}
	f := zap.Error(grp)
	encA, encB := zapcore.NewMapObjectEncoder(), zapcore.NewMapObjectEncoder()
	doneA, doneB := make(chan struct{}), make(chan struct{})
	go func() { f.AddTo(encA); close(doneA) }()
	<-ge.entered
	go func() { f.AddTo(encB); close(doneB) }()
	select { // bounded: lets an encoder that gives up on the value finish early; decides nothing otherwise
	case <-doneB:
	case <-time.After(50 * time.Millisecond):
	}
	close(ge.gate)
	<-doneA
	<-doneB
	for name, enc := range map[string]*zapcore.MapObjectEncoder{"first": encA, "second": encB} {
		causes, _ := enc.Fields["errorCauses"].([]interface{})
		if enc.Fields["error"] != "flush failed" || len(causes) != 2 {
			t.Fatalf("the %s of two goroutines encoding one error group at the same time received %v (want the message and both causes)", name, enc.Fields)
		}
	}
}

// A time field keeps the zone its time.Time had when the field was BUILT, whatever the process's local zone is by
// the time the field is encoded (fields are kept: in a With context evaluated lazily, by buffering cores, in
// variables): time.Local is replaced and restored around the construction.
func c03TimeKeepsItsZone(t *testing.T) {
	old := time.Local
	defer func() { time.Local = old }()
	for _, off := range []int{3600, -9 * 3600, 12*3600 + 45*60} {
		zone := time.FixedZone("then-local", off)
		time.Local = zone
		tm := time.Date(2021, 3, 4, 5, 6, 7, 8, time.Local)
		fs := []zapcore.Field{zap.Time("t", tm), zap.Timep("tp", &tm), zap.Any("ta", tm), zap.Times("ts", []time.Time{tm})}
		time.Local = time.FixedZone("now-local", off+7200)
		enc := zapcore.NewMapObjectEncoder()
		for _, f := range fs {
			f.AddTo(enc)
		}
		time.Local = old
		for _, k := range []string{"t", "tp", "ta"} {
			got, ok := enc.Fields[k].(time.Time)
			if _, o := got.Zone(); !ok || !got.Equal(tm) || o != off {
				t.Fatalf("zap time field %q built in zone %+d s reached the encoder as %v (a time-zone change)", k, off, enc.Fields[k])
			}
		}
	}
}
