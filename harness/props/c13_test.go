package props

// C13 — zap's writers and WriteSyncer combinators honour the io.Writer contract.

import (
	"bytes"
	"context"
	"fmt"
	"io"
	"log"
	"os"
	"reflect"
	"runtime"
	"strings"
	"sync"
	"sync/atomic"
	"syscall"
	"testing"
	"time"

	"go.uber.org/zap"
	"go.uber.org/zap/zapcore"
	"go.uber.org/zap/zapio"
	"go.uber.org/zap/zaptest"
	"go.uber.org/zap/zaptest/observer"
	"pgregory.net/rapid"
)

var c13Payloads = [][]byte{nil, {}, []byte(" "), []byte("\n"), []byte("\r\n"), []byte(" a \n"), []byte("a\nb"), []byte("\n\n"), []byte("  hello \n"), []byte("\t\n "), []byte("no newline"), []byte("trailing\r\n"), []byte("\x00"), []byte(" \xff ")}

func genC13Payload(t *rapid.T) []byte {
	return rapid.OneOf(
		rapid.SampledFrom(c13Payloads),
		rapid.SliceOfN(rapid.Byte(), 0, 40),
		rapid.Map(rapid.IntRange(1, 1<<20), func(n int) []byte { return bytes.Repeat([]byte("0123456789abcde\n"), n/16+1)[:n] }),
		rapid.Map(genStr(), func(s string) []byte { return []byte(" " + s + " \n") }),
	).Draw(t, "payload")
}

type fakeTB struct {
	mu     sync.Mutex
	logs   []string
	failed int
}

func (f *fakeTB) Logf(format string, a ...interface{}) {
	f.mu.Lock()
	defer f.mu.Unlock()
	f.logs = append(f.logs, fmt.Sprintf(format, a...))
}
func (f *fakeTB) Errorf(format string, a ...interface{}) { f.Logf(format, a...); f.Fail() }
func (f *fakeTB) Fail()                                  { f.mu.Lock(); f.failed++; f.mu.Unlock() }
func (f *fakeTB) Failed() bool                           { return f.failed > 0 }
func (f *fakeTB) Name() string                           { return "fake" }
func (f *fakeTB) FailNow()                               { f.Fail() }

var c13StdMu sync.Mutex

func propC13Writers(t *rapid.T) {
	p := genC13Payload(t)
	chk := func(name string, n int, err error) {
		if err != nil || n != len(p) {
			t.Fatalf("%s.Write(%d bytes %q) = (%d, %v), want (%d, nil): a writer that accepted p must report len(p)", name, len(p), clipS(string(p)), n, err, len(p))
		}
	}
	core, logs := observer.New(zapcore.DebugLevel)
	lg := zap.New(core)
	// io.Writer: "Write must not modify the slice data, even temporarily. Implementations must not retain p."
	// Every Write below receives a private copy of the payload that is overwritten as soon as Write returns (what
	// io.Copy, bufio and os/exec do with their buffers); what the sinks observed is checked afterwards.
	wr := func(name string, w io.Writer, b []byte) (int, error) {
		q := append(make([]byte, 0, len(b)+8), b...)
		n, err := w.Write(q)
		if !bytes.Equal(q, b) {
			t.Fatalf("%s.Write modified the caller's slice: %q became %q", name, clipS(string(b)), clipS(string(q)))
		}
		for i := range q {
			q[i] = '#'
		}
		return n, err
	}
	// zapio.Writer, enabled and disabled; the payload arrives in one to three chunks
	zw := &zapio.Writer{Log: lg}
	cuts := []int{0, len(p)}
	if len(p) > 1 && rapid.Bool().Draw(t, "chunked") {
		a := rapid.IntRange(0, len(p)).Draw(t, "cut1")
		b := rapid.IntRange(a, len(p)).Draw(t, "cut2")
		cuts = []int{0, a, b, len(p)}
	}
	total := 0
	for i := 0; i+1 < len(cuts); i++ {
		part := p[cuts[i]:cuts[i+1]]
		n, err := wr("zapio.Writer", zw, part)
		if err != nil || n != len(part) {
			t.Fatalf("zapio.Writer.Write(%d bytes) = (%d, %v), want (%d, nil)", len(part), n, err, len(part))
		}
		total += n
	}
	n, err := total, error(nil)
	chk("zapio.Writer", n, err)
	zw.Close()
	{
		lines := strings.Split(string(p), "\n")
		if lines[len(lines)-1] == "" {
			lines = lines[:len(lines)-1] // no extraneous empty message at the end of the stream
		}
		es := logs.TakeAll()
		if len(es) != len(lines) {
			t.Fatalf("zapio.Writer logged %d entries for a payload of %d lines: %q", len(es), len(lines), clipS(string(p)))
		}
		for i, e := range es {
			if e.Message != lines[i] {
				t.Fatalf("zapio.Writer: entry %d has message %q, the caller wrote %q (the writer must not retain the caller's slice)", i, clipS(e.Message), clipS(lines[i]))
			}
		}
	}
	zd := &zapio.Writer{Log: lg, Level: zapcore.Level(-5)}
	n, err = wr("zapio.Writer(disabled level)", zd, p)
	chk("zapio.Writer(disabled level)", n, err)
	// std-log bridge writers
	logs.TakeAll()
	n, err = wr("std-log bridge", zap.NewStdLog(lg).Writer(), p)
	chk("NewStdLog(l).Writer()", n, err)
	if es := logs.TakeAll(); len(es) != 1 || es[0].Message != string(bytes.TrimSpace(p)) {
		t.Fatalf("std-log bridge logged %v for payload %q", es, clipS(string(p)))
	}
	if sl, e := zap.NewStdLogAt(lg, zapcore.WarnLevel); e == nil {
		n, err = wr("std-log bridge", sl.Writer(), p)
		chk("NewStdLogAt(l, Warn).Writer()", n, err)
	}
	// the bridge on loggers that will not log the message (level disabled, no-op core, level raised later): the
	// writer still consumes all of p
	quiet := zap.NewAtomicLevelAt(zapcore.ErrorLevel)
	qcore, qlogs := observer.New(quiet)
	qlg := zap.New(qcore)
	n, err = zap.NewStdLog(qlg).Writer().Write(p)
	chk("NewStdLog(logger with Info disabled).Writer()", n, err)
	if sl, e := zap.NewStdLogAt(qlg, zapcore.DebugLevel); e == nil {
		n, err = sl.Writer().Write(p)
		chk("NewStdLogAt(l, Debug) on a logger with Debug disabled", n, err)
	}
	n, err = zap.NewStdLog(zap.NewNop()).Writer().Write(p)
	chk("NewStdLog(NewNop()).Writer()", n, err)
	if sl, e := zap.NewStdLogAt(qlg, zapcore.ErrorLevel); e == nil {
		w := sl.Writer()
		quiet.SetLevel(zapcore.FatalLevel) // raised after the bridge was built
		n, err = w.Write(p)
		chk("NewStdLogAt(l, Error) after the level was raised", n, err)
		quiet.SetLevel(zapcore.ErrorLevel)
	}
	if qlogs.Len() != 0 {
		t.Fatalf("a disabled std-log bridge logged %d entries", qlogs.Len())
	}
	func() {
		c13StdMu.Lock()
		defer c13StdMu.Unlock()
		undo := zap.RedirectStdLog(lg)
		defer undo()
		n, err = log.Writer().Write(p)
		chk("RedirectStdLog + log.Writer()", n, err)
	}()
	// testing writer
	tb := &fakeTB{}
	tw := zaptest.NewTestingWriter(tb)
	n, err = wr("TestingWriter", tw, p)
	chk("zaptest.TestingWriter", n, err)
	if len(tb.logs) != 1 || tb.logs[0] != string(bytes.TrimRight(p, "\n")) || tb.failed != 0 {
		t.Fatalf("TestingWriter logged %q (failed=%d) for payload %q", tb.logs, tb.failed, clipS(string(p)))
	}
	n, err = tw.WithMarkFailed(true).Write(p)
	chk("zaptest.TestingWriter(markFailed)", n, err)
	if tb.failed != 1 || tw.Sync() != nil {
		t.Fatalf("markFailed writer: failed=%d", tb.failed)
	}
	// BufferedWriteSyncer
	under := &memSink{}
	size := rapid.SampledFrom([]int{0, 1, 16, 4096, 256 * 1024}).Draw(t, "bufferSize")
	bws := &zapcore.BufferedWriteSyncer{WS: under, Size: size, FlushInterval: time.Hour}
	if rapid.IntRange(0, 2).Draw(t, "stoppedBeforeFirstUse") == 0 {
		if err := bws.Stop(); err != nil { // nothing to stop yet; the syncer works as usual afterwards
			t.Fatalf("Stop of an unused BufferedWriteSyncer: %v", err)
		}
	}
	n, err = wr("BufferedWriteSyncer", bws, p)
	chk("BufferedWriteSyncer", n, err)
	n, err = wr("BufferedWriteSyncer", bws, p)
	chk("BufferedWriteSyncer(second write)", n, err)
	if err := bws.Stop(); err != nil {
		t.Fatalf("Stop: %v", err)
	}
	if got := under.all(); !bytes.Equal(got, append(append([]byte{}, p...), p...)) {
		t.Fatalf("BufferedWriteSyncer delivered %d bytes for two writes of %d", len(got), len(p))
	}
	trims := !bytes.Equal(bytes.TrimSpace(p), p) || bytes.Contains(p, []byte("\n"))
	class := "plain"
	switch {
	case len(p) == 0:
		class = "empty"
	case len(bytes.TrimSpace(p)) == 0:
		class = "whitespace-only"
	case len(p) > 100000:
		class = "large"
	case bytes.HasSuffix(p, []byte("\n")):
		class = "trailing newline"
	case trims:
		class = "trimmed/split"
	}
	statCase("C13", trims, "writers|"+class+fmt.Sprint(size), "payload "+class)
}

// ---- scripted sinks

type c13Outcome struct {
	N    int // -1 = len(p), -2 = len(p)-1, -3 = len(p)+3 (a sink that frames the payload and reports bytes on the wire), otherwise the literal count (clamped)
	Err  bool
	Sync bool // Sync fails
}

type c13Sink struct {
	name  string
	outs  []c13Outcome
	calls [][]byte
	syncs int
}

func (s *c13Sink) result(i int, l int) (int, error) {
	o := c13Outcome{N: -1}
	if i < len(s.outs) {
		o = s.outs[i]
	}
	n := o.N
	switch {
	case n == -1:
		n = l
	case n == -2:
		n = l - 1
		if n < 0 {
			n = 0
		}
	case n == -3:
		n = l + 3
	case n > l:
		n = l
	}
	var err error
	if o.Err {
		err = fmt.Errorf("werr-%s-%d", s.name, i)
	}
	return n, err
}

func (s *c13Sink) Write(p []byte) (int, error) {
	i := len(s.calls)
	s.calls = append(s.calls, append([]byte(nil), p...))
	return s.result(i, len(p))
}

func (s *c13Sink) Sync() error {
	i := s.syncs
	s.syncs++
	if i < len(s.outs) && s.outs[i].Sync {
		return fmt.Errorf("serr-%s-%d", s.name, i)
	}
	return nil
}

// c13FlushWriter has no Sync but other life-cycle methods that a too helpful wrapper might want to call.
type c13FlushWriter struct {
	s                      *c13Sink
	fail                   bool
	flushes, closes, stops int
}

func (w *c13FlushWriter) Write(p []byte) (int, error) { return w.s.Write(p) }
func (w *c13FlushWriter) Flush() error {
	w.flushes++
	if w.fail {
		return fmt.Errorf("flush failed")
	}
	return nil
}
func (w *c13FlushWriter) Close() error { w.closes++; return nil }
func (w *c13FlushWriter) Stop() error  { w.stops++; return nil }

// plainWriter has no Sync method.
type plainWriter struct{ s *c13Sink }

func (w plainWriter) Write(p []byte) (int, error) { return w.s.Write(p) }

// c13CheckMulti builds the multi syncer flat, or nested according to groups
// (sizes of consecutive sub-groups; a sub-group of >= 2 sinks becomes its own
// NewMultiWriteSyncer): nesting must not change anything observable.
// c13MultiWrap: the multi syncer under test is additionally wrapped (set by the property around one call).
var c13MultiWrap string

// sameIface: two interface values hold the same thing (works for the slice-typed multi syncer, which == cannot compare).
func sameIface(a, b any) bool {
	va, vb := reflect.ValueOf(a), reflect.ValueOf(b)
	if va.IsValid() != vb.IsValid() || (va.IsValid() && va.Type() != vb.Type()) {
		return false
	}
	if !va.IsValid() {
		return true
	}
	switch va.Kind() {
	case reflect.Slice:
		return va.Len() == vb.Len() && (va.Len() == 0 || va.Pointer() == vb.Pointer())
	case reflect.Ptr, reflect.Func, reflect.Map, reflect.Chan:
		return va.Pointer() == vb.Pointer()
	}
	if va.Type().Comparable() {
		return a == b
	}
	return true
}

// c13MultiDiscardAt: position at which an AddSync(io.Discard) member is inserted into the list (-1 = none).
var c13MultiDiscardAt = -1

// c13Routes are equivalent ways of handing one payload to an io.Writer: each makes exactly one Write call with
// the payload's bytes on a writer that has no other methods, and returns that call's results.
var c13Routes = []string{"Write", "io.WriteString", "fmt.Fprintf"}

func c13WriteVia(route string, w io.Writer, p []byte) (int, error) {
	switch route {
	case "io.WriteString":
		return io.WriteString(w, string(p))
	case "fmt.Fprintf":
		return fmt.Fprintf(w, "%s", p)
	}
	return w.Write(p)
}

func c13CheckMulti(t interface{ Fatalf(string, ...any) }, sinks []*c13Sink, payloads [][]byte, desc string, groups ...int) {
	c13CheckMultiVia(t, nil, sinks, payloads, desc, groups...)
}

func c13CheckMultiVia(t interface{ Fatalf(string, ...any) }, routes []string, sinks []*c13Sink, payloads [][]byte, desc string, groups ...int) {
	ws := make([]zapcore.WriteSyncer, len(sinks))
	for i, s := range sinks {
		ws[i] = s
	}
	if len(groups) > 0 {
		var parts []zapcore.WriteSyncer
		i := 0
		for _, g := range groups {
			if i >= len(ws) {
				break
			}
			if i+g > len(ws) {
				g = len(ws) - i
			}
			if g >= 2 {
				parts = append(parts, zapcore.NewMultiWriteSyncer(ws[i:i+g:i+g]...))
			} else {
				parts = append(parts, ws[i])
			}
			i += g
		}
		parts = append(parts, ws[i:]...)
		ws = parts
		desc += fmt.Sprintf(" nested%v", groups)
	}
	// the list handed to NewMultiWriteSyncer stays the caller's: it may contain syncers that discard (which a
	// combinator might want to leave out) and is used again afterwards - for a second combinator, for shutdown
	hasDiscard := false
	if c13MultiDiscardAt >= 0 && len(ws) > 0 {
		hasDiscard = true
		at := c13MultiDiscardAt % (len(ws) + 1)
		ws = append(ws[:at:at], append([]zapcore.WriteSyncer{zapcore.AddSync(io.Discard)}, ws[at:]...)...)
	}
	callers := append([]zapcore.WriteSyncer(nil), ws...)
	m := zapcore.NewMultiWriteSyncer(ws...)
	for i := range ws {
		if !sameIface(ws[i], callers[i]) {
			t.Fatalf("%s: NewMultiWriteSyncer rearranged the caller's slice: element %d is now %T", desc, i, ws[i])
		}
	}
	if c13MultiDiscardAt >= 0 {
		m = zapcore.NewMultiWriteSyncer(ws...) // built again from the same list: the same combinator
	}
	if c13MultiWrap == "lock" {
		m = zapcore.Lock(m)
		desc += " under Lock"
	}
	for c, p := range payloads {
		wantN := 0
		var wantErrs []string
		for i, s := range sinks {
			n, err := s.result(c, len(p))
			if i == 0 || n < wantN {
				wantN = n
			}
			if err != nil {
				wantErrs = append(wantErrs, err.Error())
			}
		}
		if hasDiscard && len(p) < wantN {
			wantN = len(p) // the discarding member reports len(p), which only over-reporting sinks exceed
		}
		route := "Write"
		if c < len(routes) {
			route = routes[c]
			desc += " via " + route
		}
		n, err := c13WriteVia(route, m, p)
		if n != wantN {
			t.Fatalf("%s: call %d: multi Write returned n=%d, the smallest count any sink reported is %d", desc, c, n, wantN)
		}
		if (err == nil) != (len(wantErrs) == 0) {
			t.Fatalf("%s: call %d: multi Write error=%v, sink errors %v", desc, c, err, wantErrs)
		}
		for _, w := range wantErrs {
			if !strings.Contains(err.Error(), w) {
				t.Fatalf("%s: call %d: multi Write error %q lacks %s", desc, c, err, w)
			}
			mult := 0
			for _, w2 := range wantErrs {
				if w2 == w {
					mult++
				}
			}
			if got := strings.Count(err.Error(), w); got < mult {
				t.Fatalf("%s: call %d: %d sinks failed with the error text %q, the combined error reports it %d times: %q (all of their errors, one per sink)", desc, c, mult, w, got, err)
			}
		}
		for i, s := range sinks {
			if len(s.calls) != c+1 {
				t.Fatalf("%s: call %d: sink %d was written %d times (every sink exactly once per call, regardless of earlier failures)", desc, c, i, len(s.calls)-c)
			}
			if !bytes.Equal(s.calls[c], p) {
				t.Fatalf("%s: call %d: sink %d received different bytes", desc, c, i)
			}
		}
		// Sync reaches every sink and aggregates
		var wantSync []string
		for _, s := range sinks {
			if c < len(s.outs) && s.outs[c].Sync {
				wantSync = append(wantSync, fmt.Sprintf("serr-%s-%d", s.name, c))
			}
		}
		serr := m.Sync()
		for i, s := range sinks {
			if s.syncs != c+1 {
				t.Fatalf("%s: call %d: Sync reached sink %d %d times", desc, c, i, s.syncs-c)
			}
		}
		if (serr == nil) != (len(wantSync) == 0) {
			t.Fatalf("%s: call %d: multi Sync error=%v, want %v", desc, c, serr, wantSync)
		}
		for _, w := range wantSync {
			if !strings.Contains(serr.Error(), w) {
				t.Fatalf("%s: call %d: multi Sync error %q lacks %s", desc, c, serr, w)
			}
			mult := 0
			for _, w2 := range wantSync {
				if w2 == w {
					mult++
				}
			}
			if got := strings.Count(serr.Error(), w); got < mult {
				t.Fatalf("%s: call %d: %d sinks failed Sync with the error text %q, the combined error reports it %d times: %q", desc, c, mult, w, got, serr)
			}
		}
	}
}

func propC13Multi(t *rapid.T) {
	k := rapid.IntRange(1, 5).Draw(t, "sinks")
	calls := rapid.IntRange(1, 4).Draw(t, "calls")
	sinks := make([]*c13Sink, k)
	sig := ""
	minNotFirst := false
	// sinks on one full disk report errors with identical texts: they are still one error per sink
	sameText := rapid.IntRange(0, 3).Draw(t, "sinksReportIdenticalErrorTexts") == 0
	for i := range sinks {
		sinks[i] = &c13Sink{name: fmt.Sprintf("s%d", i)}
		if sameText {
			sinks[i].name = "disk"
		}
		for c := 0; c < calls; c++ {
			o := c13Outcome{N: rapid.SampledFrom([]int{-1, -1, -1, 0, 1, -2, -1, -1, 0, 1, -2, -3}).Draw(t, "count"), Err: rapid.IntRange(0, 2).Draw(t, "err") == 0, Sync: rapid.IntRange(0, 3).Draw(t, "syncErr") == 0}
			sinks[i].outs = append(sinks[i].outs, o)
			sig += fmt.Sprintf("%d%v%v,", o.N, o.Err, o.Sync)
		}
		sig += "/"
	}
	payloads := make([][]byte, calls)
	for c := range payloads {
		payloads[c] = rapid.OneOf(rapid.SampledFrom(c13Payloads), rapid.SliceOfN(rapid.Byte(), 2, 30)).Draw(t, "p")
		if k > 1 {
			first, _ := sinks[0].result(c, len(payloads[c]))
			for _, s := range sinks[1:] {
				if n, _ := s.result(c, len(payloads[c])); n < first {
					minNotFirst = true
				}
			}
		}
	}
	var groups []int
	if rapid.Bool().Draw(t, "nested") {
		groups = rapid.SliceOfN(rapid.IntRange(1, 3), 1, 3).Draw(t, "groupSizes")
		sig += fmt.Sprint("g", groups)
	}
	routes := make([]string, calls)
	for c := range routes {
		routes[c] = rapid.SampledFrom(c13Routes).Draw(t, "route")
	}
	wrap := rapid.SampledFrom([]string{"", "", "lock"}).Draw(t, "wrap")
	c13MultiWrap = wrap
	c13MultiDiscardAt = rapid.SampledFrom([]int{-1, -1, 0, 1, 2, 5}).Draw(t, "discardMemberAt")
	c13CheckMultiVia(t, routes, sinks, payloads, sig, groups...)
	c13MultiWrap, c13MultiDiscardAt = "", -1
	labels := []string{"multi syncer"}
	if len(groups) > 0 {
		labels = append(labels, "nested multi syncers")
	}
	statCase("C13", minNotFirst, "multi|"+sig, labels...)
	if minNotFirst {
		statSample("C13", func() string { return "multi outcomes " + sig })
	}
}

// All outcome vectors for one and two sinks (count in {len, 0, 1, len-1} x error x sync error).
func TestC13MultiExhaustive(t *testing.T) {
	var outs []c13Outcome
	for _, n := range []int{-1, 0, 1, -2} {
		for _, e := range []bool{false, true} {
			for _, s := range []bool{false, true} {
				outs = append(outs, c13Outcome{n, e, s})
			}
		}
	}
	p := [][]byte{[]byte("hello world")}
	cnt := 0
	for _, a := range outs {
		c13CheckMulti(t, []*c13Sink{{name: "a", outs: []c13Outcome{a}}}, p, fmt.Sprint(a))
		cnt++
		for _, b := range outs {
			for _, r := range c13Routes { // the equivalent routes to Write agree on every vector
				c13CheckMultiVia(t, []string{r}, []*c13Sink{{name: "a", outs: []c13Outcome{a}}, {name: "b", outs: []c13Outcome{b}}}, p, fmt.Sprint(a, b))
				cnt++
			}
			statCase("C13", true, fmt.Sprint("exh", a, b), "exhaustive 2-sink outcome vectors")
			for _, c := range outs[:4] {
				c13CheckMulti(t, []*c13Sink{{name: "a", outs: []c13Outcome{a}}, {name: "b", outs: []c13Outcome{b}}, {name: "c", outs: []c13Outcome{c}}}, p, fmt.Sprint(a, b, c))
				cnt++
			}
		}
	}
	t.Logf("enumerated %d outcome vectors", cnt)
}

func propC13Wrappers(t *rapid.T) {
	o := c13Outcome{N: rapid.SampledFrom([]int{-1, 0, 1, -2, 7}).Draw(t, "count"), Err: rapid.Bool().Draw(t, "err"), Sync: rapid.Bool().Draw(t, "syncErr")}
	p := rapid.SliceOfN(rapid.Byte(), 0, 20).Draw(t, "p")
	// AddSync keeps an existing Sync
	s := &c13Sink{name: "s", outs: []c13Outcome{o}}
	as := zapcore.AddSync(s)
	if as != zapcore.WriteSyncer(s) {
		t.Fatalf("AddSync wrapped a writer that already has Sync")
	}
	// ... and adds a no-op one otherwise, relaying Write results unchanged
	s2 := &c13Sink{name: "s2", outs: []c13Outcome{o}}
	aw := zapcore.AddSync(plainWriter{s2})
	wn, werr := s2.result(0, len(p))
	route := rapid.SampledFrom(c13Routes).Draw(t, "route")
	n, err := c13WriteVia(route, aw, p)
	if n != wn || fmt.Sprint(err) != fmt.Sprint(werr) || len(s2.calls) != 1 || !bytes.Equal(s2.calls[0], p) {
		t.Fatalf("AddSync wrapper relayed (%d, %v), wrapped writer returned (%d, %v)", n, err, wn, werr)
	}
	if err := aw.Sync(); err != nil || s2.syncs != 0 {
		t.Fatalf("AddSync's added Sync must be a no-op returning nil: %v (inner syncs %d)", err, s2.syncs)
	}
	// ... whatever ELSE the writer can do: a writer with a Flush, Close or Stop of its own (bufio, gzip, tabwriter
	// shapes) is not touched by the added Sync
	fw := &c13FlushWriter{s: &c13Sink{name: "fw", outs: []c13Outcome{o}}, fail: o.Sync}
	afw := zapcore.AddSync(fw)
	if _, err := c13WriteVia(route, afw, p); (err != nil) != (werr != nil) {
		t.Fatalf("AddSync(writer with Flush) relayed write error %v, want %v", err, werr)
	}
	if err := afw.Sync(); err != nil || fw.flushes+fw.closes+fw.stops != 0 {
		t.Fatalf("AddSync's added Sync must be a no-op returning nil: got %v and called Flush %d, Close %d, Stop %d times on the writer", err, fw.flushes, fw.closes, fw.stops)
	}
	var _ io.Writer = aw
	// Lock relays results unchanged and does not double wrap
	s3 := &c13Sink{name: "s3", outs: []c13Outcome{o}}
	lk := zapcore.Lock(s3)
	if zapcore.Lock(lk) != lk {
		t.Fatalf("Lock wrapped an already locked WriteSyncer again")
	}
	wn, werr = s3.result(0, len(p))
	n, err = c13WriteVia(route, lk, p)
	if n != wn || fmt.Sprint(err) != fmt.Sprint(werr) || len(s3.calls) != 1 || !bytes.Equal(s3.calls[0], p) {
		t.Fatalf("Lock relayed (%d, %v), wrapped syncer returned (%d, %v)", n, err, wn, werr)
	}
	serr := lk.Sync()
	if (serr != nil) != o.Sync || s3.syncs != 1 {
		t.Fatalf("Lock.Sync relayed %v (want error: %v), inner syncs %d", serr, o.Sync, s3.syncs)
	}
	// Lock (and AddSync) relay the very error VALUE the wrapped syncer returned, whatever it is - including the
	// errno values that fsync reports for terminals and pipes - and stay usable afterwards
	c13Errs := []error{nil, io.EOF, io.ErrShortWrite, syscall.EINVAL, syscall.ENOTTY, syscall.EPIPE, syscall.EAGAIN, syscall.EBADF,
		&os.PathError{Op: "sync", Path: "/dev/stderr", Err: syscall.EINVAL}, &os.PathError{Op: "write", Path: "/dev/full", Err: syscall.ENOSPC}, os.ErrClosed, context.DeadlineExceeded}
	es := &c13ErrSink{werr: rapid.SampledFrom(c13Errs).Draw(t, "writeErrValue"), serr: rapid.SampledFrom(c13Errs).Draw(t, "syncErrValue")}
	for _, wrapped := range []zapcore.WriteSyncer{zapcore.Lock(es), zapcore.Lock(zapcore.AddSync(es)), zap.CombineWriteSyncers(es)} {
		done := make(chan string, 1)
		go func() {
			for round := 0; round < 3; round++ {
				if n, err := c13WriteVia(c13Routes[round%len(c13Routes)], wrapped, p); n != len(p) || err != es.werr {
					done <- fmt.Sprintf("round %d: Write relayed (%d, %v), the wrapped syncer returned (%d, %v)", round, n, err, len(p), es.werr)
					return
				}
				if err := wrapped.Sync(); err != es.serr {
					done <- fmt.Sprintf("round %d: Sync relayed %v, the wrapped syncer returned %v", round, err, es.serr)
					return
				}
			}
			done <- ""
		}()
		select {
		case msg := <-done:
			if msg != "" {
				t.Fatalf("Lock: %s", msg)
			}
		case <-time.After(20 * time.Second):
			t.Fatalf("VERIF-DEADLOCK a locked WriteSyncer stopped responding after its wrapped syncer returned write error %v / sync error %v", es.werr, es.serr)
		}
	}
	// BufferedWriteSyncer over a sink with scripted results (incl. one that reports a
	// short count without an error): it must never pass a short count on with a nil error
	for _, size := range []int{1, len(p), len(p) + 1, 4096} {
		if size == 0 {
			continue
		}
		s5 := &c13Sink{name: "s5", outs: []c13Outcome{o, o, o, o}}
		bws := &zapcore.BufferedWriteSyncer{WS: s5, Size: size, FlushInterval: time.Hour}
		n1, e1 := bws.Write(p)
		n2, e2 := bws.Write(p)
		_ = bws.Stop()
		for _, r := range []struct {
			n   int
			err error
		}{{n1, e1}, {n2, e2}} {
			if r.n < len(p) && r.err == nil {
				t.Fatalf("BufferedWriteSyncer(Size=%d).Write(%d bytes) over a sink returning %+v = (%d, nil): a short count without an error", size, len(p), o, r.n)
			}
			if r.n > len(p) || r.n < 0 {
				t.Fatalf("BufferedWriteSyncer.Write returned count %d for %d bytes", r.n, len(p))
			}
		}
	}
	// a single-sink multi syncer is the sink itself or behaves like it
	s4 := &c13Sink{name: "s4", outs: []c13Outcome{o}}
	c13CheckMulti(t, []*c13Sink{s4}, [][]byte{p}, "single")
	statCase("C13", o.Err || o.N != -1, fmt.Sprintf("wrap|%d%v%v", o.N, o.Err, o.Sync), "AddSync/Lock relays")
}

// c13ErrSink accepts everything and returns fixed error values.
type c13ErrSink struct{ werr, serr error }

func (e *c13ErrSink) Write(p []byte) (int, error) { return len(p), e.werr }
func (e *c13ErrSink) Sync() error                 { return e.serr }

// c13MutexSink / c13RWMutexSink: sinks with a mutex of their own for another purpose (the methods are promoted).
type c13MutexSink struct {
	sync.Mutex
	*overlapSink
}

type c13RWMutexSink struct {
	sync.RWMutex
	*overlapSink
}

// c13FileSink: a user type with an embedded *os.File and Write/Sync methods of its own.
type c13FileSink struct {
	*os.File
	overlapSink *overlapSink
}

func (f *c13FileSink) Write(p []byte) (int, error) { return f.overlapSink.Write(p) }
func (f *c13FileSink) Sync() error                 { return f.overlapSink.Sync() }

// c13View is a second WriteSyncer value in front of the same sink.
type c13View struct{ zapcore.WriteSyncer }

// overlapSink trips when two calls overlap.
type overlapSink struct {
	inUse    atomic.Int32
	overlaps atomic.Int32
	writes   atomic.Int64
	syncs    atomic.Int64
	nbytes   atomic.Int64
}

func (o *overlapSink) enter() {
	if o.inUse.Add(1) != 1 {
		o.overlaps.Add(1)
	}
	runtime.Gosched()
}
func (o *overlapSink) leave() { o.inUse.Add(-1) }
func (o *overlapSink) Write(p []byte) (int, error) {
	o.enter()
	defer o.leave()
	o.writes.Add(1)
	o.nbytes.Add(int64(len(p)))
	return len(p), nil
}
func (o *overlapSink) Sync() error { o.enter(); defer o.leave(); o.syncs.Add(1); return nil }

func propC13LockConcurrent(t *rapid.T) {
	g := rapid.IntRange(2, 8).Draw(t, "goroutines")
	per := rapid.IntRange(1, 60).Draw(t, "opsPerGoroutine")
	syncEvery := rapid.IntRange(1, 5).Draw(t, "syncEvery")
	dumpProgram(map[string]any{"property": "C13", "goroutines": g, "ops": per, "syncEvery": syncEvery})
	sink := &overlapSink{}
	// the sink as zap sees it: the bare type, or a type that has Lock/Unlock/RLock methods of its OWN (promoted
	// from an embedded mutex that guards something else, e.g. rotation) - which makes it a sync.Locker without
	// making its Write and Sync any safer
	var raw zapcore.WriteSyncer = sink
	shape := rapid.SampledFrom([]string{"plain", "plain", "embeds sync.Mutex", "embeds sync.RWMutex", "embeds *os.File"}).Draw(t, "sinkShape")
	switch shape {
	case "embeds *os.File":
		// a user's syncer that embeds *os.File (for Name, Fd, Stat ...) and has Write and Sync of its OWN - counting,
		// rotating: having a file descriptor somewhere inside makes nothing about those methods safe
		raw = &c13FileSink{overlapSink: sink}
	case "embeds sync.Mutex":
		raw = &c13MutexSink{overlapSink: sink}
	case "embeds sync.RWMutex":
		raw = &c13RWMutexSink{overlapSink: sink}
	}
	// what sits between the lock and the (not thread-safe) sink: nothing, the combined-syncer constructor, or a
	// BufferedWriteSyncer with a tiny buffer (writes larger than it go through, syncs flush): in every case all
	// calls that reach the sink are mutually exclusive
	wrap := rapid.SampledFrom([]string{"direct", "direct", "combine", "lock(buffered)", "combine(buffered)", "buffered(lock)",
		"lock(multi(lock,lock))", "combine(lock,lock)", "lock(multi(shared lock,other))", "combine(shared lock,other)", "buffered(shared lock)"}).Draw(t, "between")
	var lk zapcore.WriteSyncer
	var direct zapcore.WriteSyncer // a second way to the sink that some goroutines use instead (nil: none)
	perCall := 1                   // calls reaching the sink per call made
	var bws *zapcore.BufferedWriteSyncer
	// the buffer is tiny (every write goes through) or roomy (accepted bytes really wait in it - from the very first
	// Write on, which several goroutines may make at the same moment)
	bufSize := 2
	if strings.Contains(wrap, "buffered") {
		bufSize = rapid.SampledFrom([]int{2, 2, 64, 4096}).Draw(t, "bufferSize")
	}
	var accepted atomic.Int64
	switch wrap {
	case "lock(multi(lock,lock))", "combine(lock,lock)":
		// both members end in the same sink and each has a lock of its own: the lock around the group is what keeps
		// one caller's second member write apart from another caller's first
		a, b := zapcore.Lock(raw), zapcore.Lock(&c13View{raw})
		if wrap == "combine(lock,lock)" {
			lk = zap.CombineWriteSyncers(a, b)
		} else {
			lk = zapcore.Lock(zapcore.NewMultiWriteSyncer(a, b))
		}
		perCall = 2
	case "buffered(shared lock)":
		// the locked syncer under the buffer is ALSO written to directly (an error output, a second core): the buffer's
		// flushes, write-throughs and syncs go through that same lock
		shared := zapcore.Lock(raw)
		bws = &zapcore.BufferedWriteSyncer{WS: shared, Size: bufSize, FlushInterval: time.Hour}
		lk, direct = bws, shared
	case "lock(multi(shared lock,other))", "combine(shared lock,other)":
		// a locked syncer that is a member of a locked group AND used on its own: both ways hold ITS lock
		shared := zapcore.Lock(raw)
		other := zapcore.Lock(zapcore.AddSync(io.Discard))
		if wrap == "combine(shared lock,other)" {
			lk = zap.CombineWriteSyncers(shared, other)
		} else {
			lk = zapcore.Lock(zapcore.NewMultiWriteSyncer(other, shared))
		}
		direct = shared
	case "direct":
		lk = zapcore.Lock(raw)
	case "combine":
		lk = zap.CombineWriteSyncers(raw)
	case "lock(buffered)":
		bws = &zapcore.BufferedWriteSyncer{WS: raw, Size: bufSize, FlushInterval: time.Hour}
		lk = zapcore.Lock(bws)
	case "combine(buffered)":
		bws = &zapcore.BufferedWriteSyncer{WS: raw, Size: bufSize, FlushInterval: time.Hour}
		lk = zap.CombineWriteSyncers(bws)
	case "buffered(lock)":
		bws = &zapcore.BufferedWriteSyncer{WS: zapcore.Lock(raw), Size: bufSize, FlushInterval: time.Hour}
		lk = bws
	}
	var wg sync.WaitGroup
	for i := 0; i < g; i++ {
		wg.Add(1)
		go func(i int) {
			defer wg.Done()
			lk := lk
			if direct != nil && i%2 == 1 {
				lk = direct
			}
			for j := 0; j < per; j++ {
				if (i+j)%syncEvery == 0 {
					_ = lk.Sync()
				} else {
					if n, err := lk.Write([]byte("xyz")); err == nil {
						accepted.Add(int64(n))
					}
				}
			}
		}(i)
	}
	wg.Wait()
	if bws != nil {
		_ = bws.Stop()
	}
	if n := sink.overlaps.Load(); n != 0 {
		t.Fatalf("%d overlapping Write/Sync calls reached the sink (%s, sink %s)", n, wrap, shape)
	}
	if bws != nil && sink.nbytes.Load() != accepted.Load() {
		// every route ends in the one sink exactly once here: what Write reported as consumed (n, nil) has reached it
		// once the buffer is stopped - also the bytes of the very first Writes, made while the buffer set itself up
		t.Fatalf("Writes reported %d bytes consumed without error, the sink holds %d after Stop (%s, buffer size %d, sink %s)", accepted.Load(), sink.nbytes.Load(), wrap, bufSize, shape)
	}
	if bws == nil && sink.writes.Load()+sink.syncs.Load() != int64(g*per*perCall) {
		t.Fatalf("sink saw %d calls, want %d", sink.writes.Load()+sink.syncs.Load(), g*per*perCall)
	}
	statCase("C13", true, fmt.Sprintf("lock|%s|g%d per%d s%d", wrap, g, per/10, syncEvery), "concurrent Lock", "between lock and sink: "+wrap)
}

func TestC13Writers(t *testing.T)        { rapid.Check(t, propC13Writers) }
func TestC13Multi(t *testing.T)          { rapid.Check(t, propC13Multi) }
func TestC13Wrappers(t *testing.T)       { rapid.Check(t, propC13Wrappers) }
func TestC13LockConcurrent(t *testing.T) { rapid.Check(t, propC13LockConcurrent) }

func FuzzC13(f *testing.F) {
	f.Add([]byte("  hello \n"), byte(3))
	f.Add([]byte(""), byte(0))
	f.Fuzz(func(t *testing.T, p []byte, outcomes byte) {
		core, _ := observer.New(zapcore.DebugLevel)
		lg := zap.New(core)
		for name, w := range map[string]io.Writer{"zapio": &zapio.Writer{Log: lg}, "stdlog": zap.NewStdLog(lg).Writer(), "testing": zaptest.NewTestingWriter(&fakeTB{})} {
			if n, err := w.Write(p); n != len(p) || err != nil {
				t.Fatalf("%s.Write(%q) = (%d, %v)", name, p, n, err)
			}
		}
		a := &c13Sink{name: "a", outs: []c13Outcome{{N: []int{-1, 0, 1, -2}[outcomes&3], Err: outcomes&4 != 0, Sync: outcomes&8 != 0}}}
		b := &c13Sink{name: "b", outs: []c13Outcome{{N: []int{-1, 0, 1, -2}[(outcomes>>4)&3], Err: outcomes&64 != 0, Sync: outcomes&128 != 0}}}
		c13CheckMulti(t, []*c13Sink{a, b}, [][]byte{p}, "fuzz")
	})
}

func TestRegressC13(t *testing.T) {
	c13CombineNothing(t)
	// F10: the smallest count wins even when it is zero and comes first
	a := &c13Sink{name: "a", outs: []c13Outcome{{N: 0, Err: true}}}
	b := &c13Sink{name: "b", outs: []c13Outcome{{N: -1}}}
	n, err := zapcore.NewMultiWriteSyncer(a, b).Write([]byte("hello"))
	if n != 0 || err == nil {
		t.Fatalf("multi Write = (%d, %v), want (0, error)", n, err)
	}
	// F11: the std-log bridge reports the full length
	core, _ := observer.New(zapcore.DebugLevel)
	if n, err := zap.NewStdLog(zap.New(core)).Writer().Write([]byte("  hello \n")); n != 9 || err != nil {
		t.Fatalf("std-log bridge Write = (%d, %v), want (9, nil)", n, err)
	}
}
