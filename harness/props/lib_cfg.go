package props

// EncoderConfig and Entry generators, and the reference rendering of the
// entry metadata (written from the EncoderConfig documentation).

import (
	"encoding/json"
	"fmt"
	"io"
	"strings"
	"time"

	"go.uber.org/zap"
	"go.uber.org/zap/zapcore"
	"pgregory.net/rapid"
)

type cfgSpec struct {
	cfg       zapcore.EncoderConfig
	timeEnc   string // nil nop epoch millis nanos iso8601 rfc3339 rfc3339nano layout
	layout    string
	durEnc    string // nil nop seconds nanos millis string
	levelEnc  string // nil nop lower capital lowercolor capitalcolor
	callerEnc string // nil nop full short
	nameEnc   string // nil nop full
	reflEnc   string // default html nohtml (custom NewReflectedEncoder closures sharing one function literal)
}

// mkReflectedEncoder returns a custom NewReflectedEncoder. All closures come
// from this one function literal and differ only in captured state (noinline:
// an inlined copy of the literal would be a different function).
//
//go:noinline
func mkReflectedEncoder(escapeHTML bool) func(io.Writer) zapcore.ReflectedEncoder {
	return mkReflectedEncoderIndent(escapeHTML, "")
}

// mkReflectedEncoderIndent: the same func literal again (same code pointer), configured to indent - the kind of
// encoder a neighbouring human-readable logger uses. Its multi-line output is that logger's own business; it must
// never show up in the output of a logger configured with a non-indenting closure of the same literal.
//
//go:noinline
func mkReflectedEncoderIndent(escapeHTML bool, indent string) func(io.Writer) zapcore.ReflectedEncoder {
	return func(w io.Writer) zapcore.ReflectedEncoder {
		enc := json.NewEncoder(w)
		enc.SetEscapeHTML(escapeHTML)
		if indent != "" {
			enc.SetIndent("", indent)
		}
		return enc
	}
}

// neighbourUsesIndentingEncoder encodes one entry with a reflected field through an encoder whose configuration
// differs from cfg only in an indenting reflected-value encoder, and returns its buffer to the pool.
func neighbourUsesIndentingEncoder(cfg zapcore.EncoderConfig, console bool) {
	cfg.NewReflectedEncoder = mkReflectedEncoderIndent(false, "  ")
	enc := zapcore.NewJSONEncoder(cfg)
	if console {
		enc = zapcore.NewConsoleEncoder(cfg)
	}
	if buf, err := enc.EncodeEntry(zapcore.Entry{Message: "neighbour"}, []zapcore.Field{zap.Reflect("r", map[string]int{"a": 1})}); err == nil {
		buf.Free()
	}
}

func nopLevelEnc(zapcore.Level, zapcore.PrimitiveArrayEncoder)        {}
func nopTimeEnc(time.Time, zapcore.PrimitiveArrayEncoder)             {}
func nopDurEnc(time.Duration, zapcore.PrimitiveArrayEncoder)          {}
func nopCallerEnc(zapcore.EntryCaller, zapcore.PrimitiveArrayEncoder) {}
func nopNameEnc(string, zapcore.PrimitiveArrayEncoder)                {}

var hostileLayouts = []string{"2006 MST", "", "2006\"x\\", "15:04:05.000\t-07:00", "Jan _2 \n MST", "2006-01-02T15:04:05.999999999Z07:00:00", "plain text", "Monday, 02-Jan-06 15:04:05 MST \xff"}

// streamingReflEnc is a custom ReflectedEncoder that has already written part
// of its output when it discovers that a value cannot be encoded.
type streamingReflEnc struct{ w io.Writer }

func (e streamingReflEnc) Encode(v any) error {
	b, err := json.Marshal(v)
	if err != nil {
		_, _ = e.w.Write([]byte(`{"partial":[1,2,`))
		return err
	}
	// the output leaves through ONE small scratch buffer that is reused for every chunk and wiped as soon as Write
	// has returned (what bufio and hand-written streaming encoders do; io.Writer: "must not retain p")
	b = append(b, '\n')
	scratch := make([]byte, 16)
	for len(b) > 0 {
		n := copy(scratch, b)
		if _, err := e.w.Write(scratch[:n]); err != nil {
			return err
		}
		b = b[n:]
		for i := range scratch {
			scratch[i] = '#'
		}
	}
	return nil
}

type cfgOpts struct {
	builtinOnly      bool // C02: only sub-encoders whose representation is documented (built-in, nil, no-op)
	timeNeedsEncoder bool // D3: TimeKey != "" => EncodeTime != nil
}

func genCfgSpec(t *rapid.T, o cfgOpts) *cfgSpec {
	cs := &cfgSpec{}
	key := func(def string) string {
		return rapid.OneOf(rapid.Just(def), rapid.Just(def), rapid.Just(""), genStr(), rapid.SampledFrom([]string{"k", "a", "msg", "dup", "dup"})).Draw(t, def+"Key")
	}
	cs.cfg = zapcore.EncoderConfig{
		MessageKey: key("msg"), LevelKey: key("level"), TimeKey: key("ts"), NameKey: key("logger"),
		CallerKey: key("caller"), FunctionKey: key("func"), StacktraceKey: key("stacktrace"),
		SkipLineEnding:   rapid.IntRange(0, 5).Draw(t, "skipLineEnding") == 0,
		LineEnding:       rapid.SampledFrom([]string{"", "", "\n", "\r\n", "END", "\n\n", " "}).Draw(t, "lineEnding"),
		ConsoleSeparator: rapid.SampledFrom([]string{"", "", "\t", " ", "|", "--", "\"", "\n"}).Draw(t, "consoleSep"),
	}
	cs.levelEnc = rapid.SampledFrom([]string{"nil", "nop", "lower", "capital", "lowercolor", "capitalcolor", "lower", "capital"}).Draw(t, "levelEnc")
	cs.cfg.EncodeLevel = map[string]zapcore.LevelEncoder{"nil": nil, "nop": nopLevelEnc, "lower": zapcore.LowercaseLevelEncoder, "capital": zapcore.CapitalLevelEncoder,
		"lowercolor": zapcore.LowercaseColorLevelEncoder, "capitalcolor": zapcore.CapitalColorLevelEncoder}[cs.levelEnc]

	timeEncs := []string{"nil", "nop", "epoch", "millis", "nanos", "iso8601", "rfc3339", "rfc3339nano", "layout", "layout"}
	cs.timeEnc = rapid.SampledFrom(timeEncs).Draw(t, "timeEnc")
	if o.timeNeedsEncoder && cs.timeEnc == "nil" && cs.cfg.TimeKey != "" {
		cs.timeEnc = "epoch"
	}
	switch cs.timeEnc {
	case "nil":
	case "nop":
		cs.cfg.EncodeTime = nopTimeEnc
	case "epoch":
		cs.cfg.EncodeTime = zapcore.EpochTimeEncoder
	case "millis":
		cs.cfg.EncodeTime = zapcore.EpochMillisTimeEncoder
	case "nanos":
		cs.cfg.EncodeTime = zapcore.EpochNanosTimeEncoder
	case "iso8601":
		cs.cfg.EncodeTime = zapcore.ISO8601TimeEncoder
	case "rfc3339":
		cs.cfg.EncodeTime = zapcore.RFC3339TimeEncoder
	case "rfc3339nano":
		cs.cfg.EncodeTime = zapcore.RFC3339NanoTimeEncoder
	case "layout":
		cs.layout = rapid.OneOf(rapid.SampledFrom(hostileLayouts), genStr()).Draw(t, "layout")
		cs.cfg.EncodeTime = zapcore.TimeEncoderOfLayout(cs.layout)
	}
	cs.durEnc = rapid.SampledFrom([]string{"nil", "nop", "seconds", "nanos", "millis", "string"}).Draw(t, "durEnc")
	cs.cfg.EncodeDuration = map[string]zapcore.DurationEncoder{"nil": nil, "nop": nopDurEnc, "seconds": zapcore.SecondsDurationEncoder, "nanos": zapcore.NanosDurationEncoder,
		"millis": zapcore.MillisDurationEncoder, "string": zapcore.StringDurationEncoder}[cs.durEnc]
	cs.callerEnc = rapid.SampledFrom([]string{"nil", "nop", "full", "short", "short"}).Draw(t, "callerEnc")
	cs.cfg.EncodeCaller = map[string]zapcore.CallerEncoder{"nil": nil, "nop": nopCallerEnc, "full": zapcore.FullCallerEncoder, "short": zapcore.ShortCallerEncoder}[cs.callerEnc]
	cs.reflEnc = rapid.SampledFrom([]string{"default", "default", "default", "html", "nohtml", "stream"}).Draw(t, "reflectedEnc")
	switch cs.reflEnc {
	case "stream":
		cs.cfg.NewReflectedEncoder = func(w io.Writer) zapcore.ReflectedEncoder { return streamingReflEnc{w} }
	case "html":
		cs.cfg.NewReflectedEncoder = mkReflectedEncoder(true)
	case "nohtml":
		cs.cfg.NewReflectedEncoder = mkReflectedEncoder(false)
	}
	cs.nameEnc = rapid.SampledFrom([]string{"nil", "nop", "full"}).Draw(t, "nameEnc")
	cs.cfg.EncodeName = map[string]zapcore.NameEncoder{"nil": nil, "nop": nopNameEnc, "full": zapcore.FullNameEncoder}[cs.nameEnc]
	return cs
}

func (cs *cfgSpec) lineEnding() string {
	return effectiveLineEnding(cs.cfg.SkipLineEnding, cs.cfg.LineEnding)
}

func (cs *cfgSpec) shape() string {
	b := func(s string) byte {
		if s == "" {
			return '0'
		}
		return '1'
	}
	c := cs.cfg
	return fmt.Sprintf("k%c%c%c%c%c%c%c L%s T%s D%s C%s N%s", b(c.MessageKey), b(c.LevelKey), b(c.TimeKey), b(c.NameKey), b(c.CallerKey), b(c.FunctionKey), b(c.StacktraceKey),
		cs.levelEnc, cs.timeEnc, cs.durEnc, cs.callerEnc, cs.nameEnc)
}

func (cs *cfgSpec) unusual() bool {
	return cs.levelEnc == "nil" || cs.levelEnc == "nop" || cs.timeEnc == "nil" || cs.timeEnc == "nop" || cs.timeEnc == "layout" ||
		cs.durEnc == "nil" || cs.durEnc == "nop" || cs.callerEnc == "nil" || cs.callerEnc == "nop" || cs.nameEnc == "nop"
}

func genEntry(t *rapid.T) zapcore.Entry {
	e := zapcore.Entry{
		Level:      zapcore.Level(rapid.OneOf(rapid.Int8Range(-1, 5), rapid.Int8Range(-1, 5), rapid.Int8()).Draw(t, "entryLevel")),
		Time:       genTime().Draw(t, "entryTime"),
		LoggerName: rapid.OneOf(rapid.Just(""), rapid.Just("svc.sub"), genStr()).Draw(t, "loggerName"),
		Message:    genStr().Draw(t, "message"),
		Stack:      rapid.OneOf(rapid.Just(""), rapid.Just("main.f\n\t/x/y.go:1\nmain.main\n\t/x/y.go:9"), genStr()).Draw(t, "stack"),
	}
	if rapid.Bool().Draw(t, "callerDefined") {
		e.Caller = zapcore.EntryCaller{
			Defined: true,
			File: rapid.OneOf(rapid.SampledFrom([]string{"/home/u/go/src/pkg/file.go", "file.go", "pkg/file.go", "", "/", "a//b", "C:/x/y/z.go", "/a/b\n\"c/d.go"}), genStr(),
				// every shape of short path: 0-4 components, with or without a leading slash, empty components
				rapid.Custom(func(t *rapid.T) string {
					n := rapid.IntRange(0, 4).Draw(t, "pathComponents")
					parts := make([]string, n)
					for i := range parts {
						parts[i] = rapid.SampledFrom([]string{"app", "main.go", "a", "", ".", "x y", "é"}).Draw(t, "component")
					}
					p := strings.Join(parts, "/")
					if rapid.Bool().Draw(t, "absolute") {
						p = "/" + p
					}
					return p
				})).Draw(t, "callerFile"),
			Line:     rapid.OneOf(rapid.IntRange(0, 5000), rapid.Int()).Draw(t, "callerLine"),
			Function: rapid.OneOf(rapid.SampledFrom([]string{"", "main.main", "pkg.(*T).Method.func1"}), genStr()).Draw(t, "callerFunc"),
		}
	}
	return e
}

// ---- reference rendering of metadata (from the documentation) ----

var levelNames = map[int8]string{-1: "debug", 0: "info", 1: "warn", 2: "error", 3: "dpanic", 4: "panic", 5: "fatal"}
var levelColors = map[int8]int{-1: 35, 0: 34, 1: 33, 2: 31, 3: 31, 4: 31, 5: 31}

func refLevelName(l zapcore.Level, capital bool) string {
	n, ok := levelNames[int8(l)]
	if !ok {
		n = fmt.Sprintf("Level(%d)", int8(l))
	}
	if capital {
		n = strings.ToUpper(n)
	}
	return n
}

// refLevelText: text the configured level encoder produces ("" with ok=false: omitted).
func (cs *cfgSpec) refLevelText(l zapcore.Level, jsonFallback bool) (string, bool) {
	switch cs.levelEnc {
	case "nil":
		return "", false
	case "nop":
		if jsonFallback {
			return refLevelName(l, false), true // JSON falls back to the lower-case name to stay valid
		}
		return "", false
	case "lower":
		return refLevelName(l, false), true
	case "capital":
		return refLevelName(l, true), true
	case "lowercolor", "capitalcolor":
		col, ok := levelColors[int8(l)]
		if !ok {
			col = 31
		}
		return fmt.Sprintf("\x1b[%dm%s\x1b[0m", col, refLevelName(l, cs.levelEnc == "capitalcolor")), true
	}
	panic("levelEnc " + cs.levelEnc)
}

func refCallerFull(c zapcore.EntryCaller) string { return fmt.Sprintf("%s:%d", c.File, c.Line) }

// refCallerShort keeps only the leaf directory and the file name.
func refCallerShort(c zapcore.EntryCaller) string {
	parts := strings.Split(c.File, "/")
	if len(parts) <= 2 {
		return refCallerFull(c)
	}
	return fmt.Sprintf("%s/%s:%d", parts[len(parts)-2], parts[len(parts)-1], c.Line)
}

func (cs *cfgSpec) refCallerText(c zapcore.EntryCaller, jsonFallback bool) (string, bool) {
	switch cs.callerEnc {
	case "nil":
		return "", false
	case "nop":
		if jsonFallback {
			return refCallerFull(c), true
		}
		return "", false
	case "full":
		return refCallerFull(c), true
	case "short":
		return refCallerShort(c), true
	}
	panic("callerEnc " + cs.callerEnc)
}

// expectMetaJSON emits the expected metadata members of a JSON-encoded entry
// (before context and fields) into o, in the documented order.
func (cs *cfgSpec) expectMetaJSON(ent zapcore.Entry, o *objX) {
	c := cs.cfg
	if c.LevelKey != "" {
		if txt, ok := cs.refLevelText(ent.Level, true); ok {
			o.put(c.LevelKey, xstr(uni(txt)))
		}
	}
	if c.TimeKey != "" && !ent.Time.IsZero() {
		o.put(c.TimeKey, xtime(ent.Time))
	}
	if c.NameKey != "" && ent.LoggerName != "" {
		o.put(c.NameKey, xstr(uni(ent.LoggerName)))
	}
	if ent.Caller.Defined {
		if c.CallerKey != "" {
			if txt, ok := cs.refCallerText(ent.Caller, true); ok {
				o.put(c.CallerKey, xstr(uni(txt)))
			}
		}
		if c.FunctionKey != "" {
			o.put(c.FunctionKey, xstr(uni(ent.Caller.Function)))
		}
	}
	if c.MessageKey != "" {
		o.put(c.MessageKey, xstr(uni(ent.Message)))
	}
}

func (cs *cfgSpec) expectStackJSON(ent zapcore.Entry, o *objX) {
	if ent.Stack != "" && cs.cfg.StacktraceKey != "" {
		o.root.kids = append(o.root.kids, xkv{cs.cfg.StacktraceKey, xstr(uni(ent.Stack))})
	}
}

func renderEntry(e zapcore.Entry) string {
	return fmt.Sprintf("Entry{L=%d T=%s N=%q M=%q S=%q C=%v}", int8(e.Level), e.Time.Format(time.RFC3339Nano), clipS(e.LoggerName), clipS(e.Message), clipS(e.Stack), e.Caller.Defined)
}
