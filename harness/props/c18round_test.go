package props

import (
	"bytes"
	"context"
	"encoding/json"
	"errors"
	"fmt"
	"log/slog"
	"testing"
	"time"

	"go.uber.org/zap"
	"go.uber.org/zap/exp/zapslog"
	"go.uber.org/zap/zapcore"
	"go.uber.org/zap/zaptest/observer"
)

// Regress-style checks added in round 18 (operations re-expressed through other operations).

// c18EnabledIsAQuestion: slog asks Enabled before every Handle, and programs ask it to skip expensive work: the answer
// is "does the core enable the mapped level" however often it is asked, and asking changes nothing - not a sampler's
// budget either. The records handled afterwards are the ones the core would have handled anyway.
func c18EnabledIsAQuestion(t *testing.T) {
	for _, first := range []int{1, 3} {
		obs, logs := observer.New(zapcore.InfoLevel)
		core := zapcore.NewSamplerWithOptions(obs, time.Hour, first, 0)
		h := zapslog.NewHandler(core)
		for i := 0; i < 50; i++ {
			if !h.Enabled(context.Background(), slog.LevelInfo) || h.Enabled(context.Background(), slog.LevelDebug) {
				t.Fatalf("question %d: Enabled(info)=%v Enabled(debug)=%v over a core that enables info and above (sampler first=%d)", i+1, h.Enabled(context.Background(), slog.LevelInfo), h.Enabled(context.Background(), slog.LevelDebug), first)
			}
		}
		lg := slog.New(h)
		for i := 0; i < first+2; i++ {
			lg.Info("", "i", i) // the empty message has a budget like any other
			lg.Info("m", "i", i)
		}
		if got, want := logs.Len(), 2*first; got != want {
			t.Fatalf("after 50 questions and %d records of each of two messages the sampled core (first=%d, thereafter=0) was handed %d records, want %d", first+2, first, got, want)
		}
	}
	statCase("C18", true, "enabled-is-pure", "Enabled asked repeatedly over a sampling core")
}

// c11ProductionPresetSamples: NewProduction is documented as NewProductionConfig().Build(...): the preset logger
// samples 100 + every 100th per second and message like the logger built from the preset's configuration.
func c11ProductionPresetSamples(t *testing.T) {
	count := func(build func(opts ...zap.Option) (*zap.Logger, error)) int {
		var captured zapcore.Core
		_, err := build(zap.WrapCore(func(c zapcore.Core) zapcore.Core { captured = c; return c }), zap.ErrorOutput(&memSink{}))
		if err != nil || captured == nil {
			t.Fatalf("VERIF-INCONCLUSIVE building the preset: %v", err)
		}
		n := 0
		ts := time.Unix(1559347200, 0)
		for i := 0; i < 350; i++ {
			if ce := captured.Check(zapcore.Entry{Level: zapcore.InfoLevel, Message: "same message", Time: ts}, nil); ce != nil {
				n++
			}
		}
		return n
	}
	viaConfig := count(func(opts ...zap.Option) (*zap.Logger, error) { return zap.NewProductionConfig().Build(opts...) })
	viaPreset := count(zap.NewProduction)
	if viaConfig != 102 || viaPreset != viaConfig {
		t.Fatalf("350 identical entries in one second: NewProductionConfig().Build admits %d, NewProduction admits %d, want 102 both (the first 100, then the 200th and the 300th)", viaConfig, viaPreset)
	}
	statCase("C11", true, "production-preset", "NewProduction samples like its configuration")
}

// c13CombineNothing: "If no inputs are supplied, it returns a no-op WriteSyncer" - one that accepts what it is given.
func c13CombineNothing(t *testing.T) {
	ws := zap.CombineWriteSyncers()
	for _, p := range [][]byte{[]byte("line\n"), {}, []byte("x")} {
		if n, err := ws.Write(p); n != len(p) || err != nil {
			t.Fatalf("CombineWriteSyncers().Write(%d bytes) = (%d, %v), want (%d, nil)", len(p), n, err, len(p))
		}
	}
	if err := ws.Sync(); err != nil {
		t.Fatalf("CombineWriteSyncers().Sync() = %v", err)
	}
	bws := &zapcore.BufferedWriteSyncer{WS: ws, Size: 4}
	if _, err := bws.Write([]byte("longer than the buffer\n")); err != nil {
		t.Fatalf("a buffered syncer over CombineWriteSyncers(): %v", err)
	}
	if err := bws.Stop(); err != nil {
		t.Fatalf("a buffered syncer over CombineWriteSyncers(): Stop: %v", err)
	}
	statCase("C13", true, "combine-nothing", fmt.Sprintf("%T", ws))
}

// c07SyncThroughAnyDerivedLogger: Sync on any logger of a family reaches the destinations the family shares - also on a
// WithLazy child that has not logged yet (it differs from a With child in WHEN its fields are evaluated, in nothing
// else): what the parent has logged into a shared buffer is in the sink afterwards.
func c07SyncThroughAnyDerivedLogger(t *testing.T) {
	derive := map[string]func(*zap.Logger) *zap.Logger{
		"With":            func(l *zap.Logger) *zap.Logger { return l.With(zap.Int("a", 1)) },
		"WithLazy":        func(l *zap.Logger) *zap.Logger { return l.WithLazy(zap.Int("a", 1)) },
		"WithLazy twice":  func(l *zap.Logger) *zap.Logger { return l.WithLazy(zap.Int("a", 1)).WithLazy(zap.Int("b", 2)) },
		"Named":           func(l *zap.Logger) *zap.Logger { return l.Named("child") },
		"Sugar.WithLazy":  func(l *zap.Logger) *zap.Logger { return l.Sugar().WithLazy("a", 1).Desugar() },
		"WithOptions":     func(l *zap.Logger) *zap.Logger { return l.WithOptions(zap.Fields(zap.Int("a", 1))) },
		"With + WithLazy": func(l *zap.Logger) *zap.Logger { return l.With(zap.Int("a", 1)).WithLazy(zap.Int("b", 2)) },
	}
	for name, d := range derive {
		sink := &opSink{}
		bws := &zapcore.BufferedWriteSyncer{WS: sink, Size: 1 << 20, FlushInterval: time.Hour}
		parent := zap.New(zapcore.NewCore(zapcore.NewJSONEncoder(zapcore.EncoderConfig{MessageKey: "m"}), bws, zapcore.DebugLevel))
		child := d(parent)
		parent.Info("logged by the parent")
		if total, _, _, _ := sink.state(); total != 0 {
			t.Fatalf("%s: VERIF-INCONCLUSIVE the buffer did not hold the entry back", name)
		}
		if err := child.Sync(); err != nil {
			t.Fatalf("%s: child.Sync: %v", name, err)
		}
		total, _, syncs, last := sink.state()
		if total == 0 || syncs == 0 || last != "sync" {
			t.Fatalf("Sync on a child derived through %s (not used yet) left the parent's entry in the shared buffer: %d bytes in the sink, %d sink syncs, last sink operation %q", name, total, syncs, last)
		}
		_ = bws.Stop()
	}
	statCase("C07", true, "sync-through-derived", "Sync through derived loggers")
}

// c10BlankErrorTextStillReported: a marshaler's failure is reported in a '<key>Error' field whatever the error's text
// is - also when it is empty.
func c10BlankErrorTextStillReported(t *testing.T) {
	blank := zapcore.ObjectMarshalerFunc(func(e zapcore.ObjectEncoder) error {
		e.AddString("partial", "x")
		return errors.New("")
	})
	blankArr := zapcore.ArrayMarshalerFunc(func(a zapcore.ArrayEncoder) error { a.AppendInt(1); return errors.New("") })
	sink := &memSink{}
	lg := zap.New(zapcore.NewCore(zapcore.NewJSONEncoder(zapcore.EncoderConfig{MessageKey: "m"}), sink, zapcore.DebugLevel), zap.ErrorOutput(&memSink{}))
	lg.Info("call site", zap.Object("o", blank), zap.Array("a", blankArr), zap.Int("after", 1))
	lg.With(zap.Object("o", blank)).Info("context", zap.Int("after", 1))
	lg.Info("nested", zap.Dict("d", zap.Object("o", blank), zap.Int("after", 1)))
	want := []string{`"oError":""`, `"aError":""`, `"after":1`}
	for i, w := range sink.writes {
		var m map[string]interface{}
		if err := json.Unmarshal(w, &m); err != nil {
			t.Fatalf("line %d is not JSON: %q", i, w)
		}
		for _, frag := range want {
			if i > 0 && frag == `"aError":""` {
				continue
			}
			if !bytes.Contains(w, []byte(frag)) {
				t.Fatalf("a marshaler failed with an error whose text is empty: line %d lacks %s: %s", i, frag, w)
			}
		}
	}
	statCase("C10", true, "blank-error-text", "failure with an empty error text")
}

// c07FieldsSurviveLevelChangesAtDerivation: deriving a logger adds its fields whatever the levels underneath happen to
// be at that moment - also below IncreaseLevel over an AtomicLevel that is, just then, higher than the increased level.
func c07FieldsSurviveLevelChangesAtDerivation(t *testing.T) {
	al := zap.NewAtomicLevelAt(zapcore.DebugLevel)
	obs, logs := observer.New(al)
	base := zap.New(obs).WithOptions(zap.IncreaseLevel(zapcore.WarnLevel))
	al.SetLevel(zapcore.ErrorLevel)
	children := map[string]*zap.Logger{
		"With":        base.With(zap.Int("f", 1)),
		"WithLazy":    base.WithLazy(zap.Int("f", 1)),
		"Fields":      base.WithOptions(zap.Fields(zap.Int("f", 1))),
		"Sugar.With":  base.Sugar().With("f", 1).Desugar(),
		"With x2":     base.With(zap.Int("e", 0)).With(zap.Int("f", 1)),
		"Named.With":  base.Named("n").With(zap.Int("f", 1)),
		"WithLazy x2": base.WithLazy(zap.Int("e", 0)).WithLazy(zap.Int("f", 1)),
	}
	al.SetLevel(zapcore.DebugLevel)
	for name, c := range children {
		logs.TakeAll()
		c.Warn("after the level came back")
		es := logs.TakeAll()
		if len(es) != 1 {
			t.Fatalf("%s: %d entries", name, len(es))
		}
		if _, ok := es[0].ContextMap()["f"]; !ok {
			t.Fatalf("a logger derived through %s while the AtomicLevel under IncreaseLevel(warn) stood at error has lost the fields of that derivation: %v", name, es[0].ContextMap())
		}
	}
	statCase("C07", true, "fields-survive-level-changes", "derivation while the level underneath is higher")
}
