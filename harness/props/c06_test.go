package props

// C06 — Panic and Fatal always terminate, after the entry is written and flushed.

import (
	"bytes"
	"encoding/json"
	"fmt"
	"log"
	"os"
	"os/exec"
	"reflect"
	"sort"
	"strings"
	"sync"
	"syscall"
	"testing"
	"time"

	"go.uber.org/zap"
	"go.uber.org/zap/internal/exit"
	"go.uber.org/zap/zapcore"
	"go.uber.org/zap/zapgrpc"
	"go.uber.org/zap/zaptest/observer"
	"pgregory.net/rapid"
)

// syncSink records bytes and, at each Sync, how much had been written.
type syncSink struct {
	mu        sync.Mutex
	buf       bytes.Buffer
	syncedLen int
	syncs     int
	failWrite bool  // every Write fails (nothing is stored)
	failSync  bool  // every Sync reports an error (after having synced)
	syncErr   error // the error reported then (nil = a generic one)
	attempts  int
}

func (s *syncSink) Write(p []byte) (int, error) {
	s.mu.Lock()
	defer s.mu.Unlock()
	s.attempts++
	if s.failWrite {
		return 0, fmt.Errorf("sink write failed")
	}
	return s.buf.Write(p)
}
func (s *syncSink) Sync() error {
	s.mu.Lock()
	defer s.mu.Unlock()
	s.syncedLen = s.buf.Len()
	s.syncs++
	if s.failSync {
		if s.syncErr != nil {
			return s.syncErr
		}
		return fmt.Errorf("sink sync failed")
	}
	return nil
}
func (s *syncSink) snapshot() (string, int) {
	s.mu.Lock()
	defer s.mu.Unlock()
	return s.buf.String(), s.syncedLen
}

type c06Config struct {
	Core      string // json tee teeobs nop sampleout increase
	Threshold int
	Dev       bool
	Hook      string // default nil noop goexit custom
	Level     string // dpanic panic fatal
	Front     string
	Msg       string // message logged (std-log front ends trim surrounding white space)
	BufSize   int    // BufferedWriteSyncer size (0 = 1 MiB, -1 = no buffering: the core writes straight to the sink)
	Fault     string // "" | writeerr | syncerr | corefail-before | corefail-after: a failing destination must not prevent termination
	Before    []int  // lengths of ordinary entries logged before the terminal one (they sit in the buffer)
	Family    string // "" | sibling-hooks | child-hooks | parent-hooks: another member of the logger family is derived with different terminal hooks (and used) first
	Earlier   int    // crash-level entries (same level, through a sibling whose terminal hooks only record) logged earlier through the same core
	StopFirst bool   // the BufferedWriteSyncer is stopped once BEFORE it is first used (clean-up code run early, a pool of syncers recycled)
	Root      string // "" (zap.New(core, ...)) | NewNop+WrapCore | New(nil)+WrapCore | Sugar.WithOptions | split: equivalent ways to arrive at the same logger
	SyncErr   string // with Fault syncerr: the error value Sync reports: "" (generic) | EINVAL | ENOTTY | PathError
	Deriv     string // "" | with | withlazy | named | hooks | hooks+withlazy | hooks+with | withlazy+hooks: how the logger under test is derived from the one built on the core
}

// c06FailCore accepts every entry and fails to write it.
type c06FailCore struct{ zapcore.LevelEnabler }

func (c c06FailCore) With([]zapcore.Field) zapcore.Core { return c }
func (c c06FailCore) Check(e zapcore.Entry, ce *zapcore.CheckedEntry) *zapcore.CheckedEntry {
	if c.Enabled(e.Level) {
		return ce.AddCore(e, c)
	}
	return ce
}
func (c c06FailCore) Write(zapcore.Entry, []zapcore.Field) error {
	return fmt.Errorf("core write failed")
}
func (c c06FailCore) Sync() error { return fmt.Errorf("core sync failed") }

func (c c06Config) msg() string {
	if c.Msg == "" {
		return c06Msg
	}
	return c.Msg
}

// loggedMsg is the message the entry must carry for the given front end.
func (c c06Config) loggedMsg() string {
	m := c.msg()
	if m == "<empty>" {
		m = ""
	}
	if strings.HasPrefix(c.Front, "NewStdLogAt") || strings.HasPrefix(c.Front, "RedirectStdLogAt") {
		return strings.TrimSpace(m)
	}
	return m
}

func (c c06Config) bufSize() int {
	if c.BufSize == 0 {
		return 1 << 20
	}
	return c.BufSize
}

var c06LevelOf = map[string]zapcore.Level{"dpanic": zapcore.DPanicLevel, "panic": zapcore.PanicLevel, "fatal": zapcore.FatalLevel}

const c06Msg = "MSG-terminal"

// c06FrontEnds lists every front end able to log at the given terminal level.
// The returned restore function undoes global state.
func c06FrontEnds(lg *zap.Logger, level string, msgs ...string) (map[string]func(), func()) {
	lvl := c06LevelOf[level]
	c06Msg := c06Msg
	if len(msgs) > 0 {
		c06Msg = msgs[0]
		if c06Msg == "<empty>" {
			c06Msg = ""
		}
	}
	sg := lg.Sugar()
	fe := map[string]func(){}
	fe["Logger.Log"] = func() { lg.Log(lvl, c06Msg) }
	fe["Logger.Check+Write"] = func() { lg.Check(lvl, c06Msg).Write() }
	// fields from a scratch slice the caller recycles when it regains control (in a deferred function, since the
	// call may not return): what an observing core recorded of the terminal entry stays what was logged
	fe["Logger.Log(scratch fields)"] = func() {
		fs := []zap.Field{zap.Int("scratch", 1), zap.String("s", "v")}
		defer func() {
			for i := range fs {
				fs[i] = zap.String("recycled", "scratch slice")
			}
		}()
		lg.Log(lvl, c06Msg, fs...)
	}
	fe["Sugar.Log"] = func() { sg.Log(lvl, c06Msg) }
	fe["Sugar.Logf"] = func() { sg.Logf(lvl, "%s", c06Msg) }
	fe["Sugar.Logw"] = func() { sg.Logw(lvl, c06Msg, "k", 1) }
	fe["Sugar.Logln"] = func() { sg.Logln(lvl, c06Msg) }
	switch level {
	case "dpanic":
		fe["Logger.DPanic"] = func() { lg.DPanic(c06Msg) }
		fe["Sugar.DPanic"] = func() { sg.DPanic(c06Msg) }
		fe["Sugar.DPanicf"] = func() { sg.DPanicf("%s", c06Msg) }
		fe["Sugar.DPanicw"] = func() { sg.DPanicw(c06Msg, "k", 1) }
		fe["Sugar.DPanicln"] = func() { sg.DPanicln(c06Msg) }
	case "panic":
		fe["Logger.Panic"] = func() { lg.Panic(c06Msg) }
		fe["Sugar.Panic"] = func() { sg.Panic(c06Msg) }
		fe["Sugar.Panicf"] = func() { sg.Panicf("%s", c06Msg) }
		fe["Sugar.Panicw"] = func() { sg.Panicw(c06Msg, "k", 1) }
		fe["Sugar.Panicln"] = func() { sg.Panicln(c06Msg) }
	case "fatal":
		fe["Logger.Fatal"] = func() { lg.Fatal(c06Msg) }
		fe["Sugar.Fatal"] = func() { sg.Fatal(c06Msg) }
		fe["Sugar.Fatalf"] = func() { sg.Fatalf("%s", c06Msg) }
		fe["Sugar.Fatalw"] = func() { sg.Fatalw(c06Msg, "k", 1) }
		fe["Sugar.Fatalln"] = func() { sg.Fatalln(c06Msg) }
		g := zapgrpc.NewLogger(lg)
		fe["zapgrpc.Fatal"] = func() { g.Fatal(c06Msg) }
		fe["zapgrpc.Fatalf"] = func() { g.Fatalf("%s", c06Msg) }
		fe["zapgrpc.Fatalln"] = func() { g.Fatalln(c06Msg) }
	}
	if std, err := zap.NewStdLogAt(lg, lvl); err == nil {
		fe["NewStdLogAt.Print"] = func() { std.Print(c06Msg) }
		fe["NewStdLogAt.Printf"] = func() { std.Printf("%s", c06Msg) }
		fe["NewStdLogAt.Println"] = func() { std.Println(c06Msg) }
		fe["NewStdLogAt.Output"] = func() { _ = std.Output(1, c06Msg) }
	}
	var restores []func()
	fe["RedirectStdLogAt+log.Print"] = func() {
		undo, err := zap.RedirectStdLogAt(lg, lvl)
		if err != nil {
			panic("RedirectStdLogAt: " + err.Error())
		}
		restores = append(restores, undo)
		log.Print(c06Msg)
	}
	fe["ReplaceGlobals+L"] = func() {
		restores = append(restores, zap.ReplaceGlobals(lg))
		zap.L().Log(lvl, c06Msg)
	}
	fe["ReplaceGlobals+S"] = func() {
		restores = append(restores, zap.ReplaceGlobals(lg))
		zap.S().Logw(lvl, c06Msg)
	}
	return fe, func() {
		for i := len(restores) - 1; i >= 0; i-- {
			restores[i]()
		}
	}
}

func c06FrontNames(level string) []string {
	fe, _ := c06FrontEnds(zap.NewNop(), level)
	names := make([]string, 0, len(fe))
	for n := range fe {
		names = append(names, n)
	}
	sort.Strings(names)
	return names
}

type c06Env struct {
	under *syncSink
	bws   *zapcore.BufferedWriteSyncer
	logs  *observer.ObservedLogs
	core  zapcore.Core
}

// c06CoreHookRuns counts the runs of the core-level hook of the tee-hooked-* compositions during one case.
var c06CoreHookRuns int

func c06Core(cfg c06Config, ws zapcore.WriteSyncer) (zapcore.Core, *observer.ObservedLogs) {
	th := zapcore.Level(cfg.Threshold)
	enab := zap.LevelEnablerFunc(func(l zapcore.Level) bool { return l >= th })
	jc := zapcore.NewCore(zapcore.NewJSONEncoder(zapcore.EncoderConfig{MessageKey: "m", LevelKey: "l", EncodeLevel: zapcore.LowercaseLevelEncoder}), ws, enab)
	oc, logs := observer.New(enab)
	switch cfg.Fault {
	case "corefail-before":
		jc = zapcore.NewTee(c06FailCore{enab}, jc)
	case "corefail-after":
		jc = zapcore.NewTee(jc, c06FailCore{enab})
	}
	switch cfg.Core {
	case "json":
		return jc, nil
	case "tee":
		return zapcore.NewTee(jc, oc), logs
	case "teeobs":
		return zapcore.NewTee(oc, jc), logs
	case "tee-hooked-last", "tee-hooked-first":
		// the observing branch is a HOOKED core (an alerting hook, say): wherever it is listed, it is an accepting core
		// like any other and its hooks run for every entry it accepts - the final one included
		hc := zapcore.RegisterHooks(oc, func(zapcore.Entry) error { c06CoreHookRuns++; return nil })
		if cfg.Core == "tee-hooked-first" {
			return zapcore.NewTee(hc, jc), logs
		}
		return zapcore.NewTee(jc, hc), logs
	case "nop":
		return zapcore.NewNopCore(), nil
	case "sampleout":
		return zapcore.NewSamplerWithOptions(zapcore.NewTee(jc, oc), time.Hour, 0, 0), logs
	case "increase":
		all := zapcore.NewCore(zapcore.NewJSONEncoder(zapcore.EncoderConfig{MessageKey: "m", LevelKey: "l", EncodeLevel: zapcore.LowercaseLevelEncoder}), ws, zapcore.Level(-128))
		c, err := zapcore.NewIncreaseLevelCore(all, enab)
		if err != nil {
			panic(err)
		}
		return c, nil
	}
	panic("core " + cfg.Core)
}

type recHook struct {
	mu     sync.Mutex
	n      int
	under  *syncSink
	seen   string
	synced int
	obsLen int
	logs   *observer.ObservedLogs
	entry  string // level|message of the entry the hook was handed
}

func (h *recHook) OnWrite(ce *zapcore.CheckedEntry, _ []zapcore.Field) {
	h.mu.Lock()
	defer h.mu.Unlock()
	h.n++
	c08Audit.Info("terminal hook invoked") // hooks may log before looking at their entry
	h.entry = fmt.Sprintf("%v|%s", ce.Level, ce.Message)
	h.seen, h.synced = h.under.snapshot()
	if h.logs != nil {
		h.obsLen = h.logs.Len()
	}
}

// c06ZeroValueHook forwards to the recording hook of the current case (cases are serialised by c06Mu).
type c06ZeroValueHook struct{}

var c06ZeroHookTarget *recHook

func (c06ZeroValueHook) OnWrite(ce *zapcore.CheckedEntry, fs []zapcore.Field) {
	c06ZeroHookTarget.OnWrite(ce, fs)
}

var c06Mu sync.Mutex // exit stub and globals are process-wide

func propC06(t *rapid.T) {
	cfg := c06Config{
		Core:      rapid.SampledFrom([]string{"json", "tee", "teeobs", "nop", "sampleout", "increase", "tee-hooked-last", "tee-hooked-first"}).Draw(t, "core"),
		Threshold: rapid.IntRange(-1, 7).Draw(t, "threshold"),
		Dev:       rapid.Bool().Draw(t, "development"),
		Hook:      rapid.SampledFrom([]string{"default", "nil", "noop", "goexit", "custom", "custom-value"}).Draw(t, "hook"),
		Level:     rapid.SampledFrom([]string{"dpanic", "panic", "fatal"}).Draw(t, "level"),
	}
	names := c06FrontNames(cfg.Level)
	cfg.Front = rapid.SampledFrom(names).Draw(t, "frontEnd")
	cfg.Msg = rapid.SampledFrom([]string{"", "", "<empty>", " ", "\n", "  padded  ", "two\nlines", strings.Repeat("long ", 300)}).Draw(t, "message")
	cfg.BufSize = rapid.SampledFrom([]int{0, 0, 16, 256, 4096, -1}).Draw(t, "bufferSize")
	cfg.Fault = rapid.SampledFrom([]string{"", "", "", "writeerr", "syncerr", "corefail-before", "corefail-after"}).Draw(t, "fault")
	if cfg.Fault == "" {
		nb := rapid.IntRange(0, 3).Draw(t, "entriesBefore")
		for i := 0; i < nb; i++ {
			cfg.Before = append(cfg.Before, rapid.SampledFrom([]int{0, 1, 10, 40, 100, 200, 1000, 5000}).Draw(t, "beforeLen"))
		}
	}
	if cfg.Fault == "" || cfg.Fault == "syncerr" {
		cfg.Earlier = rapid.SampledFrom([]int{0, 0, 1, 2}).Draw(t, "earlierCrashLevelEntries")
	}
	if cfg.Fault == "syncerr" {
		cfg.SyncErr = rapid.SampledFrom([]string{"", "EINVAL", "ENOTTY", "PathError"}).Draw(t, "syncErrValue")
	}
	cfg.Root = rapid.SampledFrom([]string{"", "", "NewNop+WrapCore", "New(nil)+WrapCore", "Sugar.WithOptions", "split"}).Draw(t, "root")
	cfg.StopFirst = cfg.BufSize >= 0 && rapid.IntRange(0, 3).Draw(t, "syncerStoppedBeforeFirstUse") == 0
	cfg.Family = rapid.SampledFrom([]string{"", "", "sibling-hooks", "child-hooks", "parent-hooks"}).Draw(t, "family")
	cfg.Deriv = rapid.SampledFrom([]string{"", "", "with", "withlazy", "named", "hooks", "hooks+withlazy", "hooks+with", "withlazy+hooks"}).Draw(t, "derivation")
	c06RunInProcess(t, cfg)
	enabled := c06Enabled(cfg)
	nt := !enabled || cfg.Hook == "nil" || cfg.Hook == "noop" || (enabled && cfg.Core != "nop")
	labels := []string{"front " + cfg.Front, "hook " + cfg.Hook, "core " + cfg.Core}
	if cfg.Fault != "" {
		labels = append(labels, "failing destination: "+cfg.Fault)
	}
	if !enabled {
		labels = append(labels, "entry not written (disabled/no-op/sampled out)")
	}
	statCase("C06", nt, fmt.Sprintf("%+v", cfg), labels...)
	if nt {
		statSample("C06", func() string { return fmt.Sprintf("%+v", cfg) })
	}
}

func c06Enabled(cfg c06Config) bool {
	return int(c06LevelOf[cfg.Level]) >= cfg.Threshold && cfg.Core != "nop" && cfg.Core != "sampleout"
}

func c06RunInProcess(t interface{ Fatalf(string, ...any) }, cfg c06Config) {
	c06Mu.Lock()
	defer c06Mu.Unlock()
	under := &syncSink{failWrite: cfg.Fault == "writeerr", failSync: cfg.Fault == "syncerr"}
	// what fsync reports for terminals and pipes: still an attempt that has to be repeated for every later entry
	switch cfg.SyncErr {
	case "EINVAL":
		under.syncErr = syscall.EINVAL
	case "ENOTTY":
		under.syncErr = syscall.ENOTTY
	case "PathError":
		under.syncErr = &os.PathError{Op: "sync", Path: "/dev/stderr", Err: syscall.EINVAL}
	}
	var ws zapcore.WriteSyncer = under
	if cfg.BufSize >= 0 {
		bws := &zapcore.BufferedWriteSyncer{WS: under, Size: cfg.bufSize(), FlushInterval: time.Hour}
		if cfg.StopFirst {
			_ = bws.Stop() // nothing has been started yet: stopping it now is a no-op that leaves no trace
		}
		defer bws.Stop()
		ws = bws
	}
	c06CoreHookRuns = 0
	core, logs := c06Core(cfg, ws)
	opts := []zap.Option{zap.ErrorOutput(&memSink{})}
	if cfg.Dev {
		opts = append(opts, zap.Development())
	}
	hook := &recHook{under: under, logs: logs}
	switch cfg.Hook {
	case "nil":
		opts = append(opts, zap.WithFatalHook(nil), zap.WithPanicHook(nil))
	case "noop":
		opts = append(opts, zap.WithFatalHook(zapcore.WriteThenNoop), zap.WithPanicHook(zapcore.WriteThenNoop))
	case "goexit":
		opts = append(opts, zap.WithFatalHook(zapcore.WriteThenGoexit), zap.WithPanicHook(zapcore.WriteThenGoexit))
	case "custom":
		opts = append(opts, zap.WithFatalHook(hook), zap.WithPanicHook(hook))
	case "custom-value":
		// a hook implemented on a VALUE type whose value is the zero value of that type (an empty struct with a
		// value receiver): as much a hook as a pointer to a struct
		c06ZeroHookTarget = hook
		opts = append(opts, zap.WithFatalHook(c06ZeroValueHook{}), zap.WithPanicHook(c06ZeroValueHook{}))
	}
	var lg *zap.Logger
	switch cfg.Root {
	case "NewNop+WrapCore":
		lg = zap.NewNop().WithOptions(append([]zap.Option{zap.WrapCore(func(zapcore.Core) zapcore.Core { return core })}, opts...)...)
	case "New(nil)+WrapCore":
		lg = zap.New(nil).WithOptions(append([]zap.Option{zap.WrapCore(func(zapcore.Core) zapcore.Core { return core })}, opts...)...)
	case "Sugar.WithOptions":
		// the sugared twin of Logger.WithOptions: the options mean the same there
		lg = zap.New(core).Sugar().WithOptions(opts...).Desugar()
	case "split":
		// the same options, one WithOptions call each, alternating between the two kinds of logger
		lg = zap.New(core)
		for i, o := range opts {
			if i%2 == 0 {
				lg = lg.Sugar().WithOptions(o).Desugar()
			} else {
				lg = lg.WithOptions(o)
			}
		}
	default:
		lg = zap.New(core, opts...)
	}
	// other members of the logger family get DIFFERENT terminal hooks (and are used): the logger under test keeps its own
	otherHook := &recHook{under: under}
	switch cfg.Family {
	case "sibling-hooks":
		sib := lg.WithOptions(zap.WithFatalHook(otherHook), zap.WithPanicHook(otherHook))
		_ = sib.Check(zapcore.Level(-5), "unused")
	case "child-hooks":
		child := lg.With(zap.Int("c", 1)).WithOptions(zap.WithFatalHook(zapcore.WriteThenGoexit), zap.WithPanicHook(otherHook))
		_ = child.Named("x")
	case "parent-hooks":
		// the logger under test is itself derived; afterwards the parent is re-derived with other hooks
		parent := lg
		lg = parent.Named("kid")
		_ = parent.WithOptions(zap.WithFatalHook(otherHook), zap.WithPanicHook(otherHook), zap.OnFatal(zapcore.WriteThenGoexit))
	}
	entryHook := func(zapcore.Entry) error { return nil }
	switch cfg.Deriv {
	case "with":
		lg = lg.With(zap.Int("ctx", 1))
	case "withlazy":
		lg = lg.WithLazy(zap.Int("ctx", 1))
	case "named":
		lg = lg.Named("derived")
	case "hooks":
		lg = lg.WithOptions(zap.Hooks(entryHook))
	case "hooks+withlazy":
		lg = lg.WithOptions(zap.Hooks(entryHook)).WithLazy(zap.Int("ctx", 1))
	case "hooks+with":
		lg = lg.WithOptions(zap.Hooks(entryHook)).With(zap.Int("ctx", 1))
	case "withlazy+hooks":
		lg = lg.WithLazy(zap.Int("ctx", 1)).WithOptions(zap.Hooks(entryHook))
	}
	for i, n := range cfg.Before {
		lg.Info(fmt.Sprintf("before-%d-%s", i, strings.Repeat("b", n)))
	}
	// earlier entries at the crash level itself that did not end the program (a recovered panic, a hook that only
	// records, DPanic outside development): whatever they taught the core about its sink, the final entry is
	// written and synced like the first
	earlierHook := &recHook{under: under}
	for i := 0; i < cfg.Earlier; i++ {
		sib := lg.WithOptions(zap.WithFatalHook(earlierHook), zap.WithPanicHook(earlierHook))
		sib.Log(c06LevelOf[cfg.Level], fmt.Sprintf("earlier-crash-%d", i))
	}
	fes, restore := c06FrontEnds(lg, cfg.Level, cfg.msg())
	f := fes[cfg.Front]
	lvl := c06LevelOf[cfg.Level]
	wantTerm := lvl != zapcore.DPanicLevel || cfg.Dev

	var panicked any
	returned, goexited := false, false
	stub := exit.Stub()
	done := make(chan struct{})
	go func() {
		defer close(done)
		defer func() {
			panicked = recover()
			if panicked == nil && !returned {
				goexited = true
			}
			if panicked != nil {
				// what a recovery handler typically does next: log through the standard library. The value that was
				// panicked with must not change under its feet (the log package recycles its line buffers).
				// (messages no longer than the original, so that a recycled buffer is overwritten in place rather than regrown)
				noise := log.New(&memSink{}, "", 0) // (not io.Discard: the log package skips formatting for it)
				n := len(fmt.Sprint(panicked))
				for _, k := range []int{n, n / 2, 1, n} {
					noise.Print(strings.Repeat("Z", k))
				}
			}
		}()
		f()
		returned = true
	}()
	<-done
	stub.Unstub()
	restore()
	sinkNow, syncedNow := under.snapshot()
	obsNow := 0
	if logs != nil {
		obsNow = logs.Len()
	}

	desc := fmt.Sprintf("%+v", cfg)
	if strings.HasPrefix(cfg.Core, "tee-hooked") && c06CoreHookRuns != obsNow {
		t.Fatalf("%s: the hooked branch of the tee accepted %d entries and its hooks ran %d times", desc, obsNow, c06CoreHookRuns)
	}
	// which action is expected
	kind := "none"
	if wantTerm {
		switch cfg.Hook {
		case "custom", "custom-value":
			kind = "custom"
		case "goexit":
			kind = "goexit"
		default:
			if lvl == zapcore.FatalLevel {
				kind = "exit"
			} else {
				kind = "panic"
			}
		}
	}
	sinkAt, syncedAt, obsAt := sinkNow, syncedNow, obsNow
	switch kind {
	case "none":
		if panicked != nil || stub.Exited || goexited || hook.n != 0 {
			t.Fatalf("%s: unexpected terminal action (panic=%v exit=%v goexit=%v hook=%d) for DPanic outside development", desc, panicked, stub.Exited, goexited, hook.n)
		}
	case "custom":
		if hook.n != 1 {
			t.Fatalf("%s: custom terminal hook ran %d times, want exactly 1", desc, hook.n)
		}
		if panicked != nil || stub.Exited || goexited {
			t.Fatalf("%s: default action ran although a custom hook is configured (panic=%v exit=%v goexit=%v)", desc, panicked, stub.Exited, goexited)
		}
		sinkAt, syncedAt, obsAt = hook.seen, hook.synced, hook.obsLen
		if want := fmt.Sprintf("%v|%s", lvl, cfg.loggedMsg()); hook.entry != want {
			t.Fatalf("%s: the custom hook was handed entry %q, the logged entry is %q", desc, clipS(hook.entry), clipS(want))
		}
	case "goexit":
		if !goexited || stub.Exited {
			t.Fatalf("%s: goroutine was not terminated by Goexit (returned=%v panic=%v exit=%v)", desc, returned, panicked, stub.Exited)
		}
	case "exit":
		if !stub.Exited || stub.Code != 1 {
			t.Fatalf("%s: Fatal did not exit with status 1 (exited=%v code=%d panic=%v)", desc, stub.Exited, stub.Code, panicked)
		}
		if panicked != nil {
			t.Fatalf("%s: Fatal panicked: %v", desc, panicked)
		}
	case "panic":
		if panicked == nil {
			t.Fatalf("%s: no panic (returned=%v exit=%v)", desc, returned, stub.Exited)
		}
		if fmt.Sprint(panicked) != cfg.loggedMsg() {
			t.Fatalf("%s: panic value %q, want the message %q", desc, fmt.Sprint(panicked), cfg.loggedMsg())
		}
		if stub.Exited {
			t.Fatalf("%s: Panic level called exit", desc)
		}
	}
	mj, _ := json.Marshal(cfg.loggedMsg())
	line := fmt.Sprintf("{\"l\":%q,\"m\":%s", lvl.String(), mj)
	nBefore := 0
	if cfg.Threshold <= 0 {
		nBefore = len(cfg.Before)
	}
	nEarlier := cfg.Earlier // same level as the final entry: enabled exactly when it is
	if otherHook.n != 0 {
		t.Fatalf("%s: a terminal hook configured on ANOTHER logger of the family ran %d times", desc, otherHook.n)
	}
	if cfg.Front == "Logger.Log(scratch fields)" && logs != nil && c06Enabled(cfg) {
		if es := logs.All(); len(es) > 0 {
			got := ""
			for _, f := range es[len(es)-1].Context {
				got += f.Key + " "
			}
			if !strings.Contains(got, "scratch s ") || strings.Contains(got, "recycled") {
				t.Fatalf("%s: the observing core's record of the terminal entry changed when the caller recycled its field slice: fields now %q", desc, got)
			}
		}
	}
	if c06Enabled(cfg) && cfg.Fault == "writeerr" {
		// the sink rejects every write: the entry cannot be there, but the write
		// must have been attempted and the other tee branch must have the entry
		if under.attempts == 0 {
			t.Fatalf("%s: the entry was never offered to the (failing) sink", desc)
		}
		if logs != nil && obsAt != 1+nEarlier {
			t.Fatalf("%s: observer branch of the tee had %d entries when the terminal action ran", desc, obsAt)
		}
	} else if c06Enabled(cfg) {
		if !strings.Contains(sinkAt, line) {
			t.Fatalf("%s: when the terminal action ran the underlying sink (below the buffer) held %q, not the entry", desc, sinkAt)
		}
		if got := strings.Count(sinkNow, "\n"); got != 1+nBefore+nEarlier {
			t.Fatalf("%s: sink holds %d lines for %d entries", desc, got, 1+nBefore+nEarlier)
		}
		for i := 0; i < nBefore; i++ {
			if !strings.Contains(sinkAt, fmt.Sprintf("before-%d-", i)) {
				t.Fatalf("%s: when the terminal action ran, the earlier entry %d was not in the underlying sink: %q", desc, i, clipS(sinkAt))
			}
		}
		if otherHook.n != 0 {
			t.Fatalf("%s: a terminal hook configured on ANOTHER logger of the family ran %d times", desc, otherHook.n)
		}
		if syncedAt < len(sinkAt) || syncedAt == 0 {
			t.Fatalf("%s: sink was not synced after the final entry (synced %d of %d bytes)", desc, syncedAt, len(sinkAt))
		}
		if logs != nil && obsAt != 1+nBefore+nEarlier {
			t.Fatalf("%s: observer branch of the tee had %d entries when the terminal action ran, want %d", desc, obsAt, 1+nBefore+nEarlier)
		}
	} else {
		if sinkNow != "" || obsNow != 0 {
			t.Fatalf("%s: a disabled / no-op / sampled-out entry was written: sink %q observer %d", desc, sinkNow, obsNow)
		}
	}
}

func TestC06Terminal(t *testing.T) { rapid.Check(t, propC06) }

// propC06Build: the same terminal behaviour through the constructor routes that assemble options from a
// configuration (Config.Build with every flag combination, the New* presets) instead of zap.New(core, options...):
// DPanic runs the panic action exactly when the configuration says "development", Panic and Fatal always do, the
// entry is in the cores before the action runs - through every front end.
func propC06Build(t *rapid.T) {
	c06Mu.Lock()
	defer c06Mu.Unlock()
	under := &syncSink{}
	enc := zapcore.NewJSONEncoder(zapcore.EncoderConfig{MessageKey: "m", LevelKey: "l", EncodeLevel: zapcore.LowercaseLevelEncoder})
	oc, logs := observer.New(zapcore.DebugLevel)
	hook := &recHook{under: under, logs: logs}
	opts := []zap.Option{
		zap.WrapCore(func(zapcore.Core) zapcore.Core {
			return zapcore.NewTee(zapcore.NewCore(enc, under, zapcore.DebugLevel), oc)
		}),
		zap.WithFatalHook(hook), zap.WithPanicHook(hook), zap.ErrorOutput(&memSink{}),
	}
	route := rapid.SampledFrom([]string{"Config literal", "Config literal", "NewProductionConfig.Build", "NewDevelopmentConfig.Build", "NewProduction", "NewDevelopment", "NewExample"}).Draw(t, "route")
	var lg *zap.Logger
	var err error
	wantDev := false
	desc := route
	switch route {
	case "NewProduction":
		lg, err = zap.NewProduction(opts...)
	case "NewDevelopment":
		lg, err = zap.NewDevelopment(opts...)
		wantDev = true
	case "NewExample":
		lg = zap.NewExample(opts...)
	default:
		cfg := zap.NewProductionConfig()
		if route == "NewDevelopmentConfig.Build" {
			cfg = zap.NewDevelopmentConfig()
		}
		if route == "Config literal" || rapid.Bool().Draw(t, "changeFlags") {
			cfg.Development = rapid.Bool().Draw(t, "Development")
			cfg.DisableCaller = rapid.Bool().Draw(t, "DisableCaller")
			cfg.DisableStacktrace = rapid.Bool().Draw(t, "DisableStacktrace")
			cfg.Encoding = rapid.SampledFrom([]string{"json", "console"}).Draw(t, "Encoding")
			if rapid.Bool().Draw(t, "noSampling") {
				cfg.Sampling = nil
			} else {
				cfg.Sampling = &zap.SamplingConfig{Initial: 1, Thereafter: 0}
			}
			cfg.Level = zap.NewAtomicLevelAt(zapcore.Level(rapid.IntRange(-1, 3).Draw(t, "Level")))
			if rapid.Bool().Draw(t, "initialFields") {
				cfg.InitialFields = map[string]interface{}{"svc": "x"}
			}
		}
		wantDev = cfg.Development
		desc = fmt.Sprintf("%s{Development:%v DisableCaller:%v DisableStacktrace:%v Encoding:%s Sampling:%v}", route, cfg.Development, cfg.DisableCaller, cfg.DisableStacktrace, cfg.Encoding, cfg.Sampling != nil)
		lg, err = cfg.Build(opts...)
	}
	if err != nil {
		t.Fatalf("VERIF-INCONCLUSIVE %s: %v", desc, err)
	}
	if rapid.Bool().Draw(t, "derived") {
		lg = lg.With(zap.Int("w", 1)).Named("n")
	}
	level := rapid.SampledFrom([]string{"dpanic", "dpanic", "panic", "fatal"}).Draw(t, "level")
	front := rapid.SampledFrom(c06FrontNames(level)).Draw(t, "front")
	fe, restore := c06FrontEnds(lg, level)
	func() {
		defer restore()
		defer func() {
			if r := recover(); r != nil {
				t.Fatalf("%s via %s at %s: panicked with %v although a custom panic hook is installed", desc, front, level, r)
			}
		}()
		fe[front]()
	}()
	wantAction := level != "dpanic" || wantDev
	if wantAction && hook.n != 1 {
		t.Fatalf("%s via %s at %s: the terminal action ran %d times, want once", desc, front, level, hook.n)
	}
	if !wantAction && hook.n != 0 {
		t.Fatalf("%s via %s: DPanic ran the panic action %d times outside development mode", desc, front, hook.n)
	}
	if logs.Len() != 1 {
		t.Fatalf("%s via %s at %s: %d entries reached the cores, want 1", desc, front, level, logs.Len())
	}
	if e := logs.All()[0]; e.Level != c06LevelOf[level] || e.Message != c06Msg {
		t.Fatalf("%s via %s at %s: the cores received %v %q", desc, front, level, e.Level, e.Message)
	}
	if wantAction {
		if hook.obsLen != 1 || !strings.Contains(hook.seen, c06Msg) {
			t.Fatalf("%s via %s at %s: when the action ran the observer held %d entries and the sink %q", desc, front, level, hook.obsLen, clipS(hook.seen))
		}
		if level != "dpanic" && hook.synced < len(hook.seen) {
			t.Fatalf("%s via %s at %s: the sink had not been synced when the action ran (%d of %d bytes)", desc, front, level, hook.synced, len(hook.seen))
		}
	}
	statCase("C06", true, "build|"+desc+"|"+level+"|"+front, "constructor route "+route)
}

func TestC06Build(t *testing.T) { rapid.Check(t, propC06Build) }

// ---- terminal entry while another Sync of the same output is in flight ----
//
// The harness owns the schedule: gateSink parks the FIRST Sync call inside the
// sink until released. While it is parked another goroutine logs the terminal
// entry; when its terminal action runs the sink must already have seen a Sync
// that STARTED after the entry was written (a Sync that began earlier says
// nothing about the new bytes).

type gateSink struct {
	mu         sync.Mutex
	buf        bytes.Buffer
	syncedLen  int // bytes present when the most recent Sync call started
	syncCalls  int
	armed      bool
	inSync     chan struct{}
	release    chan struct{}
	lateWrites int
}

func (g *gateSink) Write(p []byte) (int, error) {
	g.mu.Lock()
	defer g.mu.Unlock()
	return g.buf.Write(p)
}

func (g *gateSink) Sync() error {
	g.mu.Lock()
	g.syncCalls++
	park := g.armed
	g.armed = false
	if !park {
		g.syncedLen = g.buf.Len()
	}
	g.mu.Unlock()
	if park {
		close(g.inSync)
		<-g.release
	}
	return nil
}

func (g *gateSink) snapshot() (string, int) {
	g.mu.Lock()
	defer g.mu.Unlock()
	return g.buf.String(), g.syncedLen
}

type gateHook struct {
	g      *gateSink
	n      int
	seen   string
	synced int
}

func (h *gateHook) OnWrite(*zapcore.CheckedEntry, []zapcore.Field) {
	h.n++
	h.seen, h.synced = h.g.snapshot()
}

func propC06SyncInFlight(t *rapid.T) {
	c06Mu.Lock()
	defer c06Mu.Unlock()
	g := &gateSink{armed: true, inSync: make(chan struct{}), release: make(chan struct{})}
	level := rapid.SampledFrom([]string{"panic", "fatal", "dpanic"}).Draw(t, "level")
	lvl := c06LevelOf[level]
	hook := &gateHook{g: g}
	enc := zapcore.NewJSONEncoder(zapcore.EncoderConfig{MessageKey: "m", LevelKey: "l", EncodeLevel: zapcore.LowercaseLevelEncoder})
	var core zapcore.Core = zapcore.NewCore(enc, g, zapcore.DebugLevel)
	wrap := rapid.SampledFrom([]string{"plain", "tee", "sampler", "hooked", "increase"}).Draw(t, "wrap")
	switch wrap {
	case "tee":
		oc, _ := observer.New(zapcore.DebugLevel)
		core = zapcore.NewTee(oc, core)
	case "sampler":
		core = zapcore.NewSamplerWithOptions(core, time.Hour, 1000, 1)
	case "hooked":
		core = zapcore.RegisterHooks(core, func(zapcore.Entry) error { return nil })
	case "increase":
		c, err := zapcore.NewIncreaseLevelCore(core, zapcore.InfoLevel)
		if err != nil {
			t.Fatalf("increase: %v", err)
		}
		core = c
	}
	lg := zap.New(core, zap.Development(), zap.WithFatalHook(hook), zap.WithPanicHook(hook), zap.ErrorOutput(&memSink{}))
	// who holds the in-flight Sync and who logs: the logger itself or loggers derived from it
	derive := func(which string) *zap.Logger {
		switch which {
		case "with":
			return lg.With(zap.Int("k", 1))
		case "named":
			return lg.Named("n")
		case "withlazy":
			return lg.WithLazy(zap.Int("k", 1))
		}
		return lg
	}
	kinds := []string{"same", "with", "named", "withlazy"}
	syncer := derive(rapid.SampledFrom(kinds).Draw(t, "syncer"))
	logger := derive(rapid.SampledFrom(kinds).Draw(t, "logger"))
	nBefore := rapid.IntRange(0, 3).Draw(t, "entriesBefore")
	for i := 0; i < nBefore; i++ {
		lg.Info("before")
	}
	fes, restore := c06FrontEnds(logger, level, c06Msg)
	front := rapid.SampledFrom(c06FrontNames(level)).Draw(t, "frontEnd")
	syncDone := make(chan struct{})
	go func() {
		defer close(syncDone)
		_ = syncer.Sync() // parks inside the sink
	}()
	<-g.inSync
	logDone := make(chan struct{})
	go func() {
		defer close(logDone)
		defer func() { _ = recover() }()
		fes[front]()
	}()
	select {
	case <-logDone:
	case <-time.After(20 * time.Second):
		close(g.release)
		t.Fatalf("VERIF-DEADLOCK the terminal entry did not complete while another Sync of the same output was in flight (front %s, wrap %s)", front, wrap)
	}
	close(g.release)
	<-syncDone
	restore()
	if hook.n != 1 {
		t.Fatalf("terminal hook ran %d times (front %s wrap %s level %s)", hook.n, front, wrap, level)
	}
	mj, _ := json.Marshal(c06Msg)
	line := fmt.Sprintf("{\"l\":%q,\"m\":%s", lvl.String(), mj)
	if !strings.Contains(hook.seen, line) {
		t.Fatalf("when the terminal action ran the sink held %q, not the entry (front %s wrap %s)", hook.seen, front, wrap)
	}
	if hook.synced < len(hook.seen) {
		t.Fatalf("when the terminal action ran, no Sync that started after the entry was written had reached the sink: %d of %d bytes covered (another Sync was in flight; front %s, wrap %s, level %s)",
			hook.synced, len(hook.seen), front, wrap, level)
	}
	statCase("C06", true, fmt.Sprintf("syncinflight|%s|%s|%s", level, wrap, front), "terminal entry while another Sync is in flight")
}

func TestC06SyncInFlight(t *testing.T) { rapid.Check(t, propC06SyncInFlight) }

// Completeness: every exported method of the logger types whose name mentions
// a terminal level has a front-end row.
func TestC06Completeness(t *testing.T) {
	have := map[string]bool{}
	for _, lv := range []string{"dpanic", "panic", "fatal"} {
		for _, n := range c06FrontNames(lv) {
			have[n] = true
		}
	}
	var missing []string
	check := func(prefix string, typ reflect.Type) {
		for i := 0; i < typ.NumMethod(); i++ {
			n := typ.Method(i).Name
			if strings.Contains(n, "Panic") || strings.Contains(n, "Fatal") {
				if !have[prefix+"."+n] {
					missing = append(missing, prefix+"."+n)
				}
			}
		}
	}
	check("Logger", reflect.TypeOf(&zap.Logger{}))
	check("Sugar", reflect.TypeOf(&zap.SugaredLogger{}))
	check("zapgrpc", reflect.TypeOf(&zapgrpc.Logger{}))
	if len(missing) > 0 {
		t.Fatalf("VERIF-INCONCLUSIVE terminal-level methods without a C06 front-end row: %v", missing)
	}
}

// Exhaustive sweep of the finite product for every front end with the
// default hooks (plain, no library).
func TestC06Sweep(t *testing.T) {
	n := 0
	for _, level := range []string{"dpanic", "panic", "fatal"} {
		for _, front := range c06FrontNames(level) {
			for _, core := range []string{"json", "teeobs", "nop", "sampleout", "increase"} {
				for _, th := range []int{-1, 5, 6} {
					for _, dev := range []bool{false, true} {
						for _, hook := range []string{"default", "noop", "custom"} {
							cfg := c06Config{Core: core, Threshold: th, Dev: dev, Hook: hook, Level: level, Front: front}
							c06RunInProcess(t, cfg)
							n++
							statCase("C06", true, fmt.Sprintf("sweep%+v", cfg), "sweep")
						}
					}
				}
			}
		}
	}
	t.Logf("swept %d configurations", n)
}

// ------------------------------------------------------------ out of process

func init() {
	childModes["c06"] = c06Child
}

// c06Child logs through a BufferedWriteSyncer onto a real file with the REAL
// default terminal actions and must not survive.
func c06Child() {
	var cfg c06Config
	if err := json.Unmarshal([]byte(os.Getenv("VERIF_C06_CFG")), &cfg); err != nil {
		os.Exit(90)
	}
	f, err := os.OpenFile(os.Getenv("VERIF_C06_FILE"), os.O_CREATE|os.O_WRONLY|os.O_APPEND, 0o644)
	if err != nil {
		os.Exit(91)
	}
	bws := &zapcore.BufferedWriteSyncer{WS: f, Size: cfg.bufSize(), FlushInterval: time.Hour}
	core, _ := c06Core(cfg, bws)
	var opts []zap.Option
	if cfg.Dev {
		opts = append(opts, zap.Development())
	}
	switch cfg.Hook {
	case "nil":
		opts = append(opts, zap.WithFatalHook(nil), zap.WithPanicHook(nil))
	case "noop":
		opts = append(opts, zap.WithFatalHook(zapcore.WriteThenNoop), zap.WithPanicHook(zapcore.WriteThenNoop))
	}
	lg := zap.New(core, opts...)
	lg.Info("before") // stays in the buffer unless a terminal entry flushes it
	fes, _ := c06FrontEnds(lg, cfg.Level, cfg.msg())
	fes[cfg.Front]()
	os.Exit(42) // survived
}

func c06RunChild(t interface{ Fatalf(string, ...any) }, cfg c06Config, dir string, idx int) {
	file := fmt.Sprintf("%s/c06-%d.log", dir, idx)
	os.Remove(file)
	js, _ := json.Marshal(cfg)
	cmd := exec.Command(os.Args[0])
	cmd.Env = append(os.Environ(), "VERIF_CHILD=c06", "VERIF_C06_CFG="+string(js), "VERIF_C06_FILE="+file, "GOTRACEBACK=single")
	var stderr bytes.Buffer
	cmd.Stderr = &stderr
	err := cmd.Run()
	code := -1
	if cmd.ProcessState != nil {
		code = cmd.ProcessState.ExitCode()
	}
	content, _ := os.ReadFile(file)
	os.Remove(file)
	lvl := c06LevelOf[cfg.Level]
	wantTerm := lvl != zapcore.DPanicLevel || cfg.Dev
	desc := fmt.Sprintf("child %+v", cfg)
	switch {
	case !wantTerm:
		if code != 42 {
			t.Fatalf("%s: exit status %d (err %v), want 42 = survived; stderr: %s", desc, code, err, clipS(stderr.String()))
		}
	case lvl == zapcore.FatalLevel:
		if code != 1 {
			t.Fatalf("%s: process exit status %d, want 1; stderr: %s", desc, code, clipS(stderr.String()))
		}
	default:
		if code != 2 || !strings.Contains(stderr.String(), "panic: ") {
			t.Fatalf("%s: exit status %d, want 2 with a panic on stderr; stderr: %s", desc, code, clipS(stderr.String()))
		}
		if m := cfg.loggedMsg(); !strings.Contains(m, "\n") && !strings.Contains(stderr.String(), "panic: "+m) {
			t.Fatalf("%s: panic does not carry the message %q; stderr: %s", desc, m, clipS(stderr.String()))
		}
	}
	mj, _ := json.Marshal(cfg.loggedMsg())
	line := fmt.Sprintf("{\"l\":%q,\"m\":%s", lvl.String(), mj)
	if c06Enabled(cfg) {
		if !strings.Contains(string(content), line) {
			t.Fatalf("%s: after the process died the file holds %q: the final entry was left in the buffer", desc, content)
		}
		if cfg.Threshold <= 0 && !strings.Contains(string(content), `"m":"before"`) {
			t.Fatalf("%s: earlier buffered entry missing from the file: %q", desc, content)
		}
	} else if strings.Contains(string(content), line) {
		t.Fatalf("%s: disabled entry reached the file: %q", desc, content)
	}
}

func propC06Child(t *rapid.T) {
	cfg := c06Config{
		Core:      rapid.SampledFrom([]string{"json", "tee", "teeobs", "nop", "sampleout", "increase"}).Draw(t, "core"),
		Threshold: rapid.IntRange(-1, 7).Draw(t, "threshold"),
		Dev:       rapid.Bool().Draw(t, "development"),
		Hook:      rapid.SampledFrom([]string{"default", "nil", "noop"}).Draw(t, "hook"),
		Level:     rapid.SampledFrom([]string{"dpanic", "panic", "fatal", "fatal"}).Draw(t, "level"),
	}
	cfg.Front = rapid.SampledFrom(c06FrontNames(cfg.Level)).Draw(t, "frontEnd")
	cfg.Msg = rapid.SampledFrom([]string{"", "", "<empty>", " ", strings.Repeat("long ", 300)}).Draw(t, "message")
	cfg.BufSize = rapid.SampledFrom([]int{0, 16, 4096}).Draw(t, "bufferSize")
	dir := os.Getenv("VERIF_WORKDIR")
	if dir == "" {
		dir = os.TempDir()
	}
	c06RunChild(t, cfg, dir, os.Getpid())
	statCase("C06", true, fmt.Sprintf("child%+v", cfg), "real process exit observed from outside", "child front "+cfg.Front)
}

func TestC06Child(t *testing.T) { rapid.Check(t, propC06Child) }

func TestRegressC06(t *testing.T) {
	c06TerminalActionsOverDemotingCore(t)
	// F7: zapgrpc Fatalln on a logger whose core disables Fatal must still exit
	c06RunInProcess(t, c06Config{Core: "json", Threshold: 7, Hook: "default", Level: "fatal", Front: "zapgrpc.Fatalln"})
	c06RunInProcess(t, c06Config{Core: "nop", Threshold: 0, Hook: "noop", Level: "fatal", Front: "Sugar.Fatalw"})
	c06RunInProcess(t, c06Config{Core: "sampleout", Threshold: 0, Hook: "nil", Level: "panic", Front: "Logger.Check+Write"})
	c06RunInProcess(t, c06Config{Core: "json", Threshold: 0, Hook: "default", Level: "dpanic", Dev: true, Front: "NewStdLogAt.Print"})
}
