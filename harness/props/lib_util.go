package props

import (
	"encoding/json"
	"fmt"
	"os"
)

// tier reports the tier the driver asked for ("quick" or "thorough").
func tier() string {
	if t := os.Getenv("VERIF_TIER"); t != "" {
		return t
	}
	return "quick"
}

func clipS(s string) string {
	if len(s) > 120 {
		return fmt.Sprintf("%s…(%d bytes)", s[:120], len(s))
	}
	return s
}

func clip(ss []string) []string {
	out := make([]string, len(ss))
	for i, s := range ss {
		out[i] = clipS(s)
	}
	return out
}

func jsonMarshalIndent(v any) ([]byte, error) { return json.MarshalIndent(v, "", " ") }

func jsonUnmarshal(b []byte, v any) error { return json.Unmarshal(b, v) }
