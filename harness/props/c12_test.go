package props

// C12 — BufferedWriteSyncer delivers every byte once, in order, in whole writes.

import (
	"bytes"
	"encoding/json"
	"fmt"
	"io"
	"os"
	"os/exec"
	"runtime"
	"strconv"
	"strings"
	"sync"
	"syscall"
	"testing"
	"time"

	"go.uber.org/zap/zapcore"
	"pgregory.net/rapid"
)

// handClock: the harness owns the ticker channel.
type handClock struct {
	mu         sync.Mutex
	ch         chan time.Time
	tickers    int
	dur        time.Duration
	elapsed    time.Duration // harness-owned time: advanced by the properties between operations
	panicFirst bool          // the first NewTicker call panics
}

func (c *handClock) Now() time.Time {
	c.mu.Lock()
	defer c.mu.Unlock()
	return time.Unix(0, 0).Add(c.elapsed)
}

func (c *handClock) advance(d time.Duration) {
	c.mu.Lock()
	c.elapsed += d
	c.mu.Unlock()
}
func (c *handClock) NewTicker(d time.Duration) *time.Ticker {
	c.mu.Lock()
	defer c.mu.Unlock()
	if c.panicFirst {
		// user code: the first attempt to get a ticker blows up (the caller recovers and carries on)
		c.panicFirst = false
		panic("the clock cannot hand out a ticker right now")
	}
	c.tickers++
	c.dur = d
	c.ch = make(chan time.Time) // unbuffered: a send completes only when the flush loop takes it
	return &time.Ticker{C: c.ch}
}

func (c *handClock) channel() chan time.Time {
	c.mu.Lock()
	defer c.mu.Unlock()
	return c.ch
}

// c12ValueClock is a Clock implemented on a field-less struct VALUE; it forwards to the hand-driven clock of the
// case that is running (cases run one at a time in a process).
type c12ValueClock struct{}

var c12CurrentClock *handClock

func (c12ValueClock) Now() time.Time                         { return c12CurrentClock.Now() }
func (c12ValueClock) NewTicker(d time.Duration) *time.Ticker { return c12CurrentClock.NewTicker(d) }

// opSink records the sequence of Write/Sync calls it receives.
type opSink struct {
	mu      sync.Mutex
	writes  [][]byte
	total   int
	syncs   int
	lastOp  string
	inUse   int32
	overlap bool
}

func (s *opSink) Write(p []byte) (int, error) {
	s.mu.Lock()
	defer s.mu.Unlock()
	s.writes = append(s.writes, append([]byte(nil), p...))
	s.total += len(p)
	s.lastOp = "write"
	return len(p), nil
}

func (s *opSink) Sync() error {
	s.mu.Lock()
	defer s.mu.Unlock()
	s.syncs++
	s.lastOp = "sync"
	return nil
}

func (s *opSink) state() (total, nwrites, syncs int, last string) {
	s.mu.Lock()
	defer s.mu.Unlock()
	return s.total, len(s.writes), s.syncs, s.lastOp
}

func (s *opSink) bytes() []byte {
	s.mu.Lock()
	defer s.mu.Unlock()
	return bytes.Join(s.writes, nil)
}

// c12Payload: unique, self-describing content for accepted write #i of length n.
func c12Payload(i, n int) []byte {
	if n == 0 {
		return []byte{}
	}
	b := make([]byte, n)
	tag := fmt.Sprintf("<%d>", i)
	for j := range b {
		b[j] = tag[j%len(tag)]
	}
	b[n-1] = '\n'
	return b
}

var (
	stackBufMu sync.Mutex
	stackBuf   = make([]byte, 1<<20)
)

func flushLoopGoroutines() int {
	stackBufMu.Lock()
	defer stackBufMu.Unlock()
	n := runtime.Stack(stackBuf, true)
	return bytes.Count(stackBuf[:n], []byte("BufferedWriteSyncer).flushLoop"))
}

func waitFor(cond func() bool, d time.Duration) bool {
	deadline := time.Now().Add(d)
	for i := 0; ; i++ {
		if cond() {
			return true
		}
		if time.Now().After(deadline) {
			return false
		}
		if i < 50 {
			runtime.Gosched()
		} else {
			time.Sleep(50 * time.Microsecond)
		}
	}
}

func propC12Sequential(t *rapid.T) {
	size := rapid.OneOf(rapid.IntRange(1, 64), rapid.SampledFrom([]int{1, 2, 16, 64, 4096}), rapid.SampledFrom([]int{4095, 4097, 5000, 8191, 10000})).Draw(t, "size")
	// a Size left at zero means the documented default of 256 kB - the same syncer as one configured with that number
	sizeField := size
	if rapid.IntRange(0, 15).Draw(t, "defaultSize") == 0 {
		size, sizeField = 256*1024, rapid.SampledFrom([]int{0, 0, 256 * 1024}).Draw(t, "sizeAsConfigured")
	}
	clk := &handClock{panicFirst: rapid.IntRange(0, 7).Draw(t, "firstTickerPanics") == 0}
	sink := &opSink{}
	// the clock may be a VALUE of a struct type without fields (its zero value is the only value it has, like
	// zap's own system clock): as good a Clock as a pointer
	var clock zapcore.Clock = clk
	if rapid.IntRange(0, 3).Draw(t, "valueTypedClock") == 0 {
		c12CurrentClock = clk
		clock = c12ValueClock{}
	}
	bws := &zapcore.BufferedWriteSyncer{WS: sink, Size: sizeField, FlushInterval: time.Duration(rapid.IntRange(0, 3).Draw(t, "flushInterval")) * time.Second, Clock: clock}
	var accepted [][]byte
	acceptedBytes := 0
	boundaries := map[int]bool{0: true}
	stopped, initialized := false, false
	var lastTick time.Duration
	var hist []string
	sawNoFit, sawLarge, sawTick := false, false, false
	fail := func(f string, a ...any) {
		t.Fatalf("%s\nsize=%d history: %s", fmt.Sprintf(f, a...), size, strings.Join(hist, " "))
	}
	invariant := func(flushed bool, what string) {
		total, _, _, last := sink.state()
		got := sink.bytes()
		want := bytes.Join(accepted, nil)
		if total > len(want) || !bytes.Equal(got, want[:total]) {
			fail("after %s: sink content is not a prefix of the accepted stream (sink %d bytes, accepted %d)", what, total, len(want))
		}
		off := 0
		sink.mu.Lock()
		for i, w := range sink.writes {
			off += len(w)
			if !boundaries[off] {
				sink.mu.Unlock()
				fail("after %s: sink write %d ends at offset %d, inside a caller write (a line was split across two sink writes)", what, i, off)
			}
		}
		sink.mu.Unlock()
		if held := acceptedBytes - total; held > size {
			fail("after %s: %d bytes are held back, more than the configured size %d", what, held, size)
		}
		if flushed {
			if total != acceptedBytes {
				fail("after %s: %d of %d accepted bytes are in the sink", what, total, acceptedBytes)
			}
			if last != "sync" {
				fail("after %s: the sink was not synced after its last write", what)
			}
		}
	}
	viaString := false
	doWrite := func(n int) {
		p := c12Payload(len(accepted), n)
		total, _, _, _ := sink.state()
		buffered := acceptedBytes - total
		if n > size-buffered && buffered > 0 {
			sawNoFit = true
		}
		if n > size {
			sawLarge = true
		}
		cp := append([]byte(nil), p...)
		var k int
		var err error
		if clk.panicFirst && !initialized {
			// the very first Write makes the syncer ask the user's clock for a ticker, and the clock panics: the panic
			// is the caller's to deal with, nothing was accepted, and the syncer is as good as new afterwards
			func() {
				defer func() {
					if recover() == nil {
						fail("the clock's panic did not reach the caller of Write")
					}
				}()
				_, _ = bws.Write(append([]byte(nil), p...))
			}()
			hist = append(hist, "W!clock-panic")
			if total, _, _, _ := sink.state(); total != 0 {
				fail("a Write that ended in the clock's panic put %d bytes into the sink", total)
			}
		}
		if viaString {
			k, err = io.WriteString(bws, string(cp)) // the standard library's string path must behave like Write
		} else {
			k, err = bws.Write(cp)
		}
		for i := range cp {
			cp[i] = '#' // the caller may reuse its slice
		}
		hist = append(hist, fmt.Sprintf("W%d", n))
		if k != n || err != nil {
			fail("Write(%d bytes) = (%d, %v), want (%d, nil)", n, k, err, n)
		}
		accepted = append(accepted, p)
		acceptedBytes += n
		boundaries[acceptedBytes] = true
		initialized = true
		invariant(false, "Write")
	}
	t.Repeat(map[string]func(*rapid.T){
		"write": func(rt *rapid.T) {
			total, _, _, _ := sink.state()
			free := size - (acceptedBytes - total)
			n := rapid.OneOf(rapid.SampledFrom([]int{0, 1, free, free + 1, size, size + 1, 3 * size, free - 1}), rapid.IntRange(0, 2*size+2)).Draw(rt, "len")
			if n < 0 {
				n = 0
			}
			doWrite(n)
		},
		"write2": func(rt *rapid.T) { doWrite(rapid.IntRange(0, size+3).Draw(rt, "len")) },
		"writeString": func(rt *rapid.T) {
			viaString = true
			doWrite(rapid.SampledFrom([]int{1, size - 1, size, size + 1, 2*size + 1, 3 * size}).Draw(rt, "len"))
			viaString = false
		},
		"elapse": func(rt *rapid.T) {
			// time passes between operations: a fraction of the flush interval
			iv := bws.FlushInterval
			if iv <= 0 {
				iv = 30 * time.Second
			}
			clk.advance(iv * time.Duration(rapid.IntRange(1, 9).Draw(rt, "tenths")) / 10)
			hist = append(hist, "e")
		},
		"reconfigure": func(rt *rapid.T) {
			// the exported configuration fields are the caller's: assigning to them after the syncer has started
			// (e.g. when the real configuration arrives after start-up logging) changes nothing - size and
			// interval were fixed at the first use
			if !initialized {
				rt.Skip("not started yet")
			}
			bws.Size = rapid.SampledFrom([]int{1, 8, 64, 4096, 1 << 20}).Draw(rt, "newSize")
			hist = append(hist, fmt.Sprintf("cfg(Size=%d)", bws.Size))
		},
		"sync": func(*rapid.T) {
			_, _, s0, _ := sink.state()
			if err := bws.Sync(); err != nil {
				fail("Sync: %v", err)
			}
			hist = append(hist, "S")
			if _, _, s1, _ := sink.state(); s1 != s0+1 {
				fail("Sync did not sync the sink exactly once (%d -> %d)", s0, s1)
			}
			invariant(true, "Sync")
		},
		"tick": func(rt *rapid.T) {
			if !initialized {
				rt.Skip("no ticker before the first write")
			}
			ch := clk.channel()
			if stopped {
				select {
				case ch <- time.Unix(1, 0):
					fail("a tick was consumed after Stop: the flush goroutine is still running")
				case <-time.After(200 * time.Microsecond):
				}
				hist = append(hist, "t!")
				return
			}
			_, _, s0, _ := sink.state()
			// a tick arrives a full interval after the previous one; explicit Syncs and Writes may have
			// happened at any moment in between (the clock is advanced by drawn fractions before every op)
			if next := lastTick + bws.FlushInterval; clk.Now().Sub(time.Unix(0, 0)) < next {
				clk.advance(next - clk.Now().Sub(time.Unix(0, 0)))
			}
			lastTick = clk.Now().Sub(time.Unix(0, 0))
			// (what travels on a ticker's channel is the clock's business: a user's Clock may send its own idea of the
			// time, including the zero value - a tick is a tick)
			tickValue := clk.Now()
			if rapid.IntRange(0, 3).Draw(rt, "zeroTimeTick") == 0 {
				tickValue = time.Time{}
			}
			select {
			case ch <- tickValue:
			case <-time.After(20 * time.Second):
				fail("VERIF-DEADLOCK flush loop did not take a tick within 20s")
			}
			if !waitFor(func() bool { _, _, s, _ := sink.state(); return s > s0 }, 20*time.Second) {
				fail("VERIF-DEADLOCK tick taken but no Sync reached the sink within 20s")
			}
			sawTick = true
			hist = append(hist, "T")
			invariant(true, "processed tick")
		},
		"stop": func(*rapid.T) {
			first := !stopped && initialized
			done := make(chan error, 1)
			go func() { done <- bws.Stop() }()
			select {
			case err := <-done:
				if err != nil {
					fail("Stop returned %v", err)
				}
			case <-time.After(20 * time.Second):
				fail("VERIF-DEADLOCK Stop did not return within 20s")
			}
			hist = append(hist, "X")
			if first {
				stopped = true
				invariant(true, "first Stop")
				// (Stop returns when the loop has signalled that it is done; the goroutine itself needs a moment more to
				// leave its frame. A goroutine that really is left behind never goes away, so a generous bound costs
				// nothing.)
				if n := flushLoopGoroutines(); n != 0 && !waitFor(func() bool { return flushLoopGoroutines() == 0 }, 10*time.Second) {
					fail("%d flush goroutine(s) still running after Stop", n)
				}
			} else {
				invariant(false, "repeated Stop")
			}
		},
	})
	// wind down: Sync delivers whatever was accepted (also after Stop, D2), Stop ends the loop
	if err := bws.Sync(); err != nil {
		fail("final Sync: %v", err)
	}
	invariant(true, "final Sync")
	if err := bws.Stop(); err != nil {
		fail("final Stop: %v", err)
	}
	if n := flushLoopGoroutines(); n != 0 && !waitFor(func() bool { return flushLoopGoroutines() == 0 }, 10*time.Second) {
		fail("%d flush goroutine(s) left after the final Stop", n)
	}
	if clk.tickers > 1 {
		fail("%d tickers were created", clk.tickers)
	}
	if initialized {
		// the flush loop ticks at the configured interval, or every 30 seconds when none is configured - whichever
		// clock supplies the ticker
		want := bws.FlushInterval
		if want <= 0 {
			want = 30 * time.Second
		}
		clk.mu.Lock()
		got, n := clk.dur, clk.tickers
		clk.mu.Unlock()
		if n != 1 || got != want {
			fail("the clock was asked for %d ticker(s), the last with interval %v; want one ticker with interval %v", n, got, want)
		}
	}
	nt := sawNoFit && sawLarge
	var labels []string
	if sawNoFit {
		labels = append(labels, "write does not fit into the remaining space of a non-empty buffer")
	}
	if sawLarge {
		labels = append(labels, "write larger than the buffer")
	}
	if sawTick {
		labels = append(labels, "processed tick")
	}
	if stopped {
		labels = append(labels, "ops after Stop")
	}
	statCase("C12", nt, fmt.Sprintf("seq|%d|%s", size, strings.Join(hist, "")), labels...)
	if nt {
		statSample("C12", func() string { return fmt.Sprintf("size=%d %s", size, strings.Join(hist, " ")) })
	}
}

// gatedSink blocks inside Write/Sync while the gate is closed.
type gatedSink struct {
	opSink
	gate    chan struct{}
	entered chan string
	block   string // "write" or "sync"
	armed   bool
}

func (g *gatedSink) Write(p []byte) (int, error) {
	if g.armed && g.block == "write" {
		g.armed = false
		g.entered <- "write"
		<-g.gate
	}
	return g.opSink.Write(p)
}

func (g *gatedSink) Sync() error {
	if g.armed && g.block == "sync" {
		g.armed = false
		g.entered <- "sync"
		<-g.gate
	}
	return g.opSink.Sync()
}

// propC12TickWhileBusy: a flush tick that arrives while another goroutine is
// inside a (slow) sink call must still be processed: once the call returns,
// everything accepted before the tick is flushed and the sink synced, without
// any further tick, Sync or Stop.
func propC12TickWhileBusy(t *rapid.T) {
	size := rapid.SampledFrom([]int{4, 16, 64}).Draw(t, "size")
	block := rapid.SampledFrom([]string{"write", "sync"}).Draw(t, "blockedCall")
	clk := &handClock{}
	sink := &gatedSink{gate: make(chan struct{}), entered: make(chan string, 1), block: block}
	bws := &zapcore.BufferedWriteSyncer{WS: sink, Size: size, FlushInterval: time.Second, Clock: clk}
	defer bws.Stop()
	n1 := rapid.IntRange(1, size).Draw(t, "firstLen")
	if k, err := bws.Write(c12Payload(0, n1)); k != n1 || err != nil {
		t.Fatalf("Write = (%d, %v)", k, err)
	}
	sink.armed = true
	done := make(chan struct{})
	go func() {
		defer close(done)
		if block == "write" {
			_, _ = bws.Write(c12Payload(1, size+1)) // does not fit: flushes the buffer -> sink.Write blocks, lock held
		} else {
			_ = bws.Sync() // flush, then sink.Sync blocks with the lock held
		}
	}()
	select {
	case <-sink.entered:
	case <-time.After(20 * time.Second):
		t.Fatalf("VERIF-INCONCLUSIVE the blocking sink call was not reached")
	}
	// more data accepted? (only possible without the lock: none) -> deliver the tick now
	select {
	case clk.channel() <- time.Unix(1, 0):
	case <-time.After(20 * time.Second):
		t.Fatalf("VERIF-DEADLOCK flush loop did not take the tick while a sink call was in flight")
	}
	_, _, syncsBefore, _ := sink.state()
	close(sink.gate)
	<-done
	want := n1
	if block == "write" {
		want += size + 1
	}
	okc := waitFor(func() bool {
		total, _, syncs, last := sink.state()
		return total == want && last == "sync" && (block == "sync" && syncs >= syncsBefore+2 || block == "write" && syncs >= syncsBefore+1)
	}, 20*time.Second)
	if !okc {
		total, _, syncs, last := sink.state()
		t.Fatalf("a tick taken while a sink %s was in flight was never processed: %d of %d accepted bytes in the sink, syncs %d -> %d, last op %s (size %d)", block, total, want, syncsBefore, syncs, last, size)
	}
	statCase("C12", true, fmt.Sprintf("tickbusy|%d|%s|%d", size, block, n1), "tick while a sink call holds the lock")
}

// ---- concurrent

func propC12Concurrent(t *rapid.T) {
	size := rapid.SampledFrom([]int{1, 8, 64, 256, 4096}).Draw(t, "size")
	g := rapid.IntRange(2, 6).Draw(t, "goroutines")
	type op struct {
		K string
		N int
	}
	scripts := make([][]op, g)
	for i := range scripts {
		n := rapid.IntRange(1, 25).Draw(t, "scriptLen")
		for j := 0; j < n; j++ {
			switch rapid.IntRange(0, 9).Draw(t, "op") {
			case 0:
				scripts[i] = append(scripts[i], op{"sync", 0})
			case 1:
				scripts[i] = append(scripts[i], op{"tick", 0})
			case 2:
				scripts[i] = append(scripts[i], op{"stop", 0})
			default:
				scripts[i] = append(scripts[i], op{"write", rapid.SampledFrom([]int{8, 12, size, size + 9, 3*size + 8, 20}).Draw(t, "len")})
			}
		}
	}
	dumpProgram(map[string]any{"property": "C12", "size": size, "scripts": scripts})
	clk := &handClock{}
	sink := &opSink{}
	bws := &zapcore.BufferedWriteSyncer{WS: sink, Size: size, FlushInterval: time.Second, Clock: clk}
	var wg sync.WaitGroup
	errs := make(chan string, 64)
	sent := make([]int, g)
	for i := 0; i < g; i++ {
		wg.Add(1)
		go func(i int) {
			defer wg.Done()
			seq := 0
			for _, o := range scripts[i] {
				switch o.K {
				case "write":
					// framed record: [g:seq:len]payload\n — length at least 8
					hdr := fmt.Sprintf("[%d:%d:", i, seq)
					n := o.N
					if n < len(hdr)+8 {
						n = len(hdr) + 8
					}
					rec := make([]byte, n)
					copy(rec, hdr+strconv.Itoa(n)+"]")
					for j := len(hdr) + len(strconv.Itoa(n)) + 1; j < n-1; j++ {
						rec[j] = byte('a' + (i+seq)%26)
					}
					rec[n-1] = '\n'
					k, err := bws.Write(rec)
					if k != n || err != nil {
						errs <- fmt.Sprintf("goroutine %d: Write = (%d, %v)", i, k, err)
						return
					}
					seq++
				case "sync":
					if err := bws.Sync(); err != nil {
						errs <- fmt.Sprintf("Sync: %v", err)
					}
				case "tick":
					if ch := clk.channel(); ch != nil {
						select {
						case ch <- time.Unix(1, 0):
						case <-time.After(100 * time.Microsecond):
						}
					}
				case "stop":
					if err := bws.Stop(); err != nil {
						errs <- fmt.Sprintf("Stop: %v", err)
					}
				}
				if seq%3 == 0 {
					runtime.Gosched()
				}
			}
			sent[i] = seq
		}(i)
	}
	done := make(chan struct{})
	go func() { wg.Wait(); close(done) }()
	select {
	case <-done:
	case <-time.After(30 * time.Second):
		buf := make([]byte, 1<<20)
		n := runtime.Stack(buf, true)
		if strings.Contains(string(buf[:n]), "BufferedWriteSyncer") {
			t.Fatalf("VERIF-DEADLOCK goroutines blocked inside BufferedWriteSyncer after 30s:\n%s", clipS(string(buf[:n])))
		}
		t.Fatalf("VERIF-INCONCLUSIVE watchdog expired without goroutines inside BufferedWriteSyncer")
	}
	select {
	case e := <-errs:
		t.Fatalf("%s", e)
	default:
	}
	if err := bws.Sync(); err != nil {
		t.Fatalf("final Sync: %v", err)
	}
	if err := bws.Stop(); err != nil {
		t.Fatalf("final Stop: %v", err)
	}
	if !waitFor(func() bool { return flushLoopGoroutines() == 0 }, 20*time.Second) {
		t.Fatalf("flush goroutine still running after Stop")
	}
	// every sink write must consist of whole records; per goroutine order; no loss, no duplicate
	next := make([]int, g)
	sink.mu.Lock()
	defer sink.mu.Unlock()
	for wi, w := range sink.writes {
		rest := w
		for len(rest) > 0 {
			var gi, seq, n int
			if _, err := fmt.Sscanf(string(rest[:min(len(rest), 40)]), "[%d:%d:%d]", &gi, &seq, &n); err != nil || n > len(rest) || n < 8 || rest[n-1] != '\n' {
				t.Fatalf("sink write %d does not consist of whole caller writes (at %q)", wi, clipS(string(rest)))
			}
			if gi < 0 || gi >= g || seq != next[gi] {
				t.Fatalf("goroutine %d: record %d arrived, expected %d (lost, duplicated or reordered)", gi, seq, next[gi])
			}
			next[gi]++
			rest = rest[n:]
		}
	}
	for i := range next {
		if next[i] != sent[i] {
			t.Fatalf("goroutine %d: %d of %d accepted writes reached the sink after the final Sync", i, next[i], sent[i])
		}
	}
	if sink.lastOp != "sync" {
		t.Fatalf("sink not synced after its last write")
	}
	statCase("C12", true, fmt.Sprintf("conc|%d|g%d", size, g), "concurrent scripts")
}

// ---- crash variant (child process, SIGKILL at a generated point)

type c12CrashOp struct {
	K string `json:"k"` // w s t x
	N int    `json:"n,omitempty"`
}

type c12CrashScript struct {
	Size       int          `json:"size"`
	Ops        []c12CrashOp `json:"ops"`
	KillSink   int          `json:"killSink"` // kill at this sink call index (-1: never)
	KillBefore bool         `json:"killBefore"`
	KillOp     int          `json:"killOp"` // kill before executing script op #i (-1: never)
	File       string       `json:"file"`
	Ack        string       `json:"ack"`
}

type killSink struct {
	f      *os.File
	calls  int
	killAt int
	before bool
}

func selfKill() {
	_ = syscall.Kill(os.Getpid(), syscall.SIGKILL)
	time.Sleep(10 * time.Second)
}

func (k *killSink) hit() bool { c := k.calls; k.calls++; return c == k.killAt }
func (k *killSink) Write(p []byte) (int, error) {
	h := k.hit()
	if h && k.before {
		selfKill()
	}
	n, err := k.f.Write(p)
	if h && !k.before {
		selfKill()
	}
	return n, err
}
func (k *killSink) Sync() error {
	h := k.hit()
	if h && k.before {
		selfKill()
	}
	err := k.f.Sync()
	if h && !k.before {
		selfKill()
	}
	return err
}

func init() { childModes["c12"] = c12Child }

func c12Child() {
	var sc c12CrashScript
	if err := json.Unmarshal([]byte(os.Getenv("VERIF_C12_SCRIPT")), &sc); err != nil {
		os.Exit(90)
	}
	f, err := os.OpenFile(sc.File, os.O_CREATE|os.O_WRONLY|os.O_APPEND, 0o644)
	if err != nil {
		os.Exit(91)
	}
	ack, err := os.OpenFile(sc.Ack, os.O_CREATE|os.O_WRONLY|os.O_APPEND, 0o644)
	if err != nil {
		os.Exit(92)
	}
	clk := &handClock{}
	ks := &killSink{f: f, killAt: sc.KillSink, before: sc.KillBefore}
	bws := &zapcore.BufferedWriteSyncer{WS: ks, Size: sc.Size, FlushInterval: time.Second, Clock: clk}
	accepted := 0
	stopped := false
	for i, op := range sc.Ops {
		if i == sc.KillOp {
			selfKill()
		}
		switch op.K {
		case "w":
			if n, err := bws.Write(c12Payload(accepted, op.N)); err != nil || n != op.N {
				os.Exit(93)
			}
			accepted++
		case "s":
			if err := bws.Sync(); err != nil {
				os.Exit(94)
			}
			fmt.Fprintf(ack, "%d\n", accepted) // everything accepted so far is acknowledged
		case "t":
			if ch := clk.channel(); ch != nil && !stopped {
				select {
				case ch <- time.Unix(1, 0):
				case <-time.After(12 * time.Second):
					os.Exit(95)
				}
			}
		case "x":
			if err := bws.Stop(); err != nil {
				os.Exit(96)
			}
			if !stopped && accepted > 0 {
				stopped = true
				fmt.Fprintf(ack, "%d\n", accepted) // first Stop flushes as well
			}
			stopped = true
		}
	}
	os.Exit(0)
}

func propC12Crash(t *rapid.T) {
	dir := os.Getenv("VERIF_WORKDIR")
	if dir == "" {
		dir = os.TempDir()
	}
	sc := c12CrashScript{Size: rapid.SampledFrom([]int{1, 8, 32, 64, 4096}).Draw(t, "size"), KillSink: -1, KillOp: -1,
		File: fmt.Sprintf("%s/c12-%d.log", dir, os.Getpid()), Ack: fmt.Sprintf("%s/c12-%d.ack", dir, os.Getpid())}
	n := rapid.IntRange(1, 20).Draw(t, "ops")
	var lens []int
	for i := 0; i < n; i++ {
		switch rapid.IntRange(0, 7).Draw(t, "op") {
		case 0:
			sc.Ops = append(sc.Ops, c12CrashOp{K: "s"})
		case 1:
			sc.Ops = append(sc.Ops, c12CrashOp{K: "t"})
		case 2:
			if rapid.IntRange(0, 2).Draw(t, "reallyStop") == 0 {
				sc.Ops = append(sc.Ops, c12CrashOp{K: "x"})
			}
		default:
			l := rapid.SampledFrom([]int{1, 5, sc.Size, sc.Size + 1, 3 * sc.Size, 13}).Draw(t, "len")
			sc.Ops = append(sc.Ops, c12CrashOp{K: "w", N: l})
			lens = append(lens, l)
		}
	}
	switch rapid.IntRange(0, 3).Draw(t, "killKind") {
	case 0:
		sc.KillOp = rapid.IntRange(0, len(sc.Ops)).Draw(t, "killBeforeOp")
	case 1, 2:
		sc.KillSink = rapid.IntRange(0, 2*len(sc.Ops)+1).Draw(t, "killAtSinkCall")
		sc.KillBefore = rapid.Bool().Draw(t, "killBeforeCall")
	}
	os.Remove(sc.File)
	os.Remove(sc.Ack)
	js, _ := json.Marshal(sc)
	cmd := exec.Command(os.Args[0])
	cmd.Env = append(os.Environ(), "VERIF_CHILD=c12", "VERIF_C12_SCRIPT="+string(js))
	err := cmd.Run()
	killed := false
	if cmd.ProcessState != nil {
		if ws, ok := cmd.ProcessState.Sys().(syscall.WaitStatus); ok && ws.Signaled() {
			killed = true
		} else if cmd.ProcessState.ExitCode() == 98 || cmd.ProcessState.ExitCode() == 95 {
			t.Fatalf("VERIF-DEADLOCK child hung inside the script (exit %d): Write/Sync/Stop/tick did not return; script %s", cmd.ProcessState.ExitCode(), js)
		} else if cmd.ProcessState.ExitCode() != 0 {
			t.Fatalf("child failed with exit status %d (%v): script %s", cmd.ProcessState.ExitCode(), err, js)
		}
	}
	content, _ := os.ReadFile(sc.File)
	ackb, _ := os.ReadFile(sc.Ack)
	os.Remove(sc.File)
	os.Remove(sc.Ack)
	acked := 0
	for _, l := range strings.Fields(string(ackb)) {
		if v, err := strconv.Atoi(l); err == nil && v > acked {
			acked = v
		}
	}
	// the file must be the concatenation of the first j whole writes for some j >= acked
	off, j := 0, 0
	for j < len(lens) && off+lens[j] <= len(content) {
		if !bytes.Equal(content[off:off+lens[j]], c12Payload(j, lens[j])) {
			t.Fatalf("file content diverges from accepted write %d at offset %d: script %s", j, off, js)
		}
		off += lens[j]
		j++
	}
	if off != len(content) {
		t.Fatalf("after the crash the file ends inside write %d (%d stray bytes): not a whole-write-aligned prefix; script %s", j, len(content)-off, js)
	}
	if j < acked {
		t.Fatalf("after the crash the file holds %d whole writes but %d were acknowledged by Sync/Stop; script %s", j, acked, js)
	}
	if !killed && j != len(lens) {
		// clean exit: everything accepted before the last Sync/Stop must be there (later writes may remain buffered)
		if j < acked {
			t.Fatalf("clean run lost acknowledged writes")
		}
	}
	statCase("C12", killed, fmt.Sprintf("crash|%d|kop%d ks%d%v|%d", sc.Size, sc.KillOp, sc.KillSink, sc.KillBefore, len(sc.Ops)), "crash child", fmt.Sprintf("killed=%v", killed))
	if killed {
		statSample("C12", func() string { return string(js) + fmt.Sprintf(" => file has %d writes, acked %d", j, acked) })
	}
}

// ---- sink faults (fault enumeration over the position of a failing sink call) ----
//
// faultOpSink fails the sink Write and Sync calls whose indices are scripted.
// A failing Write stores nothing. Oracle, sound whatever the syncer does
// internally after a fault: a Sync or Stop that returns nil promises that
// everything accepted before it is in the sink and that the sink was synced
// afterwards; an error is only ever returned after a sink fault; and as long
// as no sink WRITE has failed, a failed sink Sync costs nothing - the bytes are
// all there and every later Sync reaches the sink again.
type faultOpSink struct {
	mu         sync.Mutex
	total      int
	writeCalls int
	syncCalls  int
	okSyncAt   int // sink total at the last successful Sync
	failWrite  map[int]bool
	failSync   map[int]bool
	wFaults    int
	sFaults    int
}

func (s *faultOpSink) Write(p []byte) (int, error) {
	s.mu.Lock()
	defer s.mu.Unlock()
	i := s.writeCalls
	s.writeCalls++
	if s.failWrite[i] {
		s.wFaults++
		return 0, fmt.Errorf("sink write %d fails", i)
	}
	s.total += len(p)
	return len(p), nil
}

func (s *faultOpSink) Sync() error {
	s.mu.Lock()
	defer s.mu.Unlock()
	i := s.syncCalls
	s.syncCalls++
	if s.failSync[i] {
		s.sFaults++
		return fmt.Errorf("sink sync %d fails", i)
	}
	s.okSyncAt = s.total
	return nil
}

func (s *faultOpSink) snap() (total, syncCalls, okSyncAt, wFaults, sFaults int) {
	s.mu.Lock()
	defer s.mu.Unlock()
	return s.total, s.syncCalls, s.okSyncAt, s.wFaults, s.sFaults
}

func propC12Faults(t *rapid.T) {
	size := rapid.IntRange(4, 64).Draw(t, "size")
	clk := &handClock{}
	sink := &faultOpSink{failWrite: map[int]bool{}, failSync: map[int]bool{}}
	for i := 0; i < 12; i++ {
		if rapid.IntRange(0, 5).Draw(t, "syncFails") == 0 {
			sink.failSync[i] = true
		}
		if rapid.IntRange(0, 9).Draw(t, "writeFails") == 0 {
			sink.failWrite[i] = true
		}
	}
	bws := &zapcore.BufferedWriteSyncer{WS: sink, Size: size, FlushInterval: time.Second, Clock: clk}
	accepted := 0
	var hist []string
	fail := func(f string, a ...any) {
		t.Fatalf("%s\n size %d, failing sink writes %v, failing sink syncs %v\n history: %s", fmt.Sprintf(f, a...), size, sink.failWrite, sink.failSync, strings.Join(hist, " "))
	}
	afterFlush := func(what string, err error, s0 int) {
		total, sc, okAt, wf, sf := sink.snap()
		if err != nil && wf == 0 && sf == 0 {
			fail("%s returned %v although no sink call has failed", what, err)
		}
		if err == nil {
			if total != accepted {
				fail("%s returned nil, but %d of the %d accepted bytes are in the sink", what, total, accepted)
			}
			if okAt != total {
				fail("%s returned nil, but the sink was not (successfully) synced after its last write: synced at %d of %d bytes", what, okAt, total)
			}
		}
		if wf == 0 {
			// only Sync faults so far: nothing is lost, and the sink's Sync is attempted every time
			if total != accepted {
				fail("after %s (no sink write has failed): %d of %d accepted bytes are in the sink", what, total, accepted)
			}
			if sc != s0+1 {
				fail("%s reached the sink's Sync %d times, want exactly once (an earlier failed Sync must not make later ones skip the sink)", what, sc-s0)
			}
		}
	}
	n := rapid.IntRange(2, 14).Draw(t, "ops")
	nt := false
	for i := 0; i < n; i++ {
		switch rapid.SampledFrom([]string{"write", "write", "sync", "sync", "tick", "elapse"}).Draw(t, "op") {
		case "write":
			l := rapid.IntRange(1, size+2).Draw(t, "len")
			k, err := bws.Write(bytes.Repeat([]byte{'x'}, l))
			hist = append(hist, fmt.Sprintf("W%d=(%d,%v)", l, k, err != nil))
			_, _, _, wf, _ := sink.snap()
			if err != nil && wf == 0 {
				fail("Write returned %v although no sink write has failed", err)
			}
			if err == nil {
				if k != l {
					fail("Write(%d) = (%d, nil)", l, k)
				}
				accepted += l
			}
		case "sync":
			_, s0, _, _, _ := sink.snap()
			err := bws.Sync()
			hist = append(hist, fmt.Sprintf("S=%v", err != nil))
			afterFlush("Sync", err, s0)
			if _, _, _, wf, sf := sink.snap(); wf+sf > 0 {
				nt = true
			}
		case "tick":
			ch := clk.channel()
			if ch == nil {
				continue
			}
			clk.advance(time.Second)
			_, s0, _, _, _ := sink.snap()
			select {
			case ch <- clk.Now():
			case <-time.After(20 * time.Second):
				fail("VERIF-DEADLOCK flush loop did not take a tick within 20s")
			}
			if !waitFor(func() bool { _, sc, _, wf, _ := sink.snap(); return sc > s0 || wf > 0 }, 20*time.Second) {
				fail("a flush tick was taken but the sink's Sync was never attempted (after an earlier failed Sync the periodic flush must keep working)")
			}
			hist = append(hist, "T")
		case "elapse":
			clk.advance(time.Duration(rapid.IntRange(1, 9).Draw(t, "tenths")) * time.Second / 10)
		}
	}
	_, s0, _, _, _ := sink.snap()
	err := bws.Stop()
	hist = append(hist, fmt.Sprintf("Stop=%v", err != nil))
	if clk.channel() != nil {
		afterFlush("Stop", err, s0)
	}
	if n := flushLoopGoroutines(); n > 0 && !waitFor(func() bool { return flushLoopGoroutines() == 0 }, 10*time.Second) {
		fail("%d flush goroutine(s) still running after Stop", n)
	}
	_, _, _, wf, sf := sink.snap()
	statCase("C12", nt, fmt.Sprintf("faults|%d|w%d s%d|%d", size, wf, sf, n), "sink faults", fmt.Sprintf("write faults %d", min(wf, 2)), fmt.Sprintf("sync faults %d", min(sf, 3)))
}

func TestC12Faults(t *testing.T) { rapid.Check(t, propC12Faults) }

func TestC12Sequential(t *testing.T) { rapid.Check(t, propC12Sequential) }
func TestC12Concurrent(t *testing.T) { rapid.Check(t, propC12Concurrent) }
func TestC12Crash(t *testing.T)      { rapid.Check(t, propC12Crash) }
func TestC12TickBusy(t *testing.T)   { rapid.Check(t, propC12TickWhileBusy) }

func TestRegressC12(t *testing.T) {
	sink := &opSink{}
	clk := &handClock{}
	bws := &zapcore.BufferedWriteSyncer{WS: sink, Size: 8, Clock: clk}
	bws.Write([]byte("abcde\n"))
	bws.Write([]byte("fgh\n")) // does not fit: flush first, never split
	bws.Write([]byte("0123456789\n"))
	if err := bws.Sync(); err != nil {
		t.Fatal(err)
	}
	var got []string
	for _, w := range sink.writes {
		got = append(got, string(w))
	}
	if fmt.Sprint(got) != fmt.Sprint([]string{"abcde\n", "fgh\n", "0123456789\n"}) || sink.lastOp != "sync" {
		t.Fatalf("sink writes %q last=%s", got, sink.lastOp)
	}
	if err := bws.Stop(); err != nil || bws.Stop() != nil {
		t.Fatalf("Stop: %v", err)
	}
	if flushLoopGoroutines() != 0 && !waitFor(func() bool { return flushLoopGoroutines() == 0 }, 10*time.Second) {
		t.Fatalf("flush goroutine left running")
	}
}
