package props

// C14 — SugaredLogger never drops or misattributes loosely-typed arguments.

import (
	"errors"
	"fmt"
	"math/big"
	"strings"
	"testing"

	"go.uber.org/zap"
	"go.uber.org/zap/zapcore"
	"go.uber.org/zap/zaptest/observer"
	"pgregory.net/rapid"
)

type keyT string

type c14Arg struct {
	kind string // field strkey badkey err nil value
	v    any
}

func genC14Arg(t *rapid.T) c14Arg {
	switch rapid.IntRange(0, 11).Draw(t, "argKind") {
	case 0, 1, 2, 3:
		return c14Arg{"strkey", rapid.SampledFrom([]string{"k1", "k2", "", "k1", "error", "ignored", "k\"3"}).Draw(t, "key")}
	case 4:
		return c14Arg{"field", genSpec(t, 1, false, specOpts{maxKids: 2}).Field()}
	case 5:
		es := genErrSpec(t, 1, true)
		return c14Arg{"err", es.build()}
	case 6:
		return c14Arg{"nil", nil}
	case 7:
		bad := []any{1, keyT("custom"), []int{1, 2}, true, 2.5, struct{ A int }{1}, []byte("k"), &struct{}{}}
		return c14Arg{"badkey", bad[rapid.IntRange(0, len(bad)-1).Draw(t, "badKey")]}
	case 8:
		// a value implementing several of the interfaces zap.Any looks for; one
		// that is an error counts as a bare error wherever it is not a pair's value
		v, _ := genMultiIface(t)
		if _, isErr := v.(error); isErr {
			return c14Arg{"err", v}
		}
		return c14Arg{"value", v}
	default:
		// arbitrary value, including every dynamic type zap.Any special-cases
		for {
			s := genSpec(t, 1, false, specOpts{maxKids: 2, faults: false})
			if s.anyCapable() && s.Kind != "err" {
				return c14Arg{"value", s.anyValue()}
			}
		}
	}
}

// c14Variant returns the sugared logger itself or an equivalent one obtained
// through another constructor path (none of them adds context or a name).
func c14Variant(t *rapid.T, s *zap.SugaredLogger) *zap.SugaredLogger {
	switch rapid.SampledFrom([]string{"plain", "plain", "WithOptions", "Desugar.Sugar", "Named(empty)", "With()", "WithOptions.WithOptions", "Desugar.WithOptions.Sugar", "Development", "Development"}).Draw(t, "loggerVariant") {
	case "Development":
		// development mode changes what DPanic does, not how argument lists are swept or reported
		return s.WithOptions(zap.Development())
	case "WithOptions":
		return s.WithOptions(zap.AddCallerSkip(0))
	case "Desugar.Sugar":
		return s.Desugar().Sugar()
	case "Named(empty)":
		return s.Named("")
	case "With()":
		return s.With()
	case "WithOptions.WithOptions":
		return s.WithOptions().WithOptions(zap.AddCallerSkip(0))
	case "Desugar.WithOptions.Sugar":
		return s.Desugar().WithOptions(zap.AddCallerSkip(0)).Sugar()
	}
	return s
}

// c14Reference is the independent sweep written from the documentation of
// SugaredLogger.With.
type c14Diag struct {
	kind  string // dangling multierr invalid
	value any
	err   error
	pairs []c14Pair
}

type c14Pair struct {
	pos      int
	key, val any
}

func c14Reference(args []any) (fields []zapcore.Field, diags []c14Diag) {
	seenErr := false
	var invalid []c14Pair
	for i := 0; i < len(args); {
		if f, ok := args[i].(zapcore.Field); ok {
			fields = append(fields, f) // typed fields pass through unchanged
			i++
			continue
		}
		if e, ok := args[i].(error); ok {
			if !seenErr {
				seenErr = true
				fields = append(fields, zap.NamedError("error", e)) // first bare error under key "error"
			} else {
				diags = append(diags, c14Diag{kind: "multierr", err: e})
			}
			i++
			continue
		}
		if i == len(args)-1 {
			diags = append(diags, c14Diag{kind: "dangling", value: args[i]})
			break
		}
		if k, ok := args[i].(string); ok {
			fields = append(fields, c14RefAny(k, args[i+1]))
		} else {
			invalid = append(invalid, c14Pair{i, args[i], args[i+1]})
		}
		i += 2
	}
	if len(invalid) > 0 {
		diags = append(diags, c14Diag{kind: "invalid", pairs: invalid})
	}
	return
}

// c14RefAny is the representation zap.Any is documented to choose, written down independently for the values
// that satisfy several of the interfaces it looks for: marshalers first (object before array), then the
// concrete types, then error, then fmt.Stringer, finally reflection. No concrete type of the switch has
// methods of its own except time.Time/time.Duration (Stringers, listed before the Stringer case), so only the
// order object > array > error > rest needs spelling out.
func c14RefAny(k string, v any) zapcore.Field {
	switch x := v.(type) {
	case zapcore.ObjectMarshaler:
		return zap.Object(k, x)
	case zapcore.ArrayMarshaler:
		return zap.Array(k, x)
	case error:
		return zap.NamedError(k, x)
	}
	return zap.Any(k, v)
}

func recString(fs ...zapcore.Field) string {
	r, p := record(fs...)
	if p != nil {
		return fmt.Sprintf("PANIC(%v)", p)
	}
	return renderR(r)
}

func valueString(v any) string {
	r, p := record(zap.Any("x", v))
	if p != nil || len(r.Kids) == 0 {
		return fmt.Sprintf("PANIC-or-empty(%v)", p)
	}
	k := *r.Kids[0]
	k.K = ""
	return renderR(&k)
}

func stripKey(n *rnode) string {
	k := *n
	k.K = ""
	return renderR(&k)
}

// diagMatches reports whether an emitted error-level entry identifies the
// offending item of d.
func diagMatches(d c14Diag, e observer.LoggedEntry) bool {
	r, p := record(e.Context...)
	if p != nil {
		return false
	}
	// the diagnostic may be logged through a derived logger whose context
	// (possibly with open namespaces) precedes the diagnostic's own fields
	var flat []*rnode
	var walk func(n *rnode)
	walk = func(n *rnode) {
		for _, k := range n.Kids {
			flat = append(flat, k)
			if k.M == "Namespace" {
				walk(k)
			}
		}
	}
	walk(r)
	switch d.kind {
	case "multierr":
		we, _ := record(zap.Error(d.err))
		if len(we.Kids) == 0 {
			return false
		}
		for i := 0; i+len(we.Kids) <= len(flat); i++ {
			ok := true
			for j, w := range we.Kids {
				if renderR(flat[i+j]) != renderR(w) {
					ok = false
					break
				}
			}
			if ok {
				return true
			}
		}
	case "dangling":
		want := valueString(d.value)
		for _, k := range flat {
			if stripKey(k) == want {
				return true
			}
		}
	case "invalid":
		for _, k := range flat {
			if k.M != "Array" || len(k.Kids) != len(d.pairs) {
				continue
			}
			ok := true
			for i, el := range k.Kids {
				pr := d.pairs[i]
				hasPos, hasKey, hasVal := false, false, false
				for _, m := range el.Kids {
					if v, isInt := asInt64(m.V); isInt && v == int64(pr.pos) {
						hasPos = true
					}
					if stripKey(m) == valueString(pr.key) {
						hasKey = true
					}
					if stripKey(m) == valueString(pr.val) {
						hasVal = true
					}
				}
				if !(hasPos && hasKey && hasVal) {
					ok = false
				}
			}
			if ok {
				return true
			}
		}
	}
	return false
}

var c14Levels = []zapcore.Level{zapcore.DebugLevel, zapcore.InfoLevel, zapcore.WarnLevel, zapcore.ErrorLevel, zapcore.DPanicLevel, zapcore.PanicLevel, zapcore.FatalLevel}

func c14CallW(s *zap.SugaredLogger, lvl zapcore.Level, viaLogw bool, msg string, args []any) {
	if viaLogw {
		s.Logw(lvl, msg, args...)
		return
	}
	switch lvl {
	case zapcore.DebugLevel:
		s.Debugw(msg, args...)
	case zapcore.InfoLevel:
		s.Infow(msg, args...)
	case zapcore.WarnLevel:
		s.Warnw(msg, args...)
	case zapcore.ErrorLevel:
		s.Errorw(msg, args...)
	case zapcore.DPanicLevel:
		s.DPanicw(msg, args...)
	case zapcore.PanicLevel:
		s.Panicw(msg, args...)
	case zapcore.FatalLevel:
		s.Fatalw(msg, args...)
	}
}

func propC14Args(t *rapid.T) {
	n := rapid.IntRange(0, 9).Draw(t, "nArgs")
	if rapid.IntRange(0, 29).Draw(t, "longList") == 0 {
		n = rapid.SampledFrom([]int{17, 18, 19, 33, 40, 65}).Draw(t, "longListLen") // more pairs than any pre-sized scratch slice
	}
	cargs := make([]c14Arg, n)
	args := make([]any, n)
	for i := range cargs {
		if n > 9 && rapid.Bool().Draw(t, "badKeyHere") {
			// long lists are rich in non-string keys (many invalid pairs in ONE call)
			bad := []any{i, keyT(fmt.Sprintf("custom%d", i)), []int{i}, i%2 == 0, float64(i) + 0.5}
			cargs[i] = c14Arg{"badkey", bad[rapid.IntRange(0, len(bad)-1).Draw(t, "badKey")]}
		} else {
			cargs[i] = genC14Arg(t)
		}
		args[i] = cargs[i].v
	}
	wantFields, wantDiags := c14Reference(args)
	enabled := rapid.IntRange(0, 5).Draw(t, "enabled") != 0
	var enab zapcore.LevelEnabler = zapcore.DebugLevel
	if !enabled {
		enab = zap.LevelEnablerFunc(func(zapcore.Level) bool { return false })
	}
	core, logs := observer.New(enab)
	term := new(int64)
	s := c14Variant(t, zap.New(core, zap.WithFatalHook(countHook{term}), zap.WithPanicHook(countHook{term})).Sugar())
	lvl := rapid.SampledFrom(c14Levels).Draw(t, "level")
	mode := rapid.SampledFrom([]string{"w", "logw", "with", "withlazy", "with+w", "withlazy-delayed", "with-delayed"}).Draw(t, "mode")
	msg := genStr().Draw(t, "msg")
	wantMain := wantFields
	func() {
		defer func() {
			if p := recover(); p != nil {
				t.Fatalf("sugared call panicked: %v\nmode %s args %v", p, mode, renderArgs(cargs))
			}
		}()
		switch mode {
		case "w":
			c14CallW(s, lvl, false, msg, args)
		case "logw":
			c14CallW(s, lvl, true, msg, args)
		case "with":
			c14CallW(s.With(args...), lvl, false, msg, nil)
		case "withlazy":
			c14CallW(s.WithLazy(args...), lvl, true, msg, nil)
		case "withlazy-delayed", "with-delayed":
			// derive, then run unrelated sugared calls before the child is first used
			// (the argument list is the caller's scratch slice: refilled for the next call as soon as With/WithLazy
			// has returned - the sugared WithLazy defers the evaluation of fields, not the reading of its arguments)
			var child *zap.SugaredLogger
			own := append([]interface{}(nil), args...)
			if mode == "with-delayed" {
				child = s.With(own...)
			} else {
				child = s.WithLazy(own...)
			}
			for j := range own {
				own[j] = "recycled"
			}
			noise := zap.New(zapcore.NewNopCore()).Sugar()
			noise.Infow("noise", "component", "cache", "hits", 7, "x", 1.5)
			_ = noise.With("a", 1, "b", "two", "c", 3.0)
			_ = noise.WithLazy("d", 4, "e", "five")
			noise.WithLazy("f", 6).Errorw("noise2", "g", 7)
			c14CallW(child, lvl, false, msg, nil)
		case "with+w":
			// context via With, the same list again at the call site
			c14CallW(s.With(args...), lvl, false, msg, args)
			wantMain = append(append([]zapcore.Field{}, wantFields...), wantFields...)
			wantDiags = append(append([]c14Diag{}, wantDiags...), wantDiags...)
		}
	}()
	all := logs.All()
	desc := func() string {
		return fmt.Sprintf("mode %s level %v enabled %v args %s", mode, lvl, enabled, renderArgs(cargs))
	}
	if !enabled {
		if len(all) != 0 {
			t.Fatalf("disabled logger emitted %d entries\n%s", len(all), desc())
		}
		statCase("C14", len(wantDiags) > 0, "disabled|"+argShape(cargs), "disabled level")
		return
	}
	// the main entry is the one at the requested level with the message;
	// diagnostics are separate error-level entries
	mainIdx := -1
	for i := len(all) - 1; i >= 0; i-- {
		if all[i].Message == msg && all[i].Level == lvl {
			mainIdx = i
			break
		}
	}
	if mainIdx < 0 {
		t.Fatalf("main entry (level %v, message %q) was not logged; entries: %v\n%s", lvl, msg, all, desc())
	}
	main := all[mainIdx]
	if got, want := recString(main.Context...), recString(wantMain...); got != want || len(main.Context) != len(wantMain) {
		t.Fatalf("main entry fields differ from the reference sweep:\n got  %s\n want %s\n%s", clipS(got), clipS(want), desc())
	}
	for i := range wantMain {
		if main.Context[i].Key != wantMain[i].Key || main.Context[i].Type != wantMain[i].Type {
			t.Fatalf("field %d is %q/%v, want %q/%v\n%s", i, main.Context[i].Key, main.Context[i].Type, wantMain[i].Key, wantMain[i].Type, desc())
		}
	}
	var diags []observer.LoggedEntry
	for i, e := range all {
		if i != mainIdx {
			diags = append(diags, e)
		}
	}
	if len(diags) != len(wantDiags) {
		t.Fatalf("%d diagnostic entries, reference expects %d (%v)\n entries: %v\n%s", len(diags), len(wantDiags), diagKinds(wantDiags), diags, desc())
	}
	used := make([]bool, len(diags))
	for _, d := range wantDiags {
		found := false
		for i, e := range diags {
			if used[i] || e.Level != zapcore.ErrorLevel {
				continue
			}
			if diagMatches(d, e) {
				used[i], found = true, true
				break
			}
		}
		if !found {
			t.Fatalf("no error-level entry identifies the %s item (%v %v %v)\n entries: %v\n%s", d.kind, d.value, d.err, d.pairs, diags, desc())
		}
	}
	// parity shift: a Field or error before a pair
	shift := false
	seenPair := false
	for i := len(cargs) - 1; i >= 0; i-- {
		if cargs[i].kind == "strkey" {
			seenPair = true
		}
		if (cargs[i].kind == "field" || cargs[i].kind == "err") && seenPair {
			shift = true
		}
	}
	nt := shift || len(wantDiags) > 0
	var labels []string
	for _, d := range wantDiags {
		labels = append(labels, "diagnostic "+d.kind)
	}
	if shift {
		labels = append(labels, "field/error shifts pair parity")
	}
	statCase("C14", nt, mode+"|"+lvl.String()+"|"+argShape(cargs), labels...)
	if nt {
		statSample("C14", func() string { return desc() })
	}
}

func diagKinds(ds []c14Diag) []string {
	var out []string
	for _, d := range ds {
		out = append(out, d.kind)
	}
	return out
}

func argShape(as []c14Arg) string {
	var sb strings.Builder
	for _, a := range as {
		sb.WriteByte(a.kind[0])
	}
	return sb.String()
}

func renderArgs(as []c14Arg) string {
	var parts []string
	for _, a := range as {
		parts = append(parts, fmt.Sprintf("%s:%s", a.kind, clipS(fmt.Sprintf("%#v", a.v))))
	}
	return "[" + strings.Join(parts, ", ") + "]"
}

// ---- message formatting

var c14Templates = []string{"", "x", "%v", "%d %s", "%%", "%!", "a%vb%vc", "%s", "%+v|%#v", "%5.2f", "%[2]v %[1]v", "%", "100%", "%z", "\n%v\n", "%v %v %v %v"}

// fmtErr / fmtStringer format differently from what Error()/String() return.
type fmtErr struct{ s string }

func (e fmtErr) Error() string              { return e.s }
func (e fmtErr) Format(f fmt.State, c rune) { fmt.Fprintf(f, "formatted(%s)", e.s) }

type fmtStringer struct{ s string }

func (e fmtStringer) String() string             { return e.s }
func (e fmtStringer) Format(f fmt.State, c rune) { fmt.Fprintf(f, "formatted<%s>", e.s) }

func genFmtArg(t *rapid.T) any {
	switch rapid.IntRange(0, 15).Draw(t, "fmtArgKind") {
	case 9:
		return (*ptrErr)(nil) // typed nil pointer error: fmt prints <nil>
	case 10:
		return (*ptrStringer)(nil)
	case 11:
		return fmtErr{"dial failed"}
	case 12:
		return fmtStringer{"str"}
	case 13:
		return big.NewFloat(1.0 / 3)
	case 14:
		return verboseErr{"verbose"}
	case 15:
		return &ptrErr{"ptr"}
	case 0:
		return genStr().Draw(t, "s")
	case 1:
		return rapid.Int().Draw(t, "i")
	case 2:
		return rapid.Float64().Draw(t, "f")
	case 3:
		return nil
	case 4:
		return errors.New("err")
	case 5:
		return []any{1, "a"}
	case 6:
		return zap.Int("field", 1)
	case 7:
		return okStringer{"stringer"}
	default:
		return struct{ A, B int }{1, 2}
	}
}

func propC14Messages(t *rapid.T) {
	core, logs := observer.New(zapcore.DebugLevel)
	term := new(int64)
	s := zap.New(core, zap.WithFatalHook(countHook{term}), zap.WithPanicHook(countHook{term})).Sugar()
	n := rapid.SampledFrom([]int{0, 1, 1, 1, 2, 3, 4, 5}).Draw(t, "nArgs")
	args := make([]any, n)
	for i := range args {
		args[i] = genFmtArg(t)
	}
	tmpl := rapid.OneOf(rapid.SampledFrom(c14Templates), genStr()).Draw(t, "template")
	lvl := rapid.SampledFrom(c14Levels).Draw(t, "level")
	style := rapid.SampledFrom([]string{"print", "printf", "println", "log", "logf", "logln"}).Draw(t, "style")
	var want string
	switch style {
	case "print", "log":
		want = fmt.Sprint(args...)
	case "printf", "logf":
		switch {
		case len(args) == 0:
			want = tmpl // verbatim
		case tmpl == "":
			want = fmt.Sprint(args...) // D1: documented degradation
		default:
			want = fmt.Sprintf(tmpl, args...)
		}
	default:
		want = fmt.Sprintln(args...)
		want = want[:len(want)-1]
	}
	func() {
		defer func() {
			if p := recover(); p != nil {
				t.Fatalf("%s at %v panicked: %v", style, lvl, p)
			}
		}()
		switch style {
		case "log":
			s.Log(lvl, args...)
		case "logf":
			s.Logf(lvl, tmpl, args...)
		case "logln":
			s.Logln(lvl, args...)
		case "print":
			[]func(...any){s.Debug, s.Info, s.Warn, s.Error, s.DPanic, s.Panic, s.Fatal}[lvl+1](args...)
		case "printf":
			[]func(string, ...any){s.Debugf, s.Infof, s.Warnf, s.Errorf, s.DPanicf, s.Panicf, s.Fatalf}[lvl+1](tmpl, args...)
		case "println":
			[]func(...any){s.Debugln, s.Infoln, s.Warnln, s.Errorln, s.DPanicln, s.Panicln, s.Fatalln}[lvl+1](args...)
		}
	}()
	all := logs.All()
	if len(all) != 1 {
		t.Fatalf("%s logged %d entries", style, len(all))
	}
	if all[0].Message != want || all[0].Level != lvl || len(all[0].Context) != 0 {
		t.Fatalf("%s(%q, %v) at %v: message %q (level %v, %d fields), want %q", style, tmpl, args, lvl, all[0].Message, all[0].Level, len(all[0].Context), want)
	}
	statCase("C14", n > 0 && (style == "printf" || style == "logf" || style == "println" || style == "logln"), fmt.Sprintf("msg|%s|%d|%v", style, n, strings.Count(tmpl, "%")), "message style "+style)
}

// propC14TwoCalls: two sugared calls through ONE logger whose core retains the
// entries (the observer, like any asynchronous or batching core). What the
// first call reported - its fields and its diagnostics - must still read the
// same after the second call.
func propC14TwoCalls(t *rapid.T) {
	core, logs := observer.New(zapcore.DebugLevel)
	term := new(int64)
	// the first call may be at Panic level with the real panic action (recovered by the caller, as a server's
	// request handler would); the logger must be as good as new for the second call
	realPanic := rapid.IntRange(0, 3).Draw(t, "firstCallPanics") == 0
	opts := []zap.Option{zap.WithFatalHook(countHook{term})}
	if !realPanic {
		opts = append(opts, zap.WithPanicHook(countHook{term}))
	}
	s := c14Variant(t, zap.New(core, opts...).Sugar())
	gen := func(label string) ([]c14Arg, []any) {
		n := rapid.IntRange(1, 7).Draw(t, label)
		if rapid.IntRange(0, 19).Draw(t, "longList") == 0 {
			n = rapid.SampledFrom([]int{18, 24, 40}).Draw(t, "longListLen")
		}
		ca := make([]c14Arg, n)
		as := make([]any, n)
		for i := range ca {
			if n > 9 && rapid.Bool().Draw(t, "badKeyHere") {
				bad := []any{i, keyT(fmt.Sprintf("custom%d", i)), []int{i}, float64(i) + 0.5}
				ca[i] = c14Arg{"badkey", bad[rapid.IntRange(0, len(bad)-1).Draw(t, "badKey")]}
			} else {
				ca[i] = genC14Arg(t)
			}
			as[i] = ca[i].v
		}
		return ca, as
	}
	c1, a1 := gen("nArgs1")
	c2, a2 := gen("nArgs2")
	mode1 := rapid.SampledFrom([]string{"w", "with", "withlazy"}).Draw(t, "mode1")
	mode2 := rapid.SampledFrom([]string{"w", "with", "withlazy"}).Draw(t, "mode2")
	first := true
	call := func(mode, msg string, args []any) {
		defer func() {
			if p := recover(); p != nil && !(first && realPanic && fmt.Sprint(p) == msg) {
				t.Fatalf("sugared call panicked: %v", p)
			}
		}()
		if first && realPanic {
			switch mode {
			case "w":
				s.Panicw(msg, args...)
			case "with":
				s.With(args...).Panic(msg)
			case "withlazy":
				s.WithLazy(args...).Panic(msg)
			}
			t.Fatalf("Panicw returned normally")
		}
		switch mode {
		case "w":
			s.Infow(msg, args...)
		case "with":
			s.With(args...).Info(msg)
		case "withlazy":
			s.WithLazy(args...).Info(msg)
		}
	}
	render := func(es []observer.LoggedEntry) []string {
		var out []string
		for _, e := range es {
			out = append(out, fmt.Sprintf("%v|%s|%s", e.Level, e.Message, recString(e.Context...)))
		}
		return out
	}
	if rapid.IntRange(0, 3).Draw(t, "abortedCallFirst") == 0 {
		// an earlier sugared call (on any logger of the process) that never completed: after a bare error, a pair with
		// a non-string key whose value panics when the diagnostic about it is recorded. The caller recovers; the calls
		// that follow are none the wiser.
		other := zap.New(zapcore.NewCore(zapcore.NewJSONEncoder(zapcore.EncoderConfig{MessageKey: "m"}), &memSink{}, zapcore.DebugLevel), zap.ErrorOutput(&memSink{})).Sugar()
		func() {
			defer func() { _ = recover() }()
			other.Infow("aborted", errors.New("bare error seen first"), 42, c08PanicObj{}, "dangling")
		}()
		func() {
			defer func() { _ = recover() }()
			other.Errorw("aborted", errors.New("bare error seen first"), c08PanicObj{})
		}()
		func() {
			defer func() { _ = recover() }()
			other.With(errors.New("bare error seen first"), 42, c08PanicObj{}).Info("aborted")
		}()
		logs.TakeAll()
	}
	call(mode1, "first", a1)
	first = false
	n1 := logs.Len()
	snap := render(logs.All())
	call(mode2, "second", a2)
	all := logs.All()
	// the second call's own entry carries exactly its own arguments (nothing left over from the first call)
	wantF2, wantD2 := c14Reference(a2)
	if second := all[n1:]; len(second) != 1+len(wantD2) {
		t.Fatalf("second call produced %d entries, reference expects 1 + %d diagnostics\n first args %s (%s, panics=%v)\n second args %s (%s)", len(second), len(wantD2), renderArgs(c1), mode1, realPanic, renderArgs(c2), mode2)
	} else {
		for _, e := range second {
			if e.Message == "second" && recString(e.Context...) != recString(wantF2...) {
				t.Fatalf("main entry of the second call differs from the reference sweep:\n got  %s\n want %s\n first args %s (%s, panics=%v)\n second args %s (%s)", clipS(recString(e.Context...)), clipS(recString(wantF2...)), renderArgs(c1), mode1, realPanic, renderArgs(c2), mode2)
			}
		}
	}
	after := render(all[:n1])
	for i := range snap {
		if snap[i] != after[i] {
			t.Fatalf("entry %d of the first call changed after the second call:\n before: %s\n after:  %s\n first args %s (%s)\n second args %s (%s)", i, clipS(snap[i]), clipS(after[i]), renderArgs(c1), mode1, renderArgs(c2), mode2)
		}
	}
	// and the first call's entries are what the reference says (diagnostics matched as in propC14Args)
	wantFields, wantDiags := c14Reference(a1)
	firstEs := all[:n1]
	if len(firstEs) != 1+len(wantDiags) {
		t.Fatalf("first call produced %d entries, reference expects 1 + %d diagnostics", len(firstEs), len(wantDiags))
	}
	used := make([]bool, len(firstEs))
	for _, d := range wantDiags {
		found := false
		for i, e := range firstEs {
			if used[i] || e.Level != zapcore.ErrorLevel || e.Message == "first" {
				continue
			}
			if diagMatches(d, e) {
				used[i], found = true, true
				break
			}
		}
		if !found {
			t.Fatalf("after a second sugared call, no error-level entry of the first call identifies its %s item any more\n first args %s (%s)\n second args %s (%s)\n entries %v", d.kind, renderArgs(c1), mode1, renderArgs(c2), mode2, firstEs)
		}
	}
	for _, e := range firstEs {
		if e.Message == "first" && recString(e.Context...) != recString(wantFields...) {
			t.Fatalf("main entry of the first call differs from the reference after the second call:\n got  %s\n want %s", clipS(recString(e.Context...)), clipS(recString(wantFields...)))
		}
	}
	_, d2 := c14Reference(a2)
	statCase("C14", len(wantDiags) > 0 && len(d2) > 0, "two|"+mode1+mode2+"|"+argShape(c1)+"|"+argShape(c2), "two calls through a retaining core")
}

func TestC14Args(t *testing.T)     { rapid.Check(t, propC14Args) }
func TestC14TwoCalls(t *testing.T) { rapid.Check(t, propC14TwoCalls) }
func TestC14Messages(t *testing.T) { rapid.Check(t, propC14Messages) }

func TestRegressC14(t *testing.T) {
	core, logs := observer.New(zapcore.DebugLevel)
	s := zap.New(core).Sugar()
	e1, e2 := errors.New("e1"), errors.New("e2")
	s.Infow("m", zap.Int("t", 1), "k", 2, e1, 3, "v", e2, "dangling")
	all := logs.All()
	if len(all) != 4 {
		t.Fatalf("got %d entries: %v", len(all), all)
	}
	main := all[3]
	want := []zapcore.Field{zap.Int("t", 1), zap.Any("k", 2), zap.Error(e1)}
	if recString(main.Context...) != recString(want...) {
		t.Fatalf("main fields %v", main.Context)
	}
	s.Infof("", 1, 2)
	s.Infof("%d-%d", 1, 2)
	s.Infof("tmpl %d")
	s.Infoln("a", 1)
	got := logs.All()[4:]
	for i, w := range []string{"1 2", "1-2", "tmpl %d", "a 1"} {
		if got[i].Message != w {
			t.Fatalf("message %d: %q want %q", i, got[i].Message, w)
		}
	}
}
