package props

// C07, first use of a WithLazy logger by several goroutines at once. The harness owns the schedule: the first
// evaluation of the deferred fields is parked inside a marshaler while other goroutines make THEIR first call
// through the same lazy logger or through children derived from it. "Evaluated at first use" means once, and
// every entry - whoever logs it, whenever - carries the deferred context.

import (
	"fmt"
	"strings"
	"sync"
	"sync/atomic"
	"testing"
	"time"

	"go.uber.org/zap"
	"go.uber.org/zap/zapcore"
	"pgregory.net/rapid"
)

type c07GateObj struct {
	evals   *atomic.Int32
	entered chan struct{}
	gate    chan struct{}
}

func (g c07GateObj) MarshalLogObject(enc zapcore.ObjectEncoder) error {
	n := g.evals.Add(1)
	if n == 1 {
		close(g.entered)
		<-g.gate
	}
	enc.AddInt("eval", int(n))
	return nil
}

type c07LockedLines struct {
	mu    sync.Mutex
	lines []string
}

func (l *c07LockedLines) Write(p []byte) (int, error) {
	l.mu.Lock()
	l.lines = append(l.lines, string(p))
	l.mu.Unlock()
	return len(p), nil
}
func (l *c07LockedLines) Sync() error { return nil }

func propC07LazyFirstUse(t *rapid.T) {
	sink := &c07LockedLines{}
	var core zapcore.Core = zapcore.NewCore(zapcore.NewJSONEncoder(zapcore.EncoderConfig{MessageKey: "m"}), sink, zapcore.DebugLevel)
	wrap := rapid.SampledFrom([]string{"plain", "plain", "hooked", "increase", "sampler", "ctx"}).Draw(t, "coreWrap")
	switch wrap {
	case "hooked":
		core = zapcore.RegisterHooks(core, func(zapcore.Entry) error { return nil })
	case "increase":
		core, _ = zapcore.NewIncreaseLevelCore(core, zapcore.DebugLevel)
	case "sampler":
		core = zapcore.NewSamplerWithOptions(core, time.Hour, 1<<30, 0)
	case "ctx":
		core = core.With([]zapcore.Field{zap.String("outer", "ctx")})
	}
	g := c07GateObj{evals: new(atomic.Int32), entered: make(chan struct{}), gate: make(chan struct{})}
	base := zap.New(core)
	route := rapid.SampledFrom([]string{"Logger.WithLazy", "Sugar.WithLazy", "NewLazyWith"}).Draw(t, "route")
	var lazy *zap.Logger
	switch route {
	case "Logger.WithLazy":
		lazy = base.WithLazy(zap.Object("gated", g), zap.Int("k", 1))
	case "Sugar.WithLazy":
		lazy = base.Sugar().WithLazy("gated", g, "k", 1).Desugar()
	default:
		lazy = zap.New(zapcore.NewLazyWith(core, []zapcore.Field{zap.Object("gated", g), zap.Int("k", 1)}))
	}
	others := rapid.IntRange(1, 3).Draw(t, "otherGoroutines")
	kinds := make([]string, others)
	for i := range kinds {
		kinds[i] = rapid.SampledFrom([]string{"same", "same", "child-with", "child-named", "child-lazy", "sugar"}).Draw(t, "use")
	}
	var wg sync.WaitGroup
	var mu sync.Mutex
	var problems []string
	run := func(name string, f func()) {
		wg.Add(1)
		go func() {
			defer wg.Done()
			defer func() {
				if p := recover(); p != nil {
					mu.Lock()
					problems = append(problems, fmt.Sprintf("%s panicked: %v", name, p))
					mu.Unlock()
				}
			}()
			f()
		}()
	}
	run("first user", func() { lazy.Info("first") })
	select {
	case <-g.entered:
	case <-time.After(10 * time.Second):
		t.Fatalf("VERIF-INCONCLUSIVE the deferred fields were never evaluated (route %s over %s)", route, wrap)
	}
	early := make(chan struct{}, others)
	for i, k := range kinds {
		i, k := i, k
		run(fmt.Sprintf("goroutine %d (%s)", i, k), func() {
			switch k {
			case "child-with":
				lazy.With(zap.Int("c", i)).Info("other")
			case "child-named":
				lazy.Named("n").Info("other")
			case "child-lazy":
				lazy.WithLazy(zap.Int("c", i)).Info("other")
			case "sugar":
				lazy.Sugar().Infow("other", "c", i)
			default:
				lazy.Info("other")
			}
			early <- struct{}{}
		})
	}
	// bounded wait: lets a goroutine that does NOT wait for the first evaluation run ahead; decides nothing otherwise
	select {
	case <-early:
	case <-time.After(20 * time.Millisecond):
	}
	close(g.gate)
	wg.Wait()
	desc := fmt.Sprintf("route %s over %s core, other users %v", route, wrap, kinds)
	if len(problems) > 0 {
		t.Fatalf("%s: %s", desc, strings.Join(problems, "; "))
	}
	if n := g.evals.Load(); n != 1 {
		t.Fatalf("%s: the deferred fields were evaluated %d times, want once (at first use)", desc, n)
	}
	sink.mu.Lock()
	lines := append([]string(nil), sink.lines...)
	sink.mu.Unlock()
	if len(lines) != 1+others {
		t.Fatalf("%s: %d lines for %d entries: %q", desc, len(lines), 1+others, lines)
	}
	for _, ln := range lines {
		if !strings.Contains(ln, `"gated":{"eval":1}`) || !strings.Contains(ln, `"k":1`) {
			t.Fatalf("%s: an entry lacks the deferred context: %s", desc, clipS(ln))
		}
	}
	statCase("C07", true, "lazyfirst|"+route+"|"+wrap+"|"+strings.Join(kinds, ","), "first use of a lazy logger by several goroutines")
}

func TestC07LazyFirstUse(t *testing.T) { rapid.Check(t, propC07LazyFirstUse) }
