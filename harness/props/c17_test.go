package props

// C17 — zapio.Writer logs exactly the lines of the byte stream, however it is chunked.

import (
	"bytes"
	"fmt"
	"io"
	"strings"
	"testing"
	"time"

	"go.uber.org/zap"
	"go.uber.org/zap/zapcore"
	"go.uber.org/zap/zapio"
	"go.uber.org/zap/zaptest/observer"
	"pgregory.net/rapid"
)

var c17Alphabet = []byte{'a', 'b', 'c', ' ', '\n', '\n', '\n', '\r', 0xff, 0x00, '"', '\t'}

// c17Chunk draws one Write payload: short pieces over a newline-heavy
// alphabet, sometimes a very long run (long lines), sometimes arbitrary bytes.
func c17Chunk(t *rapid.T, maxRun int) []byte {
	k := rapid.IntRange(0, 9).Draw(t, "chunkKind")
	if k == 2 && rapid.IntRange(0, 5).Draw(t, "veryLong") == 0 {
		return c17LongRun(t)
	}
	switch k {
	case 0:
		return nil // empty write
	case 1:
		return []byte{'\n'} // lone newline
	case 2:
		n := rapid.IntRange(1, maxRun).Draw(t, "run")
		b := bytes.Repeat([]byte{rapid.SampledFrom([]byte{'x', 'y', 0xfe}).Draw(t, "runByte")}, n)
		if rapid.Bool().Draw(t, "runNL") {
			b = append(b, '\n')
		}
		return b
	case 3:
		return rapid.SliceOfN(rapid.Byte(), 0, 12).Draw(t, "raw")
	default:
		return rapid.SliceOfN(rapid.SampledFrom(c17Alphabet), 0, 8).Draw(t, "chunk")
	}
}

func c17MaxRun() int {
	if tier() == "thorough" {
		return 1 << 16
	}
	return 3000
}

// c17LongRun: occasionally a very long partial line (beyond 64 KiB once two
// such chunks meet without a newline in between).
func c17LongRun(t *rapid.T) []byte {
	n := rapid.IntRange(30000, 70000).Draw(t, "longRun")
	return bytes.Repeat([]byte{'z'}, n)
}

type c17Op struct {
	Kind  string // write | sync
	Chunk []byte
}

func (o c17Op) String() string {
	if o.Kind == "sync" {
		return "Sync"
	}
	if len(o.Chunk) > 40 {
		return fmt.Sprintf("Write(%q…%d bytes)", o.Chunk[:40], len(o.Chunk))
	}
	return fmt.Sprintf("Write(%q)", o.Chunk)
}

func c17Ops(t *rapid.T, withSync bool) []c17Op {
	n := rapid.IntRange(0, 14).Draw(t, "nops")
	ops := make([]c17Op, 0, n)
	for i := 0; i < n; i++ {
		if withSync && rapid.IntRange(0, 5).Draw(t, "isSync") == 0 {
			ops = append(ops, c17Op{Kind: "sync"})
			continue
		}
		ops = append(ops, c17Op{Kind: "write", Chunk: c17Chunk(t, c17MaxRun())})
	}
	return ops
}

// c17Model is the reference: pending line; newline => emit pending (even
// empty); Sync/Close => emit pending only if non-empty.
type c17Model struct {
	pending []byte
	out     []string
}

func (m *c17Model) write(p []byte) {
	for _, b := range p {
		if b == '\n' {
			m.out = append(m.out, string(m.pending))
			m.pending = m.pending[:0]
		} else {
			m.pending = append(m.pending, b)
		}
	}
}

func (m *c17Model) sync() {
	if len(m.pending) > 0 {
		m.out = append(m.out, string(m.pending))
		m.pending = m.pending[:0]
	}
}

func c17Classify(ops []c17Op) (nontrivial bool, sig string, labels []string) {
	writes, spans, emptyInterior, syncs, long := 0, false, false, 0, false
	pendingLen := 0
	sawAny := false
	for _, o := range ops {
		if o.Kind == "sync" {
			syncs++
			pendingLen = 0
			continue
		}
		writes++
		if len(o.Chunk) > 1024 {
			long = true
		}
		if pendingLen > 0 && len(o.Chunk) > 0 {
			spans = true // a pending partial line is continued by this chunk
		}
		for _, b := range o.Chunk {
			if b == '\n' {
				if pendingLen == 0 && sawAny {
					emptyInterior = true
				}
				pendingLen = 0
			} else {
				pendingLen++
			}
			sawAny = true
		}
	}
	nontrivial = writes >= 2 && spans && emptyInterior
	sig = fmt.Sprintf("w%d s%d span%v empty%v long%v", writes, syncs, spans, emptyInterior, long)
	if spans {
		labels = append(labels, "line spans chunk boundary")
	}
	if emptyInterior {
		labels = append(labels, "empty interior line")
	}
	if syncs > 0 {
		labels = append(labels, "has Sync")
	}
	if long {
		labels = append(labels, "chunk > 1KiB")
	}
	return
}

func c17Shape(ops []c17Op) string {
	// finer signature: the sequence of op kinds with chunk classes
	var sb strings.Builder
	for _, o := range ops {
		if o.Kind == "sync" {
			sb.WriteByte('S')
			continue
		}
		nl := bytes.Count(o.Chunk, []byte{'\n'})
		switch {
		case len(o.Chunk) == 0:
			sb.WriteByte('e')
		case nl == 0:
			sb.WriteByte('t')
		case nl == len(o.Chunk):
			sb.WriteByte('n')
		case o.Chunk[len(o.Chunk)-1] == '\n':
			sb.WriteByte('L')
		default:
			sb.WriteByte('m')
		}
	}
	return sb.String()
}

func c17Run(t *rapid.T, ops []c17Op, lvl zapcore.Level, wrap ...func(zapcore.Core) zapcore.Core) []observer.LoggedEntry {
	core, logs := observer.New(zapcore.DebugLevel)
	for _, w := range wrap {
		core = w(core)
	}
	w := &zapio.Writer{Log: zap.New(core, zap.WithClock(fixedClock{time.Unix(1000, 0)})), Level: lvl}
	for i, o := range ops {
		if o.Kind == "sync" {
			if err := w.Sync(); err != nil {
				t.Fatalf("op %d: Sync returned %v", i, err)
			}
			continue
		}
		// hand over a private copy and scribble over it afterwards: the writer
		// must not retain the caller's slice.
		p := append([]byte(nil), o.Chunk...)
		// equivalent routes by which bytes reach an io.Writer: they must agree with Write at the level of the
		// stream (where a chunk ends is never a split point, whichever route delivered it)
		route := rapid.SampledFrom([]string{"Write", "Write", "io.WriteString", "io.Copy", "io.CopyBuffer(7)", "fmt.Fprint"}).Draw(t, "route")
		var n int
		var err error
		switch route {
		case "io.WriteString":
			n, err = io.WriteString(w, string(p))
		case "io.Copy": // a reader without WriteTo: io.Copy uses the writer's ReadFrom if it has one, its own loop otherwise
			var n64 int64
			n64, err = io.Copy(w, struct{ io.Reader }{bytes.NewReader(p)})
			n = int(n64)
		case "io.CopyBuffer(7)":
			var n64 int64
			n64, err = io.CopyBuffer(struct{ io.Writer }{w}, struct{ io.Reader }{bytes.NewReader(p)}, make([]byte, 7))
			n = int(n64)
		case "fmt.Fprint":
			n, err = fmt.Fprint(w, string(p))
		default:
			n, err = w.Write(p)
		}
		if n != len(o.Chunk) || err != nil {
			t.Fatalf("op %d: %s of %d bytes = (%d, %v), want (%d, nil)", i, route, len(o.Chunk), n, err, len(o.Chunk))
		}
		for j := range p {
			p[j] = '#'
		}
	}
	if err := w.Close(); err != nil {
		t.Fatalf("Close returned %v", err)
	}
	return logs.All()
}

func c17Compare(t *rapid.T, got []observer.LoggedEntry, want []string, lvl zapcore.Level) {
	if len(got) != len(want) {
		msgs := make([]string, len(got))
		for i := range got {
			msgs[i] = got[i].Message
		}
		t.Fatalf("logged %d messages, want %d:\n got  %q\n want %q", len(got), len(want), clip(msgs), clip(want))
	}
	for i := range got {
		if got[i].Message != want[i] {
			t.Fatalf("message %d: got %q want %q", i, clipS(got[i].Message), clipS(want[i]))
		}
		if got[i].Level != lvl {
			t.Fatalf("message %d logged at %v, want %v", i, got[i].Level, lvl)
		}
		if len(got[i].Context) != 0 {
			t.Fatalf("message %d carries unexpected fields %v", i, got[i].Context)
		}
	}
}

func propC17Model(t *rapid.T) {
	ops := c17Ops(t, true)
	lvl := zapcore.Level(rapid.SampledFrom([]int8{-1, 0, 1, 2}).Draw(t, "level"))
	var m c17Model
	for _, o := range ops {
		if o.Kind == "sync" {
			m.sync()
		} else {
			m.write(o.Chunk)
		}
	}
	m.sync() // Close
	// the logger under the writer may be built on any core; a sampling core decides per MESSAGE, so the
	// expected messages are the stream's lines filtered by the sampler's documented rule (reference model of C11)
	want := m.out
	var wraps []func(zapcore.Core) zapcore.Core
	coreKind := rapid.SampledFrom([]string{"observer", "observer", "sampler", "sampler", "hooked", "tee", "increase"}).Draw(t, "coreUnderTheWriter")
	switch coreKind {
	case "sampler":
		first := rapid.IntRange(0, 3).Draw(t, "samplerFirst")
		there := rapid.IntRange(0, 3).Draw(t, "samplerThereafter")
		wraps = append(wraps, func(c zapcore.Core) zapcore.Core { return zapcore.NewSamplerWithOptions(c, time.Hour, first, there) })
		md := &c11Model{uint64(first), uint64(there), int64(time.Hour), zapcore.Level(-128), map[c11Key]*c11Window{}}
		want = nil
		for _, line := range m.out {
			if fwd, _, _ := md.decide(lvl, line, time.Unix(1000, 0).UnixNano()); fwd {
				want = append(want, line)
			}
		}
	case "hooked":
		wraps = append(wraps, func(c zapcore.Core) zapcore.Core {
			return zapcore.RegisterHooks(c, func(zapcore.Entry) error { return nil })
		})
	case "tee":
		wraps = append(wraps, func(c zapcore.Core) zapcore.Core { return zapcore.NewTee(zapcore.NewNopCore(), c) })
	case "increase":
		wraps = append(wraps, func(c zapcore.Core) zapcore.Core {
			ic, err := zapcore.NewIncreaseLevelCore(c, zapcore.DebugLevel)
			if err != nil {
				return c
			}
			return ic
		})
	}
	got := c17Run(t, ops, lvl, wraps...)
	c17Compare(t, got, want, lvl)
	nt, sig, labels := c17Classify(ops)
	labels = append(labels, "core under the writer: "+coreKind)
	statCase("C17", nt, "model "+sig+" "+c17Shape(ops), labels...)
	if nt {
		statSample("C17", func() string { return fmt.Sprint("model ops=", ops, " => ", clip(m.out)) })
	}
}

// Metamorphic: two partitions of the same stream (no Sync) give the same
// messages, equal to the lines of the stream computed directly.
func propC17Partition(t *rapid.T) {
	ops := c17Ops(t, false)
	var stream []byte
	for _, o := range ops {
		stream = append(stream, o.Chunk...)
	}
	// reference straight from the stream
	var want []string
	parts := bytes.Split(stream, []byte{'\n'})
	for i, p := range parts {
		if i == len(parts)-1 {
			if len(p) > 0 {
				want = append(want, string(p))
			}
			break
		}
		want = append(want, string(p))
	}
	// second partition: cut points drawn independently
	var ops2 []c17Op
	rest := stream
	for len(rest) > 0 {
		k := rapid.IntRange(0, len(rest)).Draw(t, "cut")
		if rapid.IntRange(0, 3).Draw(t, "small") != 0 && k > 5 {
			k = k % 6
		}
		ops2 = append(ops2, c17Op{Kind: "write", Chunk: rest[:k]})
		rest = rest[k:]
		if len(ops2) > 60 {
			ops2 = append(ops2, c17Op{Kind: "write", Chunk: rest})
			break
		}
	}
	lvl := zapcore.InfoLevel
	got1 := c17Run(t, ops, lvl)
	got2 := c17Run(t, ops2, lvl)
	got3 := c17Run(t, []c17Op{{Kind: "write", Chunk: stream}}, lvl)
	c17Compare(t, got1, want, lvl)
	c17Compare(t, got2, want, lvl)
	c17Compare(t, got3, want, lvl)
	nt, sig, labels := c17Classify(ops)
	nt2, _, _ := c17Classify(ops2)
	statCase("C17", nt || nt2, "part "+sig+" "+c17Shape(ops)+"/"+c17Shape(ops2), append(labels, "metamorphic partition")...)
	if nt {
		statSample("C17", func() string { return fmt.Sprint("partition A=", ops, " B=", ops2, " => ", clip(want)) })
	}
}

// Level: disabled => nothing at all is logged and every Write still reports
// all bytes; with an AtomicLevel switched between operations nothing may be
// logged by an operation executed while the level is disabled, and what is
// logged while enabled never contains a newline.
func propC17Level(t *rapid.T) {
	ops := c17Ops(t, true)
	al := zap.NewAtomicLevelAt(zapcore.InfoLevel)
	inner, logs := observer.New(zapcore.DebugLevel)
	core, err := zapcore.NewIncreaseLevelCore(inner, al)
	if err != nil {
		t.Fatalf("NewIncreaseLevelCore: %v", err)
	}
	w := &zapio.Writer{Log: zap.New(core), Level: zapcore.InfoLevel}
	mode := rapid.SampledFrom([]string{"disabled", "switching"}).Draw(t, "mode")
	enabled := true
	switched := 0
	setEnabled := func(on bool) {
		enabled = on
		if on {
			al.SetLevel(zapcore.InfoLevel)
		} else {
			al.SetLevel(zapcore.ErrorLevel)
		}
	}
	if mode == "disabled" {
		setEnabled(false)
	}
	var m c17Model // the stream as if always enabled
	var x c17Model // the exact model under switching
	for i, o := range ops {
		if mode == "switching" && rapid.IntRange(0, 2).Draw(t, "flip") == 0 {
			setEnabled(!enabled)
			switched++
		}
		before := logs.Len()
		if o.Kind == "sync" {
			if err := w.Sync(); err != nil {
				t.Fatalf("op %d: Sync returned %v", i, err)
			}
			m.sync()
			// a Sync is a split point whether or not the level is enabled: while disabled the pending
			// partial line is dropped (nothing is logged), it is never glued onto later content
			if enabled {
				x.sync()
			} else {
				x.pending = x.pending[:0]
			}
		} else {
			n, err := w.Write(o.Chunk)
			if n != len(o.Chunk) || err != nil {
				t.Fatalf("op %d (enabled=%v): Write(%d bytes) = (%d, %v)", i, enabled, len(o.Chunk), n, err)
			}
			m.write(o.Chunk)
			if enabled {
				x.write(o.Chunk) // bytes written while the level is disabled are consumed and dropped
			}
		}
		if !enabled && logs.Len() != before {
			t.Fatalf("op %d %v logged %d message(s) while the level was disabled", i, o, logs.Len()-before)
		}
	}
	before := logs.Len()
	w.Close()
	if !enabled && logs.Len() != before {
		t.Fatalf("Close logged %d message(s) while the level was disabled", logs.Len()-before)
	}
	m.sync()
	if enabled {
		x.sync()
	}
	for i, e := range logs.All() {
		if strings.Contains(e.Message, "\n") {
			t.Fatalf("message %d contains a newline: %q", i, clipS(e.Message))
		}
		if e.Level != zapcore.InfoLevel {
			t.Fatalf("message %d at level %v", i, e.Level)
		}
	}
	if mode == "disabled" && logs.Len() != 0 {
		t.Fatalf("disabled writer logged %d messages", logs.Len())
	}
	if mode == "switching" && switched == 0 {
		// never switched: the plain model applies
		c17Compare(t, logs.All(), m.out, zapcore.InfoLevel)
	}
	if mode == "switching" {
		c17Compare(t, logs.All(), x.out, zapcore.InfoLevel)
	}
	nt, sig, labels := c17Classify(ops)
	statCase("C17", nt && (mode == "disabled" || switched > 0), "level "+mode+" "+sig+" "+c17Shape(ops), append(labels, "level "+mode)...)
}

func TestC17Model(t *testing.T)     { rapid.Check(t, propC17Model) }
func TestC17Partition(t *testing.T) { rapid.Check(t, propC17Partition) }
func TestC17Level(t *testing.T)     { rapid.Check(t, propC17Level) }

func FuzzC17(f *testing.F) {
	f.Fuzz(rapid.MakeFuzz(propC17Model))
}

// Regression table (plain, no library): shapes that earlier exploration or
// the sensitivity trials showed to matter.
func TestRegressC17(t *testing.T) {
	c17AfterRecoveredPanic(t)
	cases := []struct {
		chunks []string
		sync   map[int]bool // Sync before chunk i
		want   []string
	}{
		{[]string{"foo\n\nbar"}, nil, []string{"foo", "", "bar"}},
		{[]string{"foo", "\n", "\n", "bar\n"}, nil, []string{"foo", "", "bar"}},
		{[]string{"a", "b\nc", "\n"}, nil, []string{"ab", "c"}},
		{[]string{"\n"}, nil, []string{""}},
		{[]string{"a\n"}, nil, []string{"a"}},
		{[]string{"a", "b"}, map[int]bool{1: true}, []string{"a", "b"}},
		{[]string{"a\n", "b"}, map[int]bool{1: true}, []string{"a", "b"}},
		{[]string{"", "", "x"}, nil, []string{"x"}},
		{[]string{"x\ny", "z\n\n"}, nil, []string{"x", "yz", ""}},
	}
	for i, c := range cases {
		core, logs := observer.New(zapcore.DebugLevel)
		w := &zapio.Writer{Log: zap.New(core)}
		for j, ch := range c.chunks {
			if c.sync[j] {
				w.Sync()
			}
			if n, err := w.Write([]byte(ch)); n != len(ch) || err != nil {
				t.Fatalf("case %d: Write = %d, %v", i, n, err)
			}
		}
		w.Close()
		var got []string
		for _, e := range logs.All() {
			got = append(got, e.Message)
		}
		if fmt.Sprintf("%q", got) != fmt.Sprintf("%q", c.want) {
			t.Fatalf("case %d %q: got %q want %q", i, c.chunks, got, c.want)
		}
	}
}

// c17AfterRecoveredPanic: the logger behind a Writer runs user code (hooks, cores, encoder callbacks). If that code
// panics for one line, the panic is the Write caller's to deal with; once it has recovered, the Writer (nothing was
// buffered when the chunk arrived) carries on as a Writer does: later chunks are split into exactly their lines, and
// every call returns.
func c17AfterRecoveredPanic(t *testing.T) {
	for _, chunk := range []string{"first\nPANIC\nsecond\nthird\n", "PANIC\nrest\n\nmore\n", "a\nPANIC\n"} {
		core, logs := observer.New(zapcore.DebugLevel)
		lg := zap.New(core, zap.Hooks(func(e zapcore.Entry) error {
			if e.Message == "PANIC" {
				panic("a hook panics for this line")
			}
			return nil
		}))
		w := &zapio.Writer{Log: lg}
		func() {
			defer func() {
				if recover() == nil {
					t.Fatalf("%q: the hook's panic did not reach the caller of Write", chunk)
				}
			}()
			_, _ = w.Write([]byte(chunk))
		}()
		logs.TakeAll()
		done := make(chan string, 1)
		go func() {
			for _, c := range []string{"fourth\n", "fif", "th\n", "\n", "last"} {
				if n, err := w.Write([]byte(c)); n != len(c) || err != nil {
					done <- fmt.Sprintf("Write(%q) = (%d, %v)", c, n, err)
					return
				}
			}
			if err := w.Close(); err != nil {
				done <- fmt.Sprintf("Close: %v", err)
				return
			}
			done <- ""
		}()
		select {
		case msg := <-done:
			if msg != "" {
				t.Fatalf("after a recovered panic (%q): %s", chunk, msg)
			}
		case <-time.After(20 * time.Second):
			t.Fatalf("VERIF-DEADLOCK after a recovered panic in the logger's hook (%q) a later Write/Close on the same zapio.Writer did not return", chunk)
		}
		var got []string
		for _, e := range logs.All() {
			got = append(got, e.Message)
		}
		if want := []string{"fourth", "fifth", "", "last"}; fmt.Sprintf("%q", got) != fmt.Sprintf("%q", want) {
			t.Fatalf("after a recovered panic (%q) the later chunks were logged as %q, want %q", chunk, got, want)
		}
	}
}
