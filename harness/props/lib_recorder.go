package props

// Reference recorder: an independent ObjectEncoder/ArrayEncoder that records
// an ordered, typed call tree (namespaces nest everything that follows).

import (
	"bytes"
	"fmt"
	"math"
	"reflect"
	"strings"
	"time"

	"go.uber.org/zap/zapcore"
)

type rnode struct {
	M    string // method family: Object Array Namespace String Int64 ...
	K    string
	V    any
	Kids []*rnode
	Err  string // error returned by the marshaler (Object/Array)
}

type recObj struct {
	root *rnode
	cur  *rnode
}

func newRecObj() *recObj { n := &rnode{M: "Object"}; return &recObj{n, n} }

func (o *recObj) add(m, k string, v any) { o.cur.Kids = append(o.cur.Kids, &rnode{M: m, K: k, V: v}) }

func (o *recObj) AddArray(k string, v zapcore.ArrayMarshaler) error {
	a := &recArr{n: &rnode{M: "Array", K: k}}
	o.cur.Kids = append(o.cur.Kids, a.n)
	err := v.MarshalLogArray(a)
	if err != nil {
		a.n.Err = err.Error()
	}
	return err
}

func (o *recObj) AddObject(k string, v zapcore.ObjectMarshaler) error {
	s := newRecObj()
	s.root.K = k
	o.cur.Kids = append(o.cur.Kids, s.root)
	err := v.MarshalLogObject(s)
	if err != nil {
		s.root.Err = err.Error()
	}
	return err
}

func (o *recObj) AddBinary(k string, v []byte)          { o.add("Binary", k, append([]byte(nil), v...)) }
func (o *recObj) AddByteString(k string, v []byte)      { o.add("ByteString", k, append([]byte(nil), v...)) }
func (o *recObj) AddBool(k string, v bool)              { o.add("Bool", k, v) }
func (o *recObj) AddComplex128(k string, v complex128)  { o.add("Complex128", k, v) }
func (o *recObj) AddComplex64(k string, v complex64)    { o.add("Complex64", k, v) }
func (o *recObj) AddDuration(k string, v time.Duration) { o.add("Duration", k, v) }
func (o *recObj) AddFloat64(k string, v float64)        { o.add("Float64", k, v) }
func (o *recObj) AddFloat32(k string, v float32)        { o.add("Float32", k, v) }
func (o *recObj) AddInt(k string, v int)                { o.add("Int", k, v) }
func (o *recObj) AddInt64(k string, v int64)            { o.add("Int64", k, v) }
func (o *recObj) AddInt32(k string, v int32)            { o.add("Int32", k, v) }
func (o *recObj) AddInt16(k string, v int16)            { o.add("Int16", k, v) }
func (o *recObj) AddInt8(k string, v int8)              { o.add("Int8", k, v) }
func (o *recObj) AddString(k, v string)                 { o.add("String", k, v) }
func (o *recObj) AddTime(k string, v time.Time)         { o.add("Time", k, v) }
func (o *recObj) AddUint(k string, v uint)              { o.add("Uint", k, v) }
func (o *recObj) AddUint64(k string, v uint64)          { o.add("Uint64", k, v) }
func (o *recObj) AddUint32(k string, v uint32)          { o.add("Uint32", k, v) }
func (o *recObj) AddUint16(k string, v uint16)          { o.add("Uint16", k, v) }
func (o *recObj) AddUint8(k string, v uint8)            { o.add("Uint8", k, v) }
func (o *recObj) AddUintptr(k string, v uintptr)        { o.add("Uintptr", k, v) }
func (o *recObj) AddReflected(k string, v any) error {
	if _, txt := refJSON(v); txt != "" {
		return fmt.Errorf("%s", txt) // behave like an encoder that cannot encode the value
	}
	o.add("Reflected", k, v)
	return nil
}
func (o *recObj) OpenNamespace(k string) {
	n := &rnode{M: "Namespace", K: k}
	o.cur.Kids = append(o.cur.Kids, n)
	o.cur = n
}

type recArr struct{ n *rnode }

func (a *recArr) p(m string, v any) { a.n.Kids = append(a.n.Kids, &rnode{M: m, V: v}) }

func (a *recArr) AppendBool(v bool)              { a.p("Bool", v) }
func (a *recArr) AppendByteString(v []byte)      { a.p("ByteString", append([]byte(nil), v...)) }
func (a *recArr) AppendComplex128(v complex128)  { a.p("Complex128", v) }
func (a *recArr) AppendComplex64(v complex64)    { a.p("Complex64", v) }
func (a *recArr) AppendFloat64(v float64)        { a.p("Float64", v) }
func (a *recArr) AppendFloat32(v float32)        { a.p("Float32", v) }
func (a *recArr) AppendInt(v int)                { a.p("Int", v) }
func (a *recArr) AppendInt64(v int64)            { a.p("Int64", v) }
func (a *recArr) AppendInt32(v int32)            { a.p("Int32", v) }
func (a *recArr) AppendInt16(v int16)            { a.p("Int16", v) }
func (a *recArr) AppendInt8(v int8)              { a.p("Int8", v) }
func (a *recArr) AppendString(v string)          { a.p("String", v) }
func (a *recArr) AppendUint(v uint)              { a.p("Uint", v) }
func (a *recArr) AppendUint64(v uint64)          { a.p("Uint64", v) }
func (a *recArr) AppendUint32(v uint32)          { a.p("Uint32", v) }
func (a *recArr) AppendUint16(v uint16)          { a.p("Uint16", v) }
func (a *recArr) AppendUint8(v uint8)            { a.p("Uint8", v) }
func (a *recArr) AppendUintptr(v uintptr)        { a.p("Uintptr", v) }
func (a *recArr) AppendDuration(v time.Duration) { a.p("Duration", v) }
func (a *recArr) AppendTime(v time.Time)         { a.p("Time", v) }
func (a *recArr) AppendArray(v zapcore.ArrayMarshaler) error {
	s := &recArr{n: &rnode{M: "Array"}}
	a.n.Kids = append(a.n.Kids, s.n)
	err := v.MarshalLogArray(s)
	if err != nil {
		s.n.Err = err.Error()
	}
	return err
}
func (a *recArr) AppendObject(v zapcore.ObjectMarshaler) error {
	s := newRecObj()
	a.n.Kids = append(a.n.Kids, s.root)
	err := v.MarshalLogObject(s)
	if err != nil {
		s.root.Err = err.Error()
	}
	return err
}
func (a *recArr) AppendReflected(v any) error {
	if _, txt := refJSON(v); txt != "" {
		return fmt.Errorf("%s", txt)
	}
	a.p("Reflected", v)
	return nil
}

// record runs the fields through the recorder (as one With-chain + call site).
func record(fields ...zapcore.Field) (root *rnode, panicked any) {
	defer func() { panicked = recover() }()
	o := newRecObj()
	for _, f := range fields {
		f.AddTo(o)
	}
	return o.root, nil
}

func sameTimeExact(a, b time.Time) string {
	if !a.Equal(b) {
		return fmt.Sprintf("instant differs: %v vs %v", a.UTC(), b.UTC())
	}
	an, ao := a.Zone()
	bn, bo := b.Zone()
	if ao != bo || an != bn {
		return fmt.Sprintf("zone differs: %q%+d vs %q%+d", an, ao, bn, bo)
	}
	return ""
}

// methodFor names the encoder method family a raw Go value must arrive through.
func methodFor(raw any, inArray bool) string {
	switch raw.(type) {
	case string:
		return "String"
	case bool:
		return "Bool"
	case int:
		if inArray {
			return "Int"
		}
		return "Int64" // zap.Int documents that it is stored as an int64
	case int64:
		return "Int64"
	case int32:
		return "Int32"
	case int16:
		return "Int16"
	case int8:
		return "Int8"
	case uint:
		if inArray {
			return "Uint"
		}
		return "Uint64"
	case uint64:
		return "Uint64"
	case uint32:
		return "Uint32"
	case uint16:
		return "Uint16"
	case uint8:
		return "Uint8"
	case uintptr:
		return "Uintptr"
	case float64:
		return "Float64"
	case float32:
		return "Float32"
	case complex128:
		return "Complex128"
	case complex64:
		return "Complex64"
	case time.Duration:
		return "Duration"
	case time.Time:
		return "Time"
	}
	return ""
}

// cmpRec compares the expected tree (with typed raw values) with the
// recorded call tree: order, keys byte-for-byte, method family, exact values.
func cmpRec(path string, want *xnode, got *rnode, inArray bool) string {
	bad := func(f string, a ...any) string { return path + ": " + fmt.Sprintf(f, a...) }
	if got == nil {
		return bad("missing")
	}
	switch want.kind {
	case "obj":
		if got.M != "Object" && got.M != "Namespace" {
			return bad("want an object, encoder received %s", got.M)
		}
		for i, kv := range want.kids {
			if i >= len(got.Kids) {
				return bad("encoder received %d members, want %d (missing %q)", len(got.Kids), len(want.kids), kv.k)
			}
			if got.Kids[i].K != kv.k {
				return bad("member %d: key %q, want %q", i, got.Kids[i].K, kv.k)
			}
			if e := cmpRec(fmt.Sprintf("%s.%q", path, kv.k), kv.v, got.Kids[i], false); e != "" {
				return e
			}
		}
		if len(got.Kids) > len(want.kids) {
			return bad("encoder received %d members, want %d (extra %s %q)", len(got.Kids), len(want.kids), got.Kids[len(want.kids)].M, got.Kids[len(want.kids)].K)
		}
	case "arr":
		if got.M != "Array" {
			return bad("want an array, encoder received %s", got.M)
		}
		if len(got.Kids) != len(want.els) {
			return bad("array has %d elements, want %d", len(got.Kids), len(want.els))
		}
		for i, w := range want.els {
			if e := cmpRec(fmt.Sprintf("%s[%d]", path, i), w, got.Kids[i], true); e != "" {
				return e
			}
		}
	case "null":
		if got.M != "Reflected" || got.V != nil {
			return bad("nil pointer must arrive as an explicit null (AddReflected(nil)); encoder received %s(%v)", got.M, got.V)
		}
	case "anystr":
		if got.M != "String" {
			return bad("want a string, encoder received %s", got.M)
		}
	case "raw":
		if got.M != "Reflected" {
			return bad("want a reflected value, encoder received %s", got.M)
		}
		if js, _ := refJSON(got.V); js != want.s {
			return bad("reflected value %v differs from the original (%s)", got.V, clipS(want.s))
		}
		if want.raw != nil && reflect.TypeOf(want.raw) != reflect.TypeOf(got.V) {
			return bad("reflected value has type %T, original %T", got.V, want.raw)
		}
	default:
		if want.raw == nil {
			// derived strings (error messages, stringers): compare text
			s, ok := got.V.(string)
			if got.M != "String" || !ok {
				return bad("want string %q, encoder received %s(%v)", clipS(want.s), got.M, got.V)
			}
			if uni(s) != want.s {
				return bad("string %q, want %q", clipS(s), clipS(want.s))
			}
			return ""
		}
		switch w := want.raw.(type) {
		case []byte:
			m := "ByteString"
			if want.rk == "bin" {
				m = "Binary"
			}
			if got.M != m {
				return bad("want %s, encoder received %s", m, got.M)
			}
			g, _ := got.V.([]byte)
			if !bytes.Equal(g, w) {
				return bad("bytes %q, want %q", clipS(string(g)), clipS(string(w)))
			}
		default:
			// integers: any width of the same signedness may carry the value, as
			// long as the value itself is unchanged (no truncation / sign change)
			if wi, ok := asInt64(want.raw); ok {
				gi, gok := asInt64(got.V)
				if !gok || !strings.HasPrefix(got.M, "Int") {
					return bad("signed integer %v (%T) arrived as %s(%v)", want.raw, want.raw, got.M, got.V)
				}
				if gi != wi {
					return bad("integer %v (%T) arrived as %v (%T)", want.raw, want.raw, got.V, got.V)
				}
				return ""
			}
			if wu, ok := asUint64(want.raw); ok {
				gu, gok := asUint64(got.V)
				if !gok || !strings.HasPrefix(got.M, "Uint") {
					return bad("unsigned integer %v (%T) arrived as %s(%v)", want.raw, want.raw, got.M, got.V)
				}
				if gu != wu {
					return bad("unsigned integer %v (%T) arrived as %v (%T)", want.raw, want.raw, got.V, got.V)
				}
				return ""
			}
			m := methodFor(want.raw, inArray)
			if m == "" {
				return bad("internal: no method for %T", want.raw)
			}
			if got.M != m {
				return bad("value %v (%T) must arrive through %s, encoder received %s(%v)", want.raw, want.raw, m, got.M, got.V)
			}
			wraw := want.raw
			if !inArray {
				switch x := wraw.(type) {
				case int:
					wraw = int64(x) // zap.Int / zap.Uint are documented to be carried as 64-bit values
				case uint:
					wraw = uint64(x)
				}
			}
			if reflect.TypeOf(got.V) != reflect.TypeOf(wraw) {
				return bad("type %T, want %T", got.V, wraw)
			}
			switch w := wraw.(type) {
			case float64:
				if math.Float64bits(got.V.(float64)) != math.Float64bits(w) {
					return bad("float64 bits %016x, want %016x", math.Float64bits(got.V.(float64)), math.Float64bits(w))
				}
			case float32:
				if math.Float32bits(got.V.(float32)) != math.Float32bits(w) {
					return bad("float32 bits %08x, want %08x", math.Float32bits(got.V.(float32)), math.Float32bits(w))
				}
			case complex128:
				g := got.V.(complex128)
				if math.Float64bits(real(g)) != math.Float64bits(real(w)) || math.Float64bits(imag(g)) != math.Float64bits(imag(w)) {
					return bad("complex128 %v, want %v bit-for-bit", g, w)
				}
			case complex64:
				g := got.V.(complex64)
				if math.Float32bits(real(g)) != math.Float32bits(real(w)) || math.Float32bits(imag(g)) != math.Float32bits(imag(w)) {
					return bad("complex64 %v, want %v bit-for-bit", g, w)
				}
			case time.Time:
				if d := sameTimeExact(got.V.(time.Time), w); d != "" {
					return bad("time %v, want %v: %s", got.V, w, d)
				}
			default:
				if got.V != wraw {
					return bad("value %v, want %v", got.V, wraw)
				}
			}
		}
	}
	return ""
}

func renderR(n *rnode) string {
	if n == nil {
		return "<nil>"
	}
	s := n.M
	if n.K != "" {
		s += fmt.Sprintf("[%q]", clipS(n.K))
	}
	if len(n.Kids) > 0 || n.M == "Object" || n.M == "Array" || n.M == "Namespace" {
		s += "{"
		for i, k := range n.Kids {
			if i > 0 {
				s += " "
			}
			s += renderR(k)
		}
		return s + "}"
	}
	return s + fmt.Sprintf("(%v)", n.V)
}

func asInt64(v any) (int64, bool) {
	switch x := v.(type) {
	case int:
		return int64(x), true
	case int64:
		return x, true
	case int32:
		return int64(x), true
	case int16:
		return int64(x), true
	case int8:
		return int64(x), true
	}
	return 0, false
}

func asUint64(v any) (uint64, bool) {
	switch x := v.(type) {
	case uint:
		return uint64(x), true
	case uint64:
		return x, true
	case uint32:
		return uint64(x), true
	case uint16:
		return uint64(x), true
	case uint8:
		return uint64(x), true
	case uintptr:
		return uint64(x), true
	}
	return 0, false
}
