package props

// C20 — level names and the level HTTP endpoint set exactly the requested level.

import (
	"context"
	"encoding/json"
	"errors"
	"flag"
	"fmt"
	"io"
	"net/http"
	"net/http/httptest"
	"net/url"
	"strings"
	"testing"
	"time"

	"go.uber.org/zap"
	"go.uber.org/zap/zapcore"
	"go.uber.org/zap/zaptest/observer"
	"gopkg.in/yaml.v3"
	"pgregory.net/rapid"
)

var c20Names = map[string]zapcore.Level{"debug": -1, "info": 0, "warn": 1, "warning": 1, "error": 2, "dpanic": 3, "panic": 4, "fatal": 5}

// c20RefParse is the reference parser written from the documentation, with
// ASCII-only case folding (independent of bytes.ToLower / strings.ToLower).
func c20RefParse(s string) (zapcore.Level, bool) {
	if s == "" {
		return zapcore.InfoLevel, true
	}
	b := []byte(s)
	for i, c := range b {
		if c >= 'A' && c <= 'Z' {
			b[i] = c + 32
		}
	}
	l, ok := c20Names[string(b)]
	return l, ok
}

var c20Texts = []string{"debug", "info", "warn", "warning", "error", "dpanic", "panic", "fatal", "", "DEBUG", "Info", "wArN", "WARNING", "DPanic",
	"trace", "Level(7)", "LEVEL(7)", " info", "info ", "inf", "infoo", "fatal\n", "ınfo", "İNFO", "PANİC", "K", "ſ", "warn\x00", "\xff", "1", "-1", "null", "\"info\"", "ｉｎｆｏ", "INFO​"}

func genLevelText(t *rapid.T) string {
	return rapid.OneOf(
		rapid.SampledFrom(c20Texts),
		rapid.SampledFrom(c20Texts),
		// random case mix of a valid name
		rapid.Custom(func(t *rapid.T) string {
			n := []byte(rapid.SampledFrom([]string{"debug", "info", "warn", "warning", "error", "dpanic", "panic", "fatal"}).Draw(t, "name"))
			for i := range n {
				if rapid.Bool().Draw(t, "upper") {
					n[i] -= 32
				}
			}
			return string(n)
		}),
		// a valid name (any case) with something before or after it: never a level name
		rapid.Custom(func(t *rapid.T) string {
			n := []byte(rapid.SampledFrom([]string{"debug", "info", "warn", "warning", "error", "dpanic", "panic", "fatal"}).Draw(t, "name"))
			for i := range n {
				if rapid.Bool().Draw(t, "upper") {
					n[i] -= 32
				}
			}
			extra := rapid.SampledFrom([]string{"x", "s", "ing", "X", " ", "\n", "\x00", "0", "level", "warning", "info", ".", "ß", strings.Repeat("z", 40)}).Draw(t, "extra")
			if rapid.Bool().Draw(t, "suffix") {
				return string(n) + extra
			}
			return extra + string(n)
		}),
		rapid.String(),
		rapid.Map(rapid.SliceOfN(rapid.Byte(), 0, 8), func(b []byte) string { return string(b) }),
	).Draw(t, "levelText")
}

func propC20Text(t *rapid.T) {
	txt := genLevelText(t)
	start := zapcore.Level(rapid.Int8().Draw(t, "startValue"))
	want, ok := c20RefParse(txt)
	check := func(api string, got zapcore.Level, err error, target bool) {
		if ok != (err == nil) {
			t.Fatalf("%s(%q): error=%v, reference says valid=%v", api, txt, err, ok)
		}
		if ok && got != want {
			t.Fatalf("%s(%q) = %v, want %v", api, txt, got, want)
		}
		if !ok && target && got != start {
			t.Fatalf("%s(%q) was rejected but modified its target: %v -> %v", api, txt, start, got)
		}
	}
	l := start
	err := l.UnmarshalText([]byte(txt))
	check("Level.UnmarshalText", l, err, true)
	l = start
	err = l.Set(txt)
	check("Level.Set", l, err, true)
	pl, err := zapcore.ParseLevel(txt)
	check("ParseLevel", pl, err, false)
	al, err := zap.ParseAtomicLevel(txt)
	if err == nil {
		check("ParseAtomicLevel", al.Level(), err, false)
	} else {
		check("ParseAtomicLevel", 0, err, false)
	}
	if start >= zapcore.DebugLevel && start <= zapcore.FatalLevel {
		al2 := zap.NewAtomicLevelAt(start)
		// an AtomicLevel is a handle: copies made earlier (a logger's core, the HTTP handler) share its value
		cp := al2
		oc, ologs := observer.New(al2)
		live := zap.New(oc, zap.WithFatalHook(countHook{new(int64)}), zap.WithPanicHook(countHook{new(int64)}))
		err = al2.UnmarshalText([]byte(txt))
		check("AtomicLevel.UnmarshalText", al2.Level(), err, true)
		if cp.Level() != al2.Level() {
			t.Fatalf("AtomicLevel.UnmarshalText(%q) detached the level from its earlier copies: copy reports %v, the target %v", txt, cp.Level(), al2.Level())
		}
		for lv := zapcore.DebugLevel; lv <= zapcore.FatalLevel; lv++ {
			if got, want := live.Core().Enabled(lv), lv >= al2.Level(); got != want {
				t.Fatalf("after AtomicLevel.UnmarshalText(%q) (level now %v) a logger built on the level earlier has Enabled(%v)=%v", txt, al2.Level(), lv, got)
			}
		}
		live.Log(al2.Level(), "at-level")
		if ologs.Len() != 1 {
			t.Fatalf("after AtomicLevel.UnmarshalText(%q) an entry at the new level %v was not logged by a logger sharing the level", txt, al2.Level())
		}
		// the zero value is documented to be usable with UnmarshalText
		var zero zap.AtomicLevel
		if zerr := zero.UnmarshalText([]byte(txt)); (zerr == nil) != ok {
			t.Fatalf("zero AtomicLevel.UnmarshalText(%q): error=%v, reference says valid=%v", txt, zerr, ok)
		} else if ok && zero.Level() != want {
			t.Fatalf("zero AtomicLevel.UnmarshalText(%q) = %v, want %v", txt, zero.Level(), want)
		}
	}
	// flag parsing
	fs := flag.NewFlagSet("x", flag.ContinueOnError)
	fs.SetOutput(io.Discard)
	fl := start
	fs.Var(&fl, "level", "")
	if !strings.ContainsRune(txt, 0) {
		err = fs.Parse([]string{"-level=" + txt})
		check("flag", fl, err, true)
	}
	// JSON document (text that survives JSON string encoding unchanged)
	if js, jerr := json.Marshal(txt); jerr == nil {
		var back string
		if json.Unmarshal(js, &back) == nil && back == txt {
			doc := struct{ L zapcore.Level }{start}
			err = json.Unmarshal([]byte(`{"L":`+string(js)+`}`), &doc)
			check("JSON", doc.L, err, true)
		}
	}
	// YAML document
	if yb, yerr := yaml.Marshal(map[string]string{"l": txt}); yerr == nil {
		var probe map[string]string
		if yaml.Unmarshal(yb, &probe) == nil && probe["l"] == txt {
			doc := struct {
				L zapcore.Level `yaml:"l"`
			}{start}
			err = yaml.Unmarshal(yb, &doc)
			check("YAML", doc.L, err, true)
		}
	}
	nt := !ok || txt != strings.ToLower(txt)
	class := "valid-lower"
	switch {
	case !ok:
		class = "invalid"
	case txt == "":
		class = "empty"
	case txt != strings.ToLower(txt):
		class = "valid-mixed-case"
	}
	statCase("C20", nt, "text|"+class+"|"+fmt.Sprint(len(txt) > 8)+"|"+fmt.Sprint(want), "level text "+class)
}

// Round trip of every level value through its text forms.
func TestC20RoundTrip(t *testing.T) {
	for v := -128; v <= 127; v++ {
		l := zapcore.Level(int8(v))
		valid := l >= zapcore.DebugLevel && l <= zapcore.FatalLevel
		for _, form := range []string{l.String(), l.CapitalString()} {
			var back zapcore.Level = 99
			err := back.UnmarshalText([]byte(form))
			if valid && (err != nil || back != l) {
				t.Fatalf("level %d: text %q parses to %v (%v)", v, form, back, err)
			}
			if !valid && (err == nil || back != 99) {
				t.Fatalf("out-of-range level %d: text %q accepted or target modified (%v, %v)", v, form, back, err)
			}
		}
		if !valid {
			statCase("C20", true, fmt.Sprintf("rt%d", v), "round trip sweep")
			continue
		}
		mt, _ := l.MarshalText()
		var a zapcore.Level
		if err := a.UnmarshalText(mt); err != nil || a != l {
			t.Fatalf("MarshalText round trip of %v", l)
		}
		// the bytes MarshalText returns belong to the caller (encoding.TextMarshaler results are routinely appended
		// to and recycled): overwriting them changes nothing for the next marshaling of the same level
		want := string(mt)
		for i := range mt {
			mt[i] = '#'
		}
		_ = append(mt[:0], "info"...)
		if again, _ := l.MarshalText(); string(again) != want {
			t.Fatalf("MarshalText of %v returned %q after the caller overwrote the previous result (was %q): the result is shared", l, again, want)
		}
		if again, _ := zap.NewAtomicLevelAt(l).MarshalText(); string(again) != want {
			t.Fatalf("AtomicLevel.MarshalText of %v returned %q after the caller overwrote an earlier result (was %q)", l, again, want)
		}
		js, err := json.Marshal(struct{ L zapcore.Level }{l})
		var jb struct{ L zapcore.Level }
		if err != nil || json.Unmarshal(js, &jb) != nil || jb.L != l {
			t.Fatalf("JSON round trip of %v: %s", l, js)
		}
		yb, err := yaml.Marshal(struct{ L zapcore.Level }{l})
		var ybk struct{ L zapcore.Level }
		if err != nil || yaml.Unmarshal(yb, &ybk) != nil || ybk.L != l {
			t.Fatalf("YAML round trip of %v: %s", l, yb)
		}
		al := zap.NewAtomicLevelAt(l)
		at, _ := al.MarshalText()
		al2 := zap.NewAtomicLevel()
		if err := al2.UnmarshalText(at); err != nil || al2.Level() != l || al.String() != l.String() {
			t.Fatalf("AtomicLevel round trip of %v", l)
		}
		var fl zapcore.Level
		if err := fl.Set(l.String()); err != nil || fl != l || fl.Get() != l {
			t.Fatalf("flag round trip of %v", l)
		}
		statCase("C20", true, fmt.Sprintf("rt%d", v), "round trip sweep")
	}
}

// ---- HTTP endpoint

type c20Req struct {
	Method, CType, Target, Body, Kind string
	known                             bool          // the outcome is known by construction
	accept                            bool          // ... accept?
	lvl                               zapcore.Level // ... and level
}

func genC20Req(t *rapid.T) c20Req {
	r := c20Req{Target: "/"}
	r.Method = rapid.SampledFrom([]string{"GET", "PUT", "PUT", "PUT", "PUT", "POST", "DELETE", "HEAD", "PATCH", "put", "OPTIONS", "FOO"}).Draw(t, "method")
	r.Kind = rapid.SampledFrom([]string{"json", "json", "form", "form", "query", "both", "garbage", "jsonOdd", "jsonTwice", "empty"}).Draw(t, "bodyKind")
	txt := genLevelText(t)
	form := "application/x-www-form-urlencoded"
	switch r.Kind {
	case "json":
		b, _ := json.Marshal(map[string]string{"level": txt})
		r.Body = string(b)
		r.CType = rapid.SampledFrom([]string{"application/json", "", "text/plain", "application/json; charset=utf-8", form + "; charset=utf-8"}).Draw(t, "ctype")
		var m map[string]string
		_ = json.Unmarshal(b, &m) // json.Marshal replaces invalid UTF-8: learn the effective text
		r.lvl, r.accept = c20RefParse(m["level"])
		r.known = true
	case "form":
		r.Body = url.Values{"level": {txt}}.Encode()
		r.CType = form
		r.lvl, r.accept = c20RefParse(txt)
		if txt == "" {
			r.accept = false // the form decoder requires a non-empty level
		}
		r.known = true
	case "query":
		r.Target = "/?" + url.Values{"level": {txt}}.Encode()
		r.CType = form
		r.lvl, r.accept = c20RefParse(txt)
		if txt == "" {
			r.accept = false
		}
		r.known = true
	case "both":
		other := genLevelText(t)
		r.Target = "/?" + url.Values{"level": {other}}.Encode()
		r.Body = url.Values{"level": {txt}}.Encode() // body wins
		r.CType = form
		r.lvl, r.accept = c20RefParse(txt)
		if txt == "" {
			// empty body value: net/http's FormValue returns the first value, which is the empty body one
			r.accept = false
		}
		r.known = true
	case "garbage":
		r.Body = rapid.OneOf(rapid.String(), rapid.Map(rapid.SliceOfN(rapid.Byte(), 0, 30), func(b []byte) string { return string(b) })).Draw(t, "garbage")
		r.CType = rapid.SampledFrom([]string{"application/json", form, form + "; charset=utf-8", ""}).Draw(t, "ctype")
	case "jsonOdd":
		odd := []struct {
			body   string
			known  bool
			accept bool
			lvl    zapcore.Level
		}{
			{`{"level":1}`, true, false, 0}, {`{"level":null}`, true, false, 0}, {`{}`, true, false, 0}, {`[]`, true, false, 0}, {`"info"`, true, false, 0},
			{`{"level":["info"]}`, true, false, 0}, {`{"level":true}`, true, false, 0}, {`{"level":"Level(2)"}`, true, false, 0}, {`null`, true, false, 0}, {``, true, false, 0},
			{`{"level":"debug"`, true, false, 0}, {`{"other":"debug"}`, true, false, 0},
			{` {"level" : "warn"} `, true, true, zapcore.WarnLevel}, {`{"level":"DEBUG","x":{"level":"error"}}`, true, true, zapcore.DebugLevel}, {`{"x":{"level":"error"},"level":"fatal"}`, true, true, zapcore.FatalLevel},
			// encoding/json specifics (case-insensitive keys, duplicate keys, trailing data): invariants only
			{`{"Level":"debug"}`, false, false, 0}, {`{"level":"debug","level":"error"}`, false, false, 0}, {`{"level":"debug"} trailing`, false, false, 0},
		}
		o := odd[rapid.IntRange(0, len(odd)-1).Draw(t, "oddJSON")]
		r.Body, r.known, r.accept, r.lvl = o.body, o.known, o.accept, o.lvl
		r.CType = rapid.SampledFrom([]string{"application/json", "", "text/json"}).Draw(t, "ctype")
	case "jsonTwice":
		// a syntactically valid object that names the level more than once (in any spelling of the key encoding/json
		// accepts), valid and invalid occurrences in either order: which occurrence counts is encoding/json's
		// business, so invariants only - above all, a request that is answered 4xx has changed nothing
		key := func(l string) string {
			return rapid.SampledFrom([]string{"level", "level", "LEVEL", "Level", "leveL"}).Draw(t, l)
		}
		valid := func(l string) string {
			b, _ := json.Marshal(rapid.SampledFrom([]string{"debug", "info", "warn", "error", "dpanic", "panic", "fatal", "ERROR", "Warn", ""}).Draw(t, l))
			return string(b)
		}
		invalid := func(l string) string {
			return rapid.SampledFrom([]string{`"bogus"`, `null`, `["x"]`, `1`, `true`, `{"level":"error"}`, `"Level(3)"`, `"inf"`, `-1`}).Draw(t, l)
		}
		var members []string
		for j, n := 0, rapid.IntRange(2, 4).Draw(t, "members"); j < n; j++ {
			switch rapid.IntRange(0, 3).Draw(t, "memberKind") {
			case 0, 1:
				members = append(members, fmt.Sprintf("%q:%s", key("key"), valid("valid")))
			case 2:
				members = append(members, fmt.Sprintf("%q:%s", key("key"), invalid("invalid")))
			default:
				members = append(members, `"other":`+invalid("otherValue"))
			}
		}
		r.Body = "{" + strings.Join(members, ",") + "}"
		r.CType = rapid.SampledFrom([]string{"application/json", "", "text/json"}).Draw(t, "ctype")
	case "empty":
		r.CType = rapid.SampledFrom([]string{"application/json", form}).Draw(t, "ctype")
	}
	return r
}

// c20UserReader is a reader type of the caller's own.
type c20UserReader struct{ r io.Reader }

func (u c20UserReader) Read(p []byte) (int, error) { return u.r.Read(p) }

// c20BrokenWriter is a ResponseWriter whose Write always fails.
type c20BrokenWriter struct {
	h       http.Header
	code    int
	writes  int
	onWrite func()
}

func (w *c20BrokenWriter) Header() http.Header { return w.h }
func (w *c20BrokenWriter) WriteHeader(c int)   { w.code = c }
func (w *c20BrokenWriter) Write(p []byte) (int, error) {
	w.writes++
	if w.onWrite != nil && w.writes == 1 {
		w.onWrite()
	}
	return 0, errors.New("broken pipe")
}

func propC20HTTP(t *rapid.T) {
	// (an AtomicLevel may hold any of the 256 values - FatalLevel+1 silences a logger tree, DebugLevel-1 is a common
	// trace level -; the endpoint reports whatever is in force)
	al := zap.NewAtomicLevelAt(zapcore.Level(rapid.SampledFrom([]int{-1, 0, 1, 2, 3, 4, 5, -1, 0, 1, 2, 3, 4, 5, -2, 6, 7, 100, -128, 127}).Draw(t, "initialLevel")))
	core, logs := observer.New(al)
	live := zap.New(core).With(zap.Int("derived", 1)).Named("live")
	n := rapid.IntRange(1, 8).Draw(t, "nRequests")
	accepted, rejectedBetween, sawReject := 0, false, false
	var lastAccepted zapcore.Level = -100
	var hist []string
	for i := 0; i < n; i++ {
		r := genC20Req(t)
		before := al.Level()
		req := httptest.NewRequest("GET", r.Target, strings.NewReader(r.Body))
		req.Method = r.Method
		if rapid.IntRange(0, 3).Draw(t, "streamedBody") == 0 {
			// a body of unknown length (chunked transfer encoding): net/http reports ContentLength -1
			req.Body = io.NopCloser(strings.NewReader(r.Body))
			req.ContentLength = -1
			req.TransferEncoding = []string{"chunked"}
		}
		if r.Body != "" && rapid.IntRange(0, 4).Draw(t, "bodyIsUserReader") == 0 {
			// a request built by hand around a reader of the caller's own (metering, decompressing, a pipe): net/http
			// leaves ContentLength at 0 for such bodies, which then means "unknown", not "none"
			req.Body = io.NopCloser(c20UserReader{strings.NewReader(r.Body)})
			req.ContentLength = 0
			req.TransferEncoding = nil
		}
		if r.CType != "" {
			req.Header.Set("Content-Type", r.CType)
		}
		if ctForm := "application/x-www-form-urlencoded"; rapid.IntRange(0, 3).Draw(t, "formReadByMiddleware") == 0 && (r.CType == ctForm || !strings.HasPrefix(r.CType, ctForm)) {
			// (not for "form; charset=..." types: net/http parses those as forms and consumes the body, the
			// handler reads them as JSON - a middleware that reads the form there legitimately leaves nothing)
			// a middleware in front of the handler has already looked at the request's form (an audit wrapper reading
			// the user name, say): whatever the handler is given, it is the same request
			_ = req.FormValue("user")
		}
		if rapid.IntRange(0, 5).Draw(t, "brokenConnection") == 0 {
			// the client is gone: writing the response fails. What the request did (or did not do) to the level
			// stands, and a level change that happens while the response is being written is not undone.
			bw := &c20BrokenWriter{h: http.Header{}}
			concurrent := rapid.Bool().Draw(t, "levelChangedWhileResponding")
			newLvl := zapcore.Level(rapid.IntRange(-1, 5).Draw(t, "concurrentLevel"))
			if concurrent {
				bw.onWrite = func() { al.SetLevel(newLvl) }
			}
			if aborts := rapid.IntRange(0, 2).Draw(t, "writerAbortsHandler") == 0; aborts {
				// the server's own way of giving up on a client: the ResponseWriter panics with ErrAbortHandler, which
				// net/http (here: the harness) recovers. Later requests are answered as if nothing had happened.
				concurrent = false
				bw.onWrite = func() { panic(http.ErrAbortHandler) }
				func() {
					defer func() {
						if p := recover(); p != nil && p != http.ErrAbortHandler {
							panic(p)
						}
					}()
					al.ServeHTTP(bw, req)
				}()
			} else {
				al.ServeHTTP(bw, req)
			}
			got := al.Level()
			hist = append(hist, fmt.Sprintf("%s %s [%s] %q -> (response write fails)", r.Method, r.Target, r.CType, clipS(r.Body)))
			failB := func(f string, a ...any) {
				t.Fatalf("%s\nrequest %d over a broken connection: %s %s content-type %q body %q\nlevel before %v after %v\nhistory: %s", fmt.Sprintf(f, a...), i, r.Method, r.Target, r.CType, r.Body, before, got, strings.Join(hist, " | "))
			}
			switch {
			case concurrent && bw.writes > 0:
				if got != newLvl {
					failB("the level was set to %v while the response was being written, afterwards it is %v", newLvl, got)
				}
			case r.Method == "PUT" && r.known && r.accept:
				if got != r.lvl {
					failB("a PUT naming the valid level %v leaves the level at %v", r.lvl, got)
				}
			case r.Method != "PUT" || (r.known && !r.accept):
				if got != before {
					failB("a request that names no valid level changed the level")
				}
			default:
				if got != before && (got < zapcore.DebugLevel || got > zapcore.FatalLevel) {
					failB("the level is now invalid")
				}
			}
			sawReject = true
			continue
		}
		rr := httptest.NewRecorder()
		al.ServeHTTP(rr, req)
		after := al.Level()
		hist = append(hist, fmt.Sprintf("%s %s [%s] %q -> %d", r.Method, r.Target, r.CType, clipS(r.Body), rr.Code))
		fail := func(f string, a ...any) {
			t.Fatalf("%s\nrequest %d: %s %s content-type %q body %q\nresponse %d %q\nlevel before %v after %v\nhistory: %s", fmt.Sprintf(f, a...), i, r.Method, r.Target, r.CType, r.Body, rr.Code, rr.Body.String(), before, after, strings.Join(hist, " | "))
		}
		var resp struct {
			Level *string `json:"level"`
			Error *string `json:"error"`
		}
		if err := json.Unmarshal(rr.Body.Bytes(), &resp); err != nil {
			fail("response body is not JSON: %v", err)
		}
		switch r.Method {
		case "GET":
			if rr.Code != 200 || after != before || resp.Level == nil || *resp.Level != before.String() {
				fail("GET must answer 200 with the level in force and change nothing")
			}
		case "PUT":
			if rr.Code == 200 {
				if after < zapcore.DebugLevel || after > zapcore.FatalLevel {
					fail("PUT was accepted but the level is now invalid")
				}
				if resp.Level == nil || *resp.Level != after.String() {
					fail("PUT 200 response does not report the level in force")
				}
				if r.known && (!r.accept || r.lvl != after) {
					fail("PUT set level %v; by construction the request names level %v (valid=%v)", after, r.lvl, r.accept)
				}
				accepted++
				if sawReject && lastAccepted != -100 && lastAccepted != after {
					rejectedBetween = true
				}
				lastAccepted, sawReject = after, false
			} else {
				if rr.Code < 400 || rr.Code > 499 {
					fail("malformed PUT must be answered with a 4xx status")
				}
				if after != before {
					fail("rejected PUT changed the level")
				}
				if resp.Error == nil {
					fail("4xx response lacks the JSON error body")
				}
				if r.known && r.accept {
					fail("PUT names the valid level %v but was rejected", r.lvl)
				}
				sawReject = true
			}
		default:
			if rr.Code < 400 || rr.Code > 499 || after != before {
				fail("method %s must be answered with 4xx and leave the level unchanged", r.Method)
			}
			sawReject = true
		}
		// the live logger derived from the same AtomicLevel honours the level on its very next call
		for _, lv := range []zapcore.Level{zapcore.DebugLevel, zapcore.InfoLevel, zapcore.WarnLevel, zapcore.ErrorLevel} {
			b := logs.Len()
			live.Log(lv, "probe")
			if got := logs.Len() - b; (got == 1) != (lv >= after) {
				fail("live logger logged %d entries at %v while the level is %v", got, lv, after)
			}
		}
	}
	statCase("C20", rejectedBetween, fmt.Sprintf("http|n%d acc%d rb%v", n, accepted, rejectedBetween), "http sequence")
	if rejectedBetween {
		statSample("C20", func() string { return strings.Join(hist, " | ") })
	}
}

func TestC20Text(t *testing.T) { rapid.Check(t, propC20Text) }
func TestC20HTTP(t *testing.T) { rapid.Check(t, propC20HTTP) }

func FuzzC20(f *testing.F) {
	f.Add("PUT", "application/json", `{"level":"debug"}`)
	f.Add("PUT", "application/x-www-form-urlencoded", `level=warn`)
	f.Add("GET", "", ``)
	f.Fuzz(func(t *testing.T, method, ctype, body string) {
		al := zap.NewAtomicLevelAt(zapcore.WarnLevel)
		req := httptest.NewRequest("GET", "/", strings.NewReader(body))
		req.Method = method
		req.Header.Set("Content-Type", ctype)
		rr := httptest.NewRecorder()
		al.ServeHTTP(rr, req)
		after := al.Level()
		if !json.Valid(rr.Body.Bytes()) {
			t.Fatalf("non-JSON response %q", rr.Body.String())
		}
		switch {
		case method == "GET":
			if rr.Code != 200 || after != zapcore.WarnLevel {
				t.Fatalf("GET code %d level %v", rr.Code, after)
			}
		case method == "PUT" && rr.Code == 200:
			if after < zapcore.DebugLevel || after > zapcore.FatalLevel {
				t.Fatalf("accepted PUT left level %v", after)
			}
		default:
			if rr.Code < 400 || rr.Code > 499 || after != zapcore.WarnLevel {
				t.Fatalf("%q: code %d level %v", method, rr.Code, after)
			}
		}
	})
}

// c20GatedBody is a request body whose bytes become available only when the gate is opened.
type c20GatedBody struct {
	gate    chan struct{}
	entered chan struct{}
	data    *strings.Reader
	once    bool
	drained chan struct{}
}

func (b *c20GatedBody) Read(p []byte) (int, error) {
	if !b.once {
		b.once = true
		close(b.entered)
		<-b.gate
	}
	n, err := b.data.Read(p)
	if err == io.EOF {
		select {
		case <-b.drained:
		default:
			close(b.drained)
		}
	}
	return n, err
}
func (b *c20GatedBody) Close() error { return nil }

// The answer to a PUT is final: a request that was answered with an error status has not changed the level and
// never will (a slow body arriving after the client gave up and the context ended included); one answered with
// 200 has changed it by the time the answer is written.
func c20AnsweredMeansDone(t *testing.T) {
	for _, cancelFirst := range []bool{true, false} {
		al := zap.NewAtomicLevelAt(zapcore.InfoLevel)
		body := &c20GatedBody{gate: make(chan struct{}), entered: make(chan struct{}), drained: make(chan struct{}), data: strings.NewReader(`{"level":"debug"}`)}
		ctx, cancel := context.WithCancel(context.Background())
		req := httptest.NewRequest(http.MethodPut, "/level", body).WithContext(ctx)
		req.Header.Set("Content-Type", "application/json")
		rec := httptest.NewRecorder()
		answered := make(chan struct{})
		go func() { al.ServeHTTP(rec, req); close(answered) }()
		<-body.entered
		if cancelFirst {
			cancel() // the client went away while the handler waits for the body
		}
		// give a handler that does not wait for the body the chance to answer early (bounded; decides nothing on a
		// handler that waits)
		select {
		case <-answered:
		case <-time.After(100 * time.Millisecond):
		}
		close(body.gate)
		<-answered
		// whatever still reads the body gets the chance to finish (bounded)
		select {
		case <-body.drained:
		case <-time.After(200 * time.Millisecond):
		}
		time.Sleep(20 * time.Millisecond)
		cancel()
		switch {
		case rec.Code == http.StatusOK && al.Level() != zapcore.DebugLevel:
			t.Fatalf("PUT answered 200 but the level is %v", al.Level())
		case rec.Code != http.StatusOK && al.Level() != zapcore.InfoLevel:
			t.Fatalf("PUT was answered with status %d (an error), yet the level changed to %v afterwards", rec.Code, al.Level())
		}
	}
}

// Requests overlap: while the body of a request that will be REJECTED is still arriving, a valid PUT is accepted.
// The rejected one changes nothing - in particular it does not put back the level it saw when it arrived.
func c20RejectedPutUndoesNothing(t *testing.T) {
	for _, bad := range []struct{ ctype, body string }{
		{"application/json", `{"level":"nonsense"}`}, {"application/json", `{"level":`}, {"application/json", `{}`},
		{"application/x-www-form-urlencoded", "level=nonsense"}, {"application/x-www-form-urlencoded", "other=1"},
	} {
		al := zap.NewAtomicLevelAt(zapcore.InfoLevel)
		slow := &c20GatedBody{gate: make(chan struct{}), entered: make(chan struct{}), drained: make(chan struct{}), data: strings.NewReader(bad.body)}
		req := httptest.NewRequest(http.MethodPut, "/level", slow)
		req.Header.Set("Content-Type", bad.ctype)
		rec := httptest.NewRecorder()
		done := make(chan struct{})
		go func() { al.ServeHTTP(rec, req); close(done) }()
		<-slow.entered
		good := httptest.NewRequest(http.MethodPut, "/level", strings.NewReader(`{"level":"error"}`))
		good.Header.Set("Content-Type", "application/json")
		grec := httptest.NewRecorder()
		al.ServeHTTP(grec, good)
		if grec.Code != http.StatusOK || al.Level() != zapcore.ErrorLevel {
			t.Fatalf("valid PUT while another request is pending: status %d, level %v", grec.Code, al.Level())
		}
		close(slow.gate)
		<-done
		if rec.Code == http.StatusOK {
			t.Fatalf("PUT %s %q was accepted", bad.ctype, bad.body)
		}
		if al.Level() != zapcore.ErrorLevel {
			t.Fatalf("a PUT that was rejected with status %d (%s %q) changed the level to %v, undoing the valid PUT answered 200 in the meantime", rec.Code, bad.ctype, bad.body, al.Level())
		}
	}
}

// c20LongLivedLevel: one AtomicLevel set many millions of times (a level endpoint polled by a controller for years,
// a test harness flipping levels): the level in force is always exactly the last one set.
func c20LongLivedLevel(t *testing.T) {
	al := zap.NewAtomicLevel()
	levels := []zapcore.Level{zapcore.InfoLevel, zapcore.ErrorLevel, zapcore.DebugLevel, zapcore.PanicLevel, zapcore.WarnLevel}
	const sets = 1<<24 + 1<<10
	for i := 0; i < sets; i++ {
		l := levels[i%len(levels)]
		al.SetLevel(l)
		if got := al.Level(); got != l {
			t.Fatalf("SetLevel #%d: set %v, Level() reports %v", i+1, l, got)
		}
	}
	// and through the endpoint
	for i, l := range levels {
		rr := httptest.NewRecorder()
		al.ServeHTTP(rr, httptest.NewRequest(http.MethodPut, "/", strings.NewReader(fmt.Sprintf(`{"level":%q}`, l.String()))))
		if rr.Code != 200 || al.Level() != l {
			t.Fatalf("PUT #%d on a long-lived level: status %d, level %v, want %v", i, rr.Code, al.Level(), l)
		}
	}
}

func TestRegressC20(t *testing.T) {
	c20AnsweredMeansDone(t)
	c20RejectedPutUndoesNothing(t)
	c20LongLivedLevel(t)
	// non-ASCII look-alikes are not level names
	for _, s := range []string{"İNFO", "PANİC", "ınfo", "ｉｎｆｏ", " info", "info\n"} {
		l := zapcore.Level(3)
		if err := l.UnmarshalText([]byte(s)); err == nil || l != 3 {
			t.Fatalf("%q accepted as %v (err %v)", s, l, err)
		}
	}
	for s, w := range map[string]zapcore.Level{"": 0, "WARNING": 1, "dPaNiC": 3, "FATAL": 5} {
		var l zapcore.Level = 9
		if err := l.UnmarshalText([]byte(s)); err != nil || l != w {
			t.Fatalf("%q -> %v %v", s, l, err)
		}
	}
}
