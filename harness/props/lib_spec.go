package props

// Spec: a typed description of a field tree. A Spec yields BOTH the zap.Field
// (through the public constructor or zap.Any) AND the expected ordered tree.
// The expectation is computed from the Spec, never through zap's Field.AddTo.

import (
	"bytes"
	"encoding/base64"
	"encoding/json"
	"errors"
	"fmt"
	"io"
	"reflect"
	"strconv"
	"strings"
	"sync"
	"time"

	"go.uber.org/zap"
	"go.uber.org/zap/exp/zapfield"
	"go.uber.org/zap/zapcore"
	"pgregory.net/rapid"
)

type (
	namedKey  string
	namedVal  string
	namedVals []namedVal
)

// ---------------------------------------------------------------- expected tree

type xnode struct {
	kind string // obj arr str int f64 f32 bool null time dur c128 c64 raw anystr
	s    string
	f    float64
	t    time.Time
	d    time.Duration
	c    complex128
	kids []xkv
	els  []*xnode
	raw  any    // the original Go value (typed), when known
	rk   string // Spec kind the raw value came from (bin vs bstr)
}

type xkv struct {
	k string
	v *xnode
}

func xstr(s string) *xnode        { return &xnode{kind: "str", s: s} }
func xint(i int64) *xnode         { return &xnode{kind: "int", s: strconv.FormatInt(i, 10)} }
func xuint(u uint64) *xnode       { return &xnode{kind: "int", s: strconv.FormatUint(u, 10)} }
func xbool(b bool) *xnode         { return &xnode{kind: "bool", s: strconv.FormatBool(b)} }
func xnull() *xnode               { return &xnode{kind: "null"} }
func xf64(f float64) *xnode       { return &xnode{kind: "f64", f: f} }
func xf32(f float32) *xnode       { return &xnode{kind: "f32", f: float64(f)} }
func xtime(t time.Time) *xnode    { return &xnode{kind: "time", t: t} }
func xdur(d time.Duration) *xnode { return &xnode{kind: "dur", d: d} }
func xc128(c complex128) *xnode   { return &xnode{kind: "c128", c: c} }
func xc64(c complex64) *xnode     { return &xnode{kind: "c64", c: complex128(c)} }
func xany() *xnode                { return &xnode{kind: "anystr"} }
func xraw(js string) *xnode       { return &xnode{kind: "raw", s: js} }

// objX accumulates the expectation for one JSON object with namespace tracking.
type objX struct {
	root *xnode
	cur  *xnode
}

func newObjX() *objX { n := &xnode{kind: "obj"}; return &objX{n, n} }

func (o *objX) put(k string, v *xnode) { o.cur.kids = append(o.cur.kids, xkv{k, v}) }
func (o *objX) ns(k string) {
	n := &xnode{kind: "obj"}
	o.put(k, n)
	o.cur = n
}

// ---------------------------------------------------------------- Spec

type Spec struct {
	Kind   string
	Key    string
	V      any
	Kids   []*Spec
	Err    string // obj/arr/inline marshaler returns this error ("" = none)...
	ErrAt  int    // ...after having emitted ErrAt members
	ViaAny bool   // build through zap.Any
	Ptr    bool   // build through the pointer constructor with a non-nil pointer
	Label  string
	// Reenter: the object marshaler logs through ANOTHER logger (JSON and console
	// cores, context, reflected value, error, namespace) before emitting its own
	// members - re-entrant use of zap from inside a marshaler.
	Reenter bool
}

// reenterLoggerOf builds the inner logger on first use, never at package initialisation: a defect in zap that makes
// the construction panic must fail a property, not kill the test binary before any test has run.
var (
	reenterOnce sync.Once
	reenterLg   *zap.Logger
)

func reenterLoggerOf() *zap.Logger {
	reenterOnce.Do(func() {
		cfg := zapcore.EncoderConfig{MessageKey: "m", LevelKey: "l", TimeKey: "t", NameKey: "n", CallerKey: "c", EncodeLevel: zapcore.CapitalLevelEncoder,
			EncodeTime: zapcore.RFC3339NanoTimeEncoder, EncodeCaller: zapcore.ShortCallerEncoder, EncodeDuration: zapcore.StringDurationEncoder}
		core := zapcore.NewTee(zapcore.NewCore(zapcore.NewJSONEncoder(cfg), zapcore.AddSync(io.Discard), zapcore.DebugLevel),
			zapcore.NewCore(zapcore.NewConsoleEncoder(cfg), zapcore.AddSync(io.Discard), zapcore.DebugLevel))
		reenterLg = zap.New(core, zap.AddCaller()).Named("inner").With(zap.Reflect("ctx", map[string]int{"a": 1}), zap.String("s", "v"))
	})
	return reenterLg
}

func reenterLog() {
	reenterLoggerOf().Warn("logged from inside a marshaler", zap.Error(errors.New("inner error")), zap.Reflect("r", []any{1, "<x>", nil}),
		zap.Strings("ss", []string{"a", "b"}), zap.Duration("d", time.Second), zap.Namespace("ns"), zap.Int("i", 1), zap.Object("o", zapcore.ObjectMarshalerFunc(func(e zapcore.ObjectEncoder) error {
			e.AddString("k", "v")
			return nil
		})))
}

type specObj struct{ s *Spec }

// specPanicPrefix marks a marshaler that panics (user code with a nil dereference, say) instead of returning an error.
const specPanicPrefix = "PANIC-IN-MARSHALER:"

func specFail(msg string) error {
	if strings.HasPrefix(msg, specPanicPrefix) {
		panic(msg)
	}
	return errors.New(msg)
}

func (m specObj) MarshalLogObject(enc zapcore.ObjectEncoder) error {
	if m.s.Reenter {
		reenterLog()
	}
	for i, k := range m.s.Kids {
		if m.s.Err != "" && i == m.s.ErrAt {
			return specFail(m.s.Err)
		}
		k.Field().AddTo(enc)
	}
	if m.s.Err != "" {
		return specFail(m.s.Err)
	}
	return nil
}

// specObjV has a pointer-receiver marshaler (for zap.ObjectValues).
type specObjV struct{ s *Spec }

func (m *specObjV) MarshalLogObject(enc zapcore.ObjectEncoder) error {
	return specObj{m.s}.MarshalLogObject(enc)
}

type specArr struct{ s *Spec }

func (m specArr) MarshalLogArray(enc zapcore.ArrayEncoder) error {
	for i, k := range m.s.Kids {
		if m.s.Err != "" && i == m.s.ErrAt {
			return specFail(m.s.Err)
		}
		if err := k.appendTo(enc); err != nil {
			return err
		}
	}
	if m.s.Err != "" {
		return specFail(m.s.Err)
	}
	return nil
}

// hasPanicMarshaler reports whether the tree contains a marshaler that panics.
func hasPanicMarshaler(specs ...[]*Spec) bool {
	var walk func(s *Spec) bool
	walk = func(s *Spec) bool {
		if strings.HasPrefix(s.Err, specPanicPrefix) {
			return true
		}
		for _, k := range s.Kids {
			if walk(k) {
				return true
			}
		}
		return false
	}
	for _, l := range specs {
		for _, s := range l {
			if walk(s) {
				return true
			}
		}
	}
	return false
}

var scalarKinds = []string{"str", "bstr", "bool", "i64", "i32", "i16", "i8", "int", "u64", "u32", "u16", "u8", "uint", "uptr", "f64", "f32", "c128", "c64", "dur", "time"}

func isScalarKind(k string) bool {
	for _, s := range scalarKinds {
		if s == k {
			return true
		}
	}
	return k == "bin"
}

// appendTo adds the spec as an array element.
func (s *Spec) appendTo(enc zapcore.ArrayEncoder) error {
	switch s.Kind {
	case "str":
		enc.AppendString(s.V.(string))
	case "bstr":
		enc.AppendByteString(s.V.([]byte))
	case "bool":
		enc.AppendBool(s.V.(bool))
	case "i64":
		enc.AppendInt64(s.V.(int64))
	case "i32":
		enc.AppendInt32(s.V.(int32))
	case "i16":
		enc.AppendInt16(s.V.(int16))
	case "i8":
		enc.AppendInt8(s.V.(int8))
	case "int":
		enc.AppendInt(s.V.(int))
	case "u64":
		enc.AppendUint64(s.V.(uint64))
	case "u32":
		enc.AppendUint32(s.V.(uint32))
	case "u16":
		enc.AppendUint16(s.V.(uint16))
	case "u8":
		enc.AppendUint8(s.V.(uint8))
	case "uint":
		enc.AppendUint(s.V.(uint))
	case "uptr":
		enc.AppendUintptr(s.V.(uintptr))
	case "f64":
		enc.AppendFloat64(s.V.(float64))
	case "f32":
		enc.AppendFloat32(s.V.(float32))
	case "c128":
		enc.AppendComplex128(s.V.(complex128))
	case "c64":
		enc.AppendComplex64(s.V.(complex64))
	case "dur":
		enc.AppendDuration(s.V.(time.Duration))
	case "time":
		enc.AppendTime(s.V.(time.Time))
	case "reflect":
		return enc.AppendReflected(s.V)
	case "obj":
		return enc.AppendObject(specObj{s})
	case "arr":
		return enc.AppendArray(specArr{s})
	default:
		panic("appendTo: kind " + s.Kind)
	}
	return nil
}

func ptrTo[T any](v T) *T { return &v }

// Input guards (C03): constructors must not modify the slices they are given.
// When enabled, Field() snapshots every slice argument before handing it to the
// constructor; checkInputGuards compares afterwards (after AddTo, too).
var (
	inputGuardOn bool
	inputGuards  []func() string
)

func guardInput(what string, snap func() string) {
	if !inputGuardOn {
		return
	}
	before := snap()
	inputGuards = append(inputGuards, func() string {
		if after := snap(); after != before {
			return fmt.Sprintf("%s modified the slice it was given:\n before: %s\n after:  %s", what, clipS(before), clipS(after))
		}
		return ""
	})
}

func checkInputGuards() string {
	gs := inputGuards
	inputGuards = nil
	for _, g := range gs {
		if e := g(); e != "" {
			return e
		}
	}
	return ""
}

func fieldsSnap(fs []zapcore.Field) string {
	var sb strings.Builder
	fmt.Fprintf(&sb, "%d:", len(fs))
	for _, f := range fs {
		fmt.Fprintf(&sb, "[%q %d %d %q %T]", f.Key, f.Type, f.Integer, f.String, f.Interface)
	}
	return sb.String()
}

// Field builds the zap.Field through the public constructors.
func (s *Spec) Field() zapcore.Field {
	k := s.Key
	if s.ViaAny {
		return zap.Any(k, s.anyValue())
	}
	switch s.Kind {
	case "str":
		if s.Ptr {
			return zap.Stringp(k, ptrTo(s.V.(string)))
		}
		return zap.String(k, s.V.(string))
	case "bstr":
		return zap.ByteString(k, s.V.([]byte))
	case "bin":
		return zap.Binary(k, s.V.([]byte))
	case "bool":
		if s.Ptr {
			return zap.Boolp(k, ptrTo(s.V.(bool)))
		}
		return zap.Bool(k, s.V.(bool))
	case "i64":
		if s.Ptr {
			return zap.Int64p(k, ptrTo(s.V.(int64)))
		}
		return zap.Int64(k, s.V.(int64))
	case "i32":
		if s.Ptr {
			return zap.Int32p(k, ptrTo(s.V.(int32)))
		}
		return zap.Int32(k, s.V.(int32))
	case "i16":
		if s.Ptr {
			return zap.Int16p(k, ptrTo(s.V.(int16)))
		}
		return zap.Int16(k, s.V.(int16))
	case "i8":
		if s.Ptr {
			return zap.Int8p(k, ptrTo(s.V.(int8)))
		}
		return zap.Int8(k, s.V.(int8))
	case "int":
		if s.Ptr {
			return zap.Intp(k, ptrTo(s.V.(int)))
		}
		return zap.Int(k, s.V.(int))
	case "u64":
		if s.Ptr {
			return zap.Uint64p(k, ptrTo(s.V.(uint64)))
		}
		return zap.Uint64(k, s.V.(uint64))
	case "u32":
		if s.Ptr {
			return zap.Uint32p(k, ptrTo(s.V.(uint32)))
		}
		return zap.Uint32(k, s.V.(uint32))
	case "u16":
		if s.Ptr {
			return zap.Uint16p(k, ptrTo(s.V.(uint16)))
		}
		return zap.Uint16(k, s.V.(uint16))
	case "u8":
		if s.Ptr {
			return zap.Uint8p(k, ptrTo(s.V.(uint8)))
		}
		return zap.Uint8(k, s.V.(uint8))
	case "uint":
		if s.Ptr {
			return zap.Uintp(k, ptrTo(s.V.(uint)))
		}
		return zap.Uint(k, s.V.(uint))
	case "uptr":
		if s.Ptr {
			return zap.Uintptrp(k, ptrTo(s.V.(uintptr)))
		}
		return zap.Uintptr(k, s.V.(uintptr))
	case "f64":
		if s.Ptr {
			return zap.Float64p(k, ptrTo(s.V.(float64)))
		}
		return zap.Float64(k, s.V.(float64))
	case "f32":
		if s.Ptr {
			return zap.Float32p(k, ptrTo(s.V.(float32)))
		}
		return zap.Float32(k, s.V.(float32))
	case "c128":
		if s.Ptr {
			return zap.Complex128p(k, ptrTo(s.V.(complex128)))
		}
		return zap.Complex128(k, s.V.(complex128))
	case "c64":
		if s.Ptr {
			return zap.Complex64p(k, ptrTo(s.V.(complex64)))
		}
		return zap.Complex64(k, s.V.(complex64))
	case "dur":
		if s.Ptr {
			return zap.Durationp(k, ptrTo(s.V.(time.Duration)))
		}
		return zap.Duration(k, s.V.(time.Duration))
	case "time":
		if s.Ptr {
			return zap.Timep(k, ptrTo(s.V.(time.Time)))
		}
		return zap.Time(k, s.V.(time.Time))
	case "nilptr":
		switch s.V.(string) {
		case "int":
			return zap.Intp(k, nil)
		case "string":
			return zap.Stringp(k, nil)
		case "bool":
			return zap.Boolp(k, nil)
		case "time":
			return zap.Timep(k, nil)
		case "dur":
			return zap.Durationp(k, nil)
		case "f64":
			return zap.Float64p(k, nil)
		case "u8":
			return zap.Uint8p(k, nil)
		case "c64":
			return zap.Complex64p(k, nil)
		default:
			return zap.Uintptrp(k, nil)
		}
	case "ns":
		return zap.Namespace(k)
	case "skip":
		return zap.Skip()
	case "stack":
		return zap.Stack(k)
	case "stackskip":
		return zap.StackSkip(k, s.V.(int))
	case "zfstr":
		return zapfield.Str(namedKey(k), namedVal(s.V.(string)))
	case "zfstrs":
		vs := s.V.([]string)
		nv := make(namedVals, len(vs))
		for i, x := range vs {
			nv[i] = namedVal(x)
		}
		if vs == nil {
			nv = nil
		}
		return zapfield.Strs(namedKey(k), nv)
	case "obj":
		return zap.Object(k, specObj{s})
	case "arr":
		return zap.Array(k, specArr{s})
	case "inline":
		return zap.Inline(specObj{s})
	case "dict":
		fs := s.kidFields()
		guardInput("zap.Dict", func() string { return fieldsSnap(fs) })
		return zap.Dict(k, fs...)
	case "inlinedict":
		fs := s.kidFields()
		guardInput("zap.DictObject", func() string { return fieldsSnap(fs) })
		return zap.Inline(zap.DictObject(fs...))
	case "objects":
		vs := make([]specObj, len(s.Kids))
		for i, c := range s.Kids {
			vs[i] = specObj{c}
		}
		guardInput("zap.Objects", func() string { return fmt.Sprintf("%p %d", vs, len(vs)) + fmt.Sprint(vs) })
		return zap.Objects(k, vs)
	case "objectvalues":
		vs := make([]specObjV, len(s.Kids))
		for i, c := range s.Kids {
			vs[i] = specObjV{c}
		}
		guardInput("zap.ObjectValues", func() string { return fmt.Sprint(len(vs), vs) })
		return zap.ObjectValues(k, vs)
	case "slice":
		v := s.V
		guardInput("slice constructor", func() string { return fmt.Sprintf("%d %v", reflect.ValueOf(v).Len(), v) })
		return s.sliceField()
	case "err":
		return zap.NamedError(k, s.V.(*errSpec).build())
	case "error":
		return zap.Error(s.V.(*errSpec).build()) // key "error"
	case "nilerr":
		return zap.NamedError(k, nil)
	case "errs":
		es := s.V.([]*errSpec)
		out := make([]error, len(es))
		for i, e := range es {
			out[i] = e.build()
		}
		guardInput("zap.Errors", func() string { return fmt.Sprintf("%d %#v", len(out), out) })
		return zap.Errors(k, out)
	case "stringer":
		return zap.Stringer(k, s.V.(strSpec).build())
	case "stringers":
		ss := s.V.([]strSpec)
		out := make([]fmt.Stringer, len(ss))
		for i, e := range ss {
			out[i] = e.build()
		}
		guardInput("zap.Stringers", func() string { return fmt.Sprintf("%d %#v", len(out), out) })
		// the generic constructor is instantiated for the element type: when every element has the same concrete
		// type, sometimes use a slice of THAT type (value types cannot be nil - their String methods can still panic)
		if len(ss) > 0 && len(s.Key)%2 == 0 {
			same := true
			for _, e := range ss {
				if e.Kind != ss[0].Kind {
					same = false
				}
			}
			if same {
				switch ss[0].Kind {
				case "ok":
					ts := make([]okStringer, len(ss))
					for i, e := range ss {
						ts[i] = okStringer{e.S}
					}
					return zap.Stringers(k, ts)
				case "panic":
					ts := make([]panicStringer, len(ss))
					for i, e := range ss {
						ts[i] = panicStringer{e.S}
					}
					return zap.Stringers(k, ts)
				case "ptr":
					ts := make([]*ptrStringer, len(ss))
					for i, e := range ss {
						ts[i] = &ptrStringer{e.S}
					}
					return zap.Stringers(k, ts)
				case "nilptr":
					return zap.Stringers(k, make([]*ptrStringer, len(ss)))
				case "nilsafe":
					return zap.Stringers(k, make([]*nilSafeStringer, len(ss)))
				}
			}
		}
		return zap.Stringers(k, out)
	case "reflect":
		return zap.Reflect(k, s.V)
	}
	panic("Field: kind " + s.Kind)
}

func (s *Spec) kidFields() []zapcore.Field {
	fs := make([]zapcore.Field, 0, len(s.Kids))
	for _, c := range s.Kids {
		fs = append(fs, c.Field())
	}
	return fs
}

// anyValue is what is handed to zap.Any when ViaAny is set.
func (s *Spec) anyValue() any {
	switch s.Kind {
	case "nilptr":
		switch s.V.(string) {
		case "int":
			return (*int)(nil)
		case "string":
			return (*string)(nil)
		case "bool":
			return (*bool)(nil)
		case "time":
			return (*time.Time)(nil)
		case "dur":
			return (*time.Duration)(nil)
		case "f64":
			return (*float64)(nil)
		case "u8":
			return (*uint8)(nil)
		case "c64":
			return (*complex64)(nil)
		default:
			return (*uintptr)(nil)
		}
	case "obj":
		return specObj{s}
	case "arr":
		return specArr{s}
	case "dict":
		return s.kidFields()
	case "err":
		return s.V.(*errSpec).build()
	case "errs":
		es := s.V.([]*errSpec)
		out := make([]error, len(es))
		for i, e := range es {
			out[i] = e.build()
		}
		return out
	case "stringer":
		return s.V.(strSpec).build()
	case "slice":
		return s.V
	case "reflect":
		return s.V
	}
	if s.Ptr {
		switch v := s.V.(type) {
		case string:
			return &v
		case bool:
			return &v
		case int64:
			return &v
		case int32:
			return &v
		case int16:
			return &v
		case int8:
			return &v
		case int:
			return &v
		case uint64:
			return &v
		case uint32:
			return &v
		case uint16:
			return &v
		case uint8:
			return &v
		case uint:
			return &v
		case uintptr:
			return &v
		case float64:
			return &v
		case float32:
			return &v
		case complex128:
			return &v
		case complex64:
			return &v
		case time.Duration:
			return &v
		case time.Time:
			return &v
		}
	}
	return s.V
}

// anyCapable reports whether zap.Any(key, anyValue()) must give the same
// representation as Field() for this kind.
func (s *Spec) anyCapable() bool {
	switch s.Kind {
	case "bstr", "ns", "skip", "stack", "stackskip", "zfstr", "zfstrs", "inline", "inlinedict", "objects", "objectvalues", "error", "nilerr", "stringers":
		return false
	case "slice":
		switch s.V.(type) {
		case []uint8: // Any treats []byte as a binary blob
			return false
		case [][]byte: // not special-cased by Any: reflection
			return false
		}
		return true
	case "reflect":
		// only values that Any does not special-case
		switch s.V.(type) {
		case nil, map[string]any, reflStruct, *reflStruct, []any, [2]bool, struct{}, chan int, map[string]float64, func(), json.RawMessage, detailStruct:
			return true
		}
		return false
	}
	return true
}

func (s *Spec) sliceField() zapcore.Field {
	k := s.Key
	switch v := s.V.(type) {
	case []bool:
		return zap.Bools(k, v)
	case [][]byte:
		return zap.ByteStrings(k, v)
	case []complex128:
		return zap.Complex128s(k, v)
	case []complex64:
		return zap.Complex64s(k, v)
	case []time.Duration:
		return zap.Durations(k, v)
	case []float64:
		return zap.Float64s(k, v)
	case []float32:
		return zap.Float32s(k, v)
	case []int:
		return zap.Ints(k, v)
	case []int64:
		return zap.Int64s(k, v)
	case []int32:
		return zap.Int32s(k, v)
	case []int16:
		return zap.Int16s(k, v)
	case []int8:
		return zap.Int8s(k, v)
	case []string:
		return zap.Strings(k, v)
	case []time.Time:
		return zap.Times(k, v)
	case []uint:
		return zap.Uints(k, v)
	case []uint64:
		return zap.Uint64s(k, v)
	case []uint32:
		return zap.Uint32s(k, v)
	case []uint16:
		return zap.Uint16s(k, v)
	case []uint8:
		return zap.Uint8s(k, v)
	case []uintptr:
		return zap.Uintptrs(k, v)
	}
	panic(fmt.Sprintf("sliceField %T", s.V))
}

// ---------------------------------------------------------------- expectation

func uni(s string) string { return string([]rune(s)) }

func scalarNode(kind string, v any) *xnode {
	n := scalarNode0(kind, v)
	n.raw = v
	n.rk = kind
	return n
}

func scalarNode0(kind string, v any) *xnode {
	switch kind {
	case "str":
		return xstr(uni(v.(string)))
	case "bstr":
		return xstr(uni(string(v.([]byte))))
	case "bin":
		return xstr(base64.StdEncoding.EncodeToString(v.([]byte)))
	case "bool":
		return xbool(v.(bool))
	case "i64":
		return xint(v.(int64))
	case "i32":
		return xint(int64(v.(int32)))
	case "i16":
		return xint(int64(v.(int16)))
	case "i8":
		return xint(int64(v.(int8)))
	case "int":
		return xint(int64(v.(int)))
	case "u64":
		return xuint(v.(uint64))
	case "u32":
		return xuint(uint64(v.(uint32)))
	case "u16":
		return xuint(uint64(v.(uint16)))
	case "u8":
		return xuint(uint64(v.(uint8)))
	case "uint":
		return xuint(uint64(v.(uint)))
	case "uptr":
		return xuint(uint64(v.(uintptr)))
	case "f64":
		return xf64(v.(float64))
	case "f32":
		return xf32(v.(float32))
	case "c128":
		return xc128(v.(complex128))
	case "c64":
		return xc64(v.(complex64))
	case "dur":
		return xdur(v.(time.Duration))
	case "time":
		return xtime(v.(time.Time))
	}
	panic("scalarNode " + kind)
}

// refJSON encodes v like the documented reflection fallback: encoding/json
// with HTML escaping off. Returns the JSON text or the error text.
func refJSON(v any) (string, string) {
	if v == nil {
		return "null", ""
	}
	var buf bytes.Buffer
	e := json.NewEncoder(&buf)
	e.SetEscapeHTML(false)
	if err := e.Encode(v); err != nil {
		return "", err.Error()
	}
	return strings.TrimSuffix(buf.String(), "\n"), ""
}

// expectErr models the documented error expansion under key k into o:
// k = message; kVerbose when %+v differs; kCauses = array of {"error":...}
// with nil members skipped. Returns the error text that propagates ("" if none).
func expectErr(k string, e *errSpec, o *objX) string {
	switch e.Kind {
	case "nilptr":
		o.put(k, xstr("<nil>"))
		return ""
	case "panic":
		return "PANIC=" + e.Msg
	case "plain", "plainfmt", "ptr", "detail":
		o.put(k, xstr(uni(e.Msg)))
		return ""
	case "joined":
		o.put(k, xstr(uni(e.Msg+"\njoined")))
		return ""
	case "verbose", "wrapmany-verbose":
		o.put(k, xstr(uni(e.Msg)))
		o.put(k+"Verbose", xstr(uni(e.Msg+"\nverbose\t\"x\"")))
		return ""
	case "swapverbose":
		o.put(k, xstr(uni("op:"+e.Msg)))
		o.put(k+"Verbose", xstr(uni("E7:"+e.Msg)))
		return ""
	case "group":
		o.put(k, xstr(uni(e.Msg)))
		arr := &xnode{kind: "arr"}
		o.put(k+"Causes", arr)
		for _, m := range e.Kids {
			if m == nil {
				continue
			}
			el := newObjX()
			arr.els = append(arr.els, el.root)
			if txt := expectErr("error", m, el); txt != "" {
				return txt // element failed: the array stops, error propagates
			}
		}
		return ""
	}
	panic("expectErr " + e.Kind)
}

// expectObjBody emits the members of an obj/inline spec into o and returns
// the marshaler's error text.
func (s *Spec) expectObjBody(o *objX) string {
	for i, k := range s.Kids {
		if s.Err != "" && i == s.ErrAt {
			return s.Err
		}
		k.ExpectField(o)
	}
	return s.Err
}

// ExpectField models Field.AddTo on an object encoder.
func (s *Spec) ExpectField(o *objX) {
	k := s.Key
	fail := func(txt string) {
		if txt != "" {
			o.put(k+"Error", xstr(uni(txt)))
		}
	}
	switch s.Kind {
	case "nilptr":
		o.put(k, xnull())
	case "ns":
		o.ns(k)
	case "skip", "nilerr":
	case "stack", "stackskip":
		o.put(k, xany())
	case "zfstr":
		o.put(k, scalarNode("str", s.V.(string)))
	case "zfstrs":
		o.put(k, sliceNode(s.V.([]string)))
	case "obj":
		n := newObjX()
		o.put(k, n.root)
		fail(s.expectObjBody(n))
	case "dict":
		n := newObjX()
		o.put(k, n.root)
		for _, c := range s.Kids {
			c.ExpectField(n)
		}
	case "inline", "inlinedict":
		// members go straight into the enclosing object (namespaces opened
		// inside persist there); the failure key is "Error" (empty key).
		if txt := s.expectObjBody(o); txt != "" {
			o.put("Error", xstr(uni(txt)))
		}
	case "arr":
		n := &xnode{kind: "arr"}
		o.put(k, n)
		fail(s.expectArrBody(n))
	case "objects", "objectvalues":
		n := &xnode{kind: "arr"}
		o.put(k, n)
		for _, c := range s.Kids {
			el := newObjX()
			n.els = append(n.els, el.root)
			if txt := c.expectObjBody(el); txt != "" {
				fail(txt)
				break
			}
		}
	case "slice":
		o.put(k, sliceNode(s.V))
	case "err":
		fail(expectErr(k, s.V.(*errSpec), o))
	case "error":
		if txt := expectErr("error", s.V.(*errSpec), o); txt != "" {
			o.put("errorError", xstr(uni(txt)))
		}
	case "errs":
		n := &xnode{kind: "arr"}
		o.put(k, n)
		for _, e := range s.V.([]*errSpec) {
			if e == nil {
				continue
			}
			// zap.Errors wraps each element in an object built like zap.Error:
			// a failing element is reported inside its own object and the
			// array continues.
			el := newObjX()
			n.els = append(n.els, el.root)
			if txt := expectErr("error", e, el); txt != "" {
				el.put("errorError", xstr(uni(txt)))
			}
		}
	case "stringer":
		v, txt := s.V.(strSpec).want()
		if txt != "" {
			fail(txt)
		} else {
			o.put(k, xstr(uni(v)))
		}
	case "stringers":
		n := &xnode{kind: "arr"}
		o.put(k, n)
		for _, e := range s.V.([]strSpec) {
			v, txt := e.want()
			if txt != "" {
				fail(txt)
				break
			}
			n.els = append(n.els, xstr(uni(v)))
		}
	case "reflect":
		js, txt := refJSON(s.V)
		if txt != "" {
			fail(txt)
		} else {
			n := xraw(js)
			n.raw = s.V
			o.put(k, n)
		}
	default:
		o.put(k, scalarNode(s.Kind, s.V))
	}
}

// expectArrBody emits the elements of an arr spec into n and returns the
// error text the array marshaler returns.
func (s *Spec) expectArrBody(n *xnode) string {
	for i, c := range s.Kids {
		if s.Err != "" && i == s.ErrAt {
			return s.Err
		}
		if txt := c.expectElem(n); txt != "" {
			return txt
		}
	}
	return s.Err
}

// expectElem models appendTo: appends to arr and returns the error text the
// element's Append* call returned.
func (s *Spec) expectElem(arr *xnode) string {
	switch s.Kind {
	case "obj":
		el := newObjX()
		arr.els = append(arr.els, el.root)
		return s.expectObjBody(el)
	case "arr":
		n := &xnode{kind: "arr"}
		arr.els = append(arr.els, n)
		return s.expectArrBody(n)
	case "reflect":
		js, txt := refJSON(s.V)
		if txt != "" {
			return txt
		}
		rn := xraw(js)
		rn.raw = s.V
		arr.els = append(arr.els, rn)
		return ""
	}
	arr.els = append(arr.els, scalarNode(s.Kind, s.V))
	return ""
}

func sliceNode(v any) *xnode {
	n := &xnode{kind: "arr"}
	add := func(x *xnode) { n.els = append(n.els, x) }
	switch vs := v.(type) {
	case []bool:
		for _, x := range vs {
			add(scalarNode("bool", x))
		}
	case [][]byte:
		for _, x := range vs {
			add(scalarNode("bstr", x))
		}
	case []complex128:
		for _, x := range vs {
			add(scalarNode("c128", x))
		}
	case []complex64:
		for _, x := range vs {
			add(scalarNode("c64", x))
		}
	case []time.Duration:
		for _, x := range vs {
			add(scalarNode("dur", x))
		}
	case []float64:
		for _, x := range vs {
			add(scalarNode("f64", x))
		}
	case []float32:
		for _, x := range vs {
			add(scalarNode("f32", x))
		}
	case []int:
		for _, x := range vs {
			add(scalarNode("int", x))
		}
	case []int64:
		for _, x := range vs {
			add(scalarNode("i64", x))
		}
	case []int32:
		for _, x := range vs {
			add(scalarNode("i32", x))
		}
	case []int16:
		for _, x := range vs {
			add(scalarNode("i16", x))
		}
	case []int8:
		for _, x := range vs {
			add(scalarNode("i8", x))
		}
	case []string:
		for _, x := range vs {
			add(scalarNode("str", x))
		}
	case []time.Time:
		for _, x := range vs {
			add(scalarNode("time", x))
		}
	case []uint:
		for _, x := range vs {
			add(scalarNode("uint", x))
		}
	case []uint64:
		for _, x := range vs {
			add(scalarNode("u64", x))
		}
	case []uint32:
		for _, x := range vs {
			add(scalarNode("u32", x))
		}
	case []uint16:
		for _, x := range vs {
			add(scalarNode("u16", x))
		}
	case []uint8:
		for _, x := range vs {
			add(scalarNode("u8", x))
		}
	case []uintptr:
		for _, x := range vs {
			add(scalarNode("uptr", x))
		}
	default:
		panic(fmt.Sprintf("sliceNode %T", v))
	}
	return n
}

// ---------------------------------------------------------------- traits

type specTraits struct {
	kinds       map[string]int
	maxDepth    int
	faults      int  // failing marshalers / panicking or nil stringers+errors / unencodable reflected values
	faultDepth  int  // deepest fault
	nsNested    bool // namespace opened inside a nested object
	nsInArray   bool // namespace inside an object that is an array element
	nsOpenAtEnd bool
	extreme     bool // extreme numeric / NaN / Inf
	badUTF8     bool
	bigString   bool
	viaAny      int
	hostileKey  bool
}

func (s *Spec) walk(tr *specTraits, depth int, inArr bool, top bool) {
	if tr.kinds == nil {
		tr.kinds = map[string]int{}
	}
	tr.kinds[s.Kind]++
	if depth > tr.maxDepth {
		tr.maxDepth = depth
	}
	if s.ViaAny {
		tr.viaAny++
	}
	if s.Key != "" && (strings.ContainsAny(s.Key, "\"\\\n") || uni(s.Key) != s.Key) {
		tr.hostileKey = true
	}
	fault := func() {
		tr.faults++
		if depth > tr.faultDepth {
			tr.faultDepth = depth
		}
	}
	if s.Err != "" {
		fault()
	}
	switch v := s.V.(type) {
	case string:
		if uni(v) != v {
			tr.badUTF8 = true
		}
		if len(v) > 1024 {
			tr.bigString = true
		}
	case []byte:
		if uni(string(v)) != string(v) {
			tr.badUTF8 = true
		}
	case float64:
		if v != v || v > 1e300 || v < -1e300 || (v != 0 && v < 1e-300 && v > -1e-300) {
			tr.extreme = true
		}
	case float32:
		if v != v {
			tr.extreme = true
		}
	case uint64:
		if v > 1<<63 {
			tr.extreme = true
		}
	case int64:
		if v == -1<<63 || v == 1<<63-1 {
			tr.extreme = true
		}
	case *errSpec:
		if v.hasFault() {
			fault()
		}
	case []*errSpec:
		for _, e := range v {
			if e.hasFault() {
				fault()
			}
		}
	case strSpec:
		if v.Kind == "panic" || v.Kind == "nilptr" {
			fault()
		}
	case []strSpec:
		for _, e := range v {
			if e.Kind == "panic" || e.Kind == "nilptr" {
				fault()
			}
		}
	}
	if s.Kind == "reflect" {
		if _, txt := refJSON(s.V); txt != "" {
			fault()
		}
	}
	if s.Kind == "ns" {
		if !top {
			tr.nsNested = true
		}
		if inArr {
			tr.nsInArray = true
		}
	}
	childInArr := s.Kind == "arr" || s.Kind == "objects" || s.Kind == "objectvalues"
	for _, c := range s.Kids {
		d := depth + 1
		ctop := false
		if s.Kind == "inline" || s.Kind == "inlinedict" {
			ctop = top
		}
		if c != nil {
			c.walk(tr, d, childInArr || (inArr && s.Kind != "obj"), ctop)
		}
	}
}

func traitsOf(specs ...[]*Spec) *specTraits {
	tr := &specTraits{}
	for _, list := range specs {
		for _, s := range list {
			s.walk(tr, 0, false, true)
		}
	}
	return tr
}

func (tr *specTraits) kindSig() string {
	ks := make([]string, 0, len(tr.kinds))
	for k, n := range tr.kinds {
		if n > 3 {
			n = 3
		}
		ks = append(ks, fmt.Sprintf("%s%d", k, n))
	}
	sortStrings(ks)
	return strings.Join(ks, ",") + fmt.Sprintf("|d%d f%d", tr.maxDepth, tr.faults)
}

// Render is a compact human-readable rendering for evidence samples.
func (s *Spec) Render() string {
	var sb strings.Builder
	s.render(&sb)
	return sb.String()
}

func (s *Spec) render(sb *strings.Builder) {
	sb.WriteString(s.Kind)
	if s.ViaAny {
		sb.WriteString("~any")
	}
	if s.Ptr {
		sb.WriteString("~ptr")
	}
	fmt.Fprintf(sb, "(%q", clipS(s.Key))
	switch v := s.V.(type) {
	case nil:
	case string:
		fmt.Fprintf(sb, "=%q", clipS(v))
	case []byte:
		fmt.Fprintf(sb, "=%q", clipS(string(v)))
	case *errSpec:
		fmt.Fprintf(sb, "=err:%s", v.Kind)
	case strSpec:
		fmt.Fprintf(sb, "=stringer:%s", v.Kind)
	case time.Time:
		fmt.Fprintf(sb, "=%s", v.Format(time.RFC3339Nano))
	default:
		fmt.Fprintf(sb, "=%s", clipS(fmt.Sprintf("%v", v)))
	}
	if len(s.Kids) > 0 {
		sb.WriteString(" [")
		for i, c := range s.Kids {
			if i > 0 {
				sb.WriteString(" ")
			}
			c.render(sb)
		}
		sb.WriteString("]")
	}
	if s.Err != "" {
		fmt.Fprintf(sb, " !err@%d", s.ErrAt)
	}
	sb.WriteString(")")
}

func renderSpecs(list []*Spec) string {
	var sb strings.Builder
	for i, s := range list {
		if i > 0 {
			sb.WriteString(" ")
		}
		s.render(&sb)
	}
	return sb.String()
}

// ---------------------------------------------------------------- generator

type specOpts struct {
	faults   bool // marshaler errors, panicking/nil stringers and errors, unencodable reflected values
	stack    bool // zap.Stack fields (value not predictable)
	maxKids  int
	viaAny   bool
	zapfield bool // exp/zapfield constructors
	faultPct int  // probability (percent) that an obj/arr fails when faults are on
	panics   bool // C01 only: a failing obj/arr marshaler may PANIC instead of returning its error
}

func genSpec(t *rapid.T, depth int, inArray bool, o specOpts) *Spec {
	var kinds []string
	if inArray {
		kinds = append(kinds, scalarKinds...)
		kinds = append(kinds, "reflect")
	} else {
		kinds = append(kinds, scalarKinds...)
		kinds = append(kinds, "bin", "nilptr", "ns", "skip", "slice", "slice", "err", "error", "nilerr", "errs", "stringer", "stringers", "reflect", "reflect")
		if o.stack {
			kinds = append(kinds, "stack", "stackskip")
		}
		if o.zapfield {
			kinds = append(kinds, "zfstr", "zfstrs")
		}
	}
	if depth > 0 {
		kinds = append(kinds, "obj", "arr", "obj", "arr", "obj", "arr")
		if !inArray {
			kinds = append(kinds, "inline", "dict", "inlinedict", "objects", "objectvalues", "obj", "arr", "inline")
		}
	}
	if depth > 0 && !inArray && rapid.IntRange(0, 79).Draw(t, "deepChain") == 0 {
		// a chain of nested marshalers far deeper than any ordinary value (nesting has no documented limit)
		n := rapid.SampledFrom([]int{6, 17, 33, 64, 65, 66, 129, 300}).Draw(t, "chainDepth")
		mixed := rapid.Bool().Draw(t, "chainWithArrays")
		leaf := &Spec{Kind: "int", Key: "leaf", V: n}
		cur := leaf
		for i := n; i >= 1; i-- {
			k := "obj"
			if mixed && i%2 == 0 {
				k = "arr"
			}
			if k == "arr" && cur.Kind != "obj" && cur.Kind != "arr" {
				k = "obj" // array elements carry no key: keep the keyed leaf inside an object
			}
			cur = &Spec{Kind: k, Key: fmt.Sprintf("d%d", i), Kids: []*Spec{cur}}
		}
		cur.Key = genKey().Draw(t, "key")
		return cur
	}
	s := &Spec{Kind: rapid.SampledFrom(kinds).Draw(t, "kind")}
	if !inArray {
		s.Key = genKey().Draw(t, "key")
	}
	if o.maxKids == 0 {
		o.maxKids = 3
	}
	if o.faultPct == 0 {
		o.faultPct = 17
	}
	drawErr := func(n int) {
		if o.faults && rapid.IntRange(0, 99).Draw(t, "fails") < o.faultPct {
			s.Err = rapid.SampledFrom([]string{"boom", "bo\"om\n", "\xffbad", ""}).Draw(t, "errText")
			if s.Err == "" {
				s.Err = "e"
			}
			s.ErrAt = rapid.IntRange(0, n).Draw(t, "errAt")
			if o.panics && rapid.IntRange(0, 3).Draw(t, "marshalerPanics") == 0 {
				s.Err = specPanicPrefix + s.Err
			}
		}
	}
	switch s.Kind {
	case "str", "zfstr":
		s.V = genStr().Draw(t, "v")
	case "zfstrs":
		s.V = drawN(t, rapid.IntRange(0, 3).Draw(t, "n"), genStr())
	case "stackskip":
		s.V = rapid.IntRange(0, 3).Draw(t, "skip")
	case "bstr", "bin":
		s.V = []byte(genStr().Draw(t, "v"))
	case "bool":
		s.V = rapid.Bool().Draw(t, "v")
	case "i64":
		s.V = genInt64().Draw(t, "v")
	case "i32":
		s.V = int32(genInt64().Draw(t, "v"))
	case "i16":
		s.V = int16(genInt64().Draw(t, "v"))
	case "i8":
		s.V = int8(genInt64().Draw(t, "v"))
	case "int":
		s.V = int(genInt64().Draw(t, "v"))
	case "u64":
		s.V = genUint64().Draw(t, "v")
	case "u32":
		s.V = uint32(genUint64().Draw(t, "v"))
	case "u16":
		s.V = uint16(genUint64().Draw(t, "v"))
	case "u8":
		s.V = uint8(genUint64().Draw(t, "v"))
	case "uint":
		s.V = uint(genUint64().Draw(t, "v"))
	case "uptr":
		s.V = uintptr(genUint64().Draw(t, "v"))
	case "f64":
		s.V = genFloat().Draw(t, "v")
	case "f32":
		s.V = genFloat32().Draw(t, "v")
	case "c128":
		s.V = genComplex().Draw(t, "v")
	case "c64":
		s.V = complex64(genComplex().Draw(t, "v"))
	case "dur":
		s.V = genDuration().Draw(t, "v")
	case "time":
		s.V = genTime().Draw(t, "v")
	case "nilptr":
		s.V = rapid.SampledFrom([]string{"int", "string", "bool", "time", "dur", "f64", "u8", "c64", "uptr"}).Draw(t, "nilType")
	case "slice":
		s.V = genSliceValue(t)
	case "err", "error":
		s.V = genErrSpec(t, 2, o.faults)
	case "errs":
		n := rapid.IntRange(0, 3).Draw(t, "nErrs")
		es := make([]*errSpec, n)
		for i := range es {
			if rapid.IntRange(0, 4).Draw(t, "nilErr") != 0 {
				es[i] = genErrSpec(t, 1, o.faults)
			}
		}
		s.V = es
	case "stringer":
		s.V = genStrSpec(t, o.faults)
	case "stringers":
		n := rapid.IntRange(0, 3).Draw(t, "nStringers")
		ss := make([]strSpec, n)
		for i := range ss {
			ss[i] = genStrSpec(t, o.faults)
		}
		s.V = ss
	case "reflect":
		s.V, s.Label = genReflect(t, o.faults)
	case "obj", "inline":
		n := rapid.IntRange(0, o.maxKids).Draw(t, "nKids")
		for i := 0; i < n; i++ {
			s.Kids = append(s.Kids, genSpec(t, depth-1, false, o))
		}
		drawErr(n)
		s.Reenter = rapid.IntRange(0, 11).Draw(t, "reentrantMarshaler") == 0
	case "dict", "inlinedict":
		n := rapid.IntRange(0, o.maxKids).Draw(t, "nKids")
		for i := 0; i < n; i++ {
			s.Kids = append(s.Kids, genSpec(t, depth-1, false, o))
		}
	case "arr":
		n := rapid.IntRange(0, o.maxKids).Draw(t, "nKids")
		for i := 0; i < n; i++ {
			s.Kids = append(s.Kids, genSpec(t, depth-1, true, o))
		}
		drawErr(n)
	case "objects", "objectvalues":
		n := rapid.IntRange(0, o.maxKids).Draw(t, "nKids")
		for i := 0; i < n; i++ {
			c := &Spec{Kind: "obj"}
			m := rapid.IntRange(0, 2).Draw(t, "nMembers")
			for j := 0; j < m; j++ {
				c.Kids = append(c.Kids, genSpec(t, depth-1, false, o))
			}
			if o.faults && rapid.IntRange(0, 9).Draw(t, "elemFails") == 0 {
				c.Err = "elem"
				c.ErrAt = rapid.IntRange(0, m).Draw(t, "errAt")
			}
			s.Kids = append(s.Kids, c)
		}
	}
	if !inArray {
		if o.viaAny && s.anyCapable() && rapid.IntRange(0, 3).Draw(t, "viaAny") == 0 {
			s.ViaAny = true
		}
		if isScalarKind(s.Kind) && s.Kind != "bstr" && s.Kind != "bin" && rapid.IntRange(0, 5).Draw(t, "ptr") == 0 {
			s.Ptr = true
		}
	}
	return s
}

func genSliceValue(t *rapid.T) any {
	n := rapid.SampledFrom([]int{0, 1, 2, 3, 0, 1, 2, 3, 0, 1, 2, 3, 0, 1, 2, 3, 0, 1, 2, 3, 0, 1, 2, 3, 0, 1, 2, 3, 0, 1, 2, 3, 8, 17, 100}).Draw(t, "sliceLen")
	kind := rapid.SampledFrom([]string{"bools", "bstrs", "c128s", "c64s", "durs", "f64s", "f32s", "ints", "i64s", "i32s", "i16s", "i8s", "strs", "times", "uints", "u64s", "u32s", "u16s", "u8s", "uptrs"}).Draw(t, "sliceKind")
	switch kind {
	case "bools":
		return drawN(t, n, rapid.Bool())
	case "bstrs":
		return drawN(t, n, rapid.Map(genStr(), func(s string) []byte { return []byte(s) }))
	case "c128s":
		return drawN(t, n, genComplex())
	case "c64s":
		return drawN(t, n, rapid.Map(genComplex(), func(c complex128) complex64 { return complex64(c) }))
	case "durs":
		return drawN(t, n, genDuration())
	case "f64s":
		return drawN(t, n, genFloat())
	case "f32s":
		return drawN(t, n, genFloat32())
	case "ints":
		return drawN(t, n, rapid.Map(genInt64(), func(v int64) int { return int(v) }))
	case "i64s":
		return drawN(t, n, genInt64())
	case "i32s":
		return drawN(t, n, rapid.Map(genInt64(), func(v int64) int32 { return int32(v) }))
	case "i16s":
		return drawN(t, n, rapid.Map(genInt64(), func(v int64) int16 { return int16(v) }))
	case "i8s":
		return drawN(t, n, rapid.Map(genInt64(), func(v int64) int8 { return int8(v) }))
	case "strs":
		return drawN(t, n, genStr())
	case "times":
		return drawN(t, n, genTime())
	case "uints":
		return drawN(t, n, rapid.Map(genUint64(), func(v uint64) uint { return uint(v) }))
	case "u64s":
		return drawN(t, n, genUint64())
	case "u32s":
		return drawN(t, n, rapid.Map(genUint64(), func(v uint64) uint32 { return uint32(v) }))
	case "u16s":
		return drawN(t, n, rapid.Map(genUint64(), func(v uint64) uint16 { return uint16(v) }))
	case "u8s":
		return drawN(t, n, rapid.Map(genUint64(), func(v uint64) uint8 { return uint8(v) }))
	default:
		return drawN(t, n, rapid.Map(genUint64(), func(v uint64) uintptr { return uintptr(v) }))
	}
}

func drawN[T any](t *rapid.T, n int, g *rapid.Generator[T]) []T {
	if n == 0 && rapid.Bool().Draw(t, "nilSlice") {
		return nil
	}
	out := make([]T, n)
	for i := range out {
		if i >= 6 {
			out[i] = out[i%6] // long slices tile a few drawn elements
			continue
		}
		out[i] = g.Draw(t, "elem")
	}
	return out
}

func genSpecs(t *rapid.T, depth, max int, o specOpts, label string) []*Spec {
	n := rapid.IntRange(0, max).Draw(t, label)
	if max >= 3 && rapid.IntRange(0, 39).Draw(t, "wideFieldList") == 0 {
		// many fields in one list (beyond every pre-sized slice): cheap scalar ones
		n = rapid.SampledFrom([]int{9, 17, 33, 65}).Draw(t, "wideCount")
		nsRun := rapid.Bool().Draw(t, "namespaceRun") // ... or that many namespaces opened one inside the other
		if nsRun && rapid.IntRange(0, 3).Draw(t, "hundredsOfNamespaces") == 0 {
			n = rapid.SampledFrom([]int{510, 512, 514, 600}).Draw(t, "nsRunLength") // 255..300 namespaces open at once
		}
		out := make([]*Spec, 0, n)
		for i := 0; i < n; i++ {
			if nsRun && i%2 == 0 {
				out = append(out, &Spec{Kind: "ns", Key: fmt.Sprintf("n%d", i)})
				continue
			}
			out = append(out, &Spec{Kind: "int", Key: fmt.Sprintf("w%d", i), V: i})
		}
		return out
	}
	out := make([]*Spec, 0, n)
	for i := 0; i < n; i++ {
		out = append(out, genSpec(t, depth, false, o))
	}
	return out
}

func fieldsOf(specs []*Spec) []zapcore.Field {
	fs := make([]zapcore.Field, 0, len(specs))
	for _, s := range specs {
		fs = append(fs, s.Field())
	}
	return fs
}
