package props

// Ordered JSON reader, byte-level well-formedness predicate (C01) and the
// comparison of a decoded line against an expected xnode tree (C02).

import (
	"bytes"
	"encoding/base64"
	"encoding/json"
	"fmt"
	"io"
	"math"
	"sort"
	"strconv"
	"strings"
	"time"
	"unicode/utf8"
)

func sortStrings(s []string) { sort.Strings(s) }

// decodeOrdered parses exactly one JSON value (duplicate keys preserved, in
// order) and requires nothing but whitespace after it.
func decodeOrdered(b []byte) (n *xnode, err error) {
	dec := json.NewDecoder(bytes.NewReader(b))
	dec.UseNumber()
	defer func() {
		if r := recover(); r != nil {
			n, err = nil, fmt.Errorf("%v", r)
		}
	}()
	n = decVal(dec)
	if _, e := dec.Token(); e != io.EOF {
		return nil, fmt.Errorf("trailing data after the first JSON value (%v)", e)
	}
	return n, nil
}

func decVal(dec *json.Decoder) *xnode {
	tok, err := dec.Token()
	if err != nil {
		panic(err)
	}
	switch v := tok.(type) {
	case json.Delim:
		switch v {
		case '{':
			n := &xnode{kind: "obj"}
			for dec.More() {
				kt, err := dec.Token()
				if err != nil {
					panic(err)
				}
				ks, ok := kt.(string)
				if !ok {
					panic(fmt.Sprintf("non-string key %v", kt))
				}
				n.kids = append(n.kids, xkv{ks, decVal(dec)})
			}
			if _, err := dec.Token(); err != nil {
				panic(err)
			}
			return n
		case '[':
			n := &xnode{kind: "arr"}
			for dec.More() {
				n.els = append(n.els, decVal(dec))
			}
			if _, err := dec.Token(); err != nil {
				panic(err)
			}
			return n
		}
		panic(fmt.Sprintf("unexpected delimiter %v", v))
	case string:
		return &xnode{kind: "str", s: v}
	case json.Number:
		return &xnode{kind: "num", s: string(v)}
	case bool:
		return &xnode{kind: "bool", s: strconv.FormatBool(v)}
	case nil:
		return &xnode{kind: "null"}
	}
	panic("unknown token")
}

// checkJSONLine is the C01 validity predicate on the raw bytes of one encoded
// entry: configured line ending, no raw control byte, valid UTF-8, exactly one
// JSON object. Returns "" or a description of the defect.
func checkJSONLine(out []byte, lineEnding string) (string, *xnode) {
	if !bytes.HasSuffix(out, []byte(lineEnding)) {
		return fmt.Sprintf("output does not end with the configured line ending %q", lineEnding), nil
	}
	body := out[:len(out)-len(lineEnding)]
	for i, c := range body {
		if c < 0x20 {
			return fmt.Sprintf("raw control byte 0x%02x at offset %d inside the object", c, i), nil
		}
	}
	if !utf8.Valid(body) {
		return "object is not valid UTF-8", nil
	}
	if !json.Valid(body) {
		return "encoding/json rejects the object (json.Valid == false)", nil
	}
	n, err := decodeOrdered(body)
	if err != nil {
		return "token walk failed: " + err.Error(), nil
	}
	if n.kind != "obj" {
		return "top-level value is not an object", nil
	}
	if len(body) == 0 || body[0] != '{' || body[len(body)-1] != '}' {
		return "entry is not exactly one object (leading/trailing bytes)", nil
	}
	return "", n
}

func effectiveLineEnding(skip bool, le string) string {
	if skip {
		return ""
	}
	if le == "" {
		return "\n"
	}
	return le
}

func sameFloat(a, b float64) bool {
	return math.Float64bits(a) == math.Float64bits(b) || (a != a && b != b)
}

// cmpTree compares the expected tree with the decoded one. Returns "" if equal.
func cmpTree(path string, want, got *xnode, cs *cfgSpec) string {
	bad := func(f string, a ...any) string { return path + ": " + fmt.Sprintf(f, a...) }
	if got == nil {
		return bad("missing")
	}
	switch want.kind {
	case "obj":
		if got.kind != "obj" {
			return bad("want object, got %s %q", got.kind, clipS(got.s))
		}
		for i := range want.kids {
			if i >= len(got.kids) {
				return bad("object has %d members, want %d (missing key %q)", len(got.kids), len(want.kids), want.kids[i].k)
			}
			if uni(want.kids[i].k) != got.kids[i].k {
				return bad("member %d: key %q, want %q", i, got.kids[i].k, uni(want.kids[i].k))
			}
			if e := cmpTree(path+"."+strconv.Quote(want.kids[i].k), want.kids[i].v, got.kids[i].v, cs); e != "" {
				return e
			}
		}
		if len(got.kids) > len(want.kids) {
			return bad("object has %d members, want %d (extra key %q)", len(got.kids), len(want.kids), got.kids[len(want.kids)].k)
		}
	case "arr":
		if got.kind != "arr" {
			return bad("want array, got %s %q", got.kind, clipS(got.s))
		}
		if len(got.els) != len(want.els) {
			return bad("array has %d elements, want %d", len(got.els), len(want.els))
		}
		for i := range want.els {
			if e := cmpTree(fmt.Sprintf("%s[%d]", path, i), want.els[i], got.els[i], cs); e != "" {
				return e
			}
		}
	case "str", "bool", "null":
		if got.kind != want.kind || got.s != want.s {
			return bad("want %s %q, got %s %q", want.kind, clipS(want.s), got.kind, clipS(got.s))
		}
	case "int":
		if got.kind != "num" || got.s != want.s {
			return bad("want integer %s, got %s %q", want.s, got.kind, clipS(got.s))
		}
	case "anystr":
		if got.kind != "str" {
			return bad("want a string, got %s", got.kind)
		}
	case "f64", "f32":
		bits := 64
		if want.kind == "f32" {
			bits = 32
		}
		return cmpFloat(path, want.f, got, bits)
	case "c128", "c64":
		if got.kind != "str" {
			return bad("complex: want string, got %s %q", got.kind, got.s)
		}
		bits := 128
		if want.kind == "c64" {
			bits = 64
		}
		c, err := strconv.ParseComplex(got.s, bits)
		if err != nil {
			return bad("complex %v: %q does not parse: %v", want.c, got.s, err)
		}
		if bits == 64 {
			wr, wi := float32(real(want.c)), float32(imag(want.c))
			gr, gi := float32(real(c)), float32(imag(c))
			if !(sameFloat(float64(wr), float64(gr)) && sameFloat(float64(wi), float64(gi))) {
				return bad("complex64 %v encoded as %q which parses to %v", want.c, got.s, c)
			}
		} else if !(sameFloat(real(want.c), real(c)) && sameFloat(imag(want.c), imag(c))) {
			return bad("complex128 %v encoded as %q which parses to %v", want.c, got.s, c)
		}
	case "dur":
		return cmpDuration(path, want.d, got, cs)
	case "time":
		return cmpTime(path, want.t, got, cs)
	case "raw":
		w, err := decodeOrdered([]byte(want.s))
		if err != nil {
			return bad("internal: reference JSON %q undecodable: %v", want.s, err)
		}
		if e := cmpExact(path, w, got); e != "" {
			return e
		}
	default:
		return bad("internal: unknown expected kind %q", want.kind)
	}
	return ""
}

func cmpExact(path string, w, g *xnode) string {
	if w.kind != g.kind || w.s != g.s || len(w.kids) != len(g.kids) || len(w.els) != len(g.els) {
		return fmt.Sprintf("%s: reflected value differs from encoding/json: want %s, got %s", path, renderX(w), renderX(g))
	}
	for i := range w.kids {
		if w.kids[i].k != g.kids[i].k {
			return fmt.Sprintf("%s: reflected key %q, want %q", path, g.kids[i].k, w.kids[i].k)
		}
		if e := cmpExact(path+"."+w.kids[i].k, w.kids[i].v, g.kids[i].v); e != "" {
			return e
		}
	}
	for i := range w.els {
		if e := cmpExact(fmt.Sprintf("%s[%d]", path, i), w.els[i], g.els[i]); e != "" {
			return e
		}
	}
	return ""
}

func cmpFloat(path string, want float64, got *xnode, bits int) string {
	bad := func(f string, a ...any) string { return path + ": " + fmt.Sprintf(f, a...) }
	if bits == 32 {
		want = float64(float32(want))
	}
	switch {
	case math.IsNaN(want):
		if got.kind != "str" || got.s != "NaN" {
			return bad("NaN must be the string \"NaN\", got %s %q", got.kind, got.s)
		}
	case math.IsInf(want, 1):
		if got.kind != "str" || got.s != "+Inf" {
			return bad("+Inf must be the string \"+Inf\", got %s %q", got.kind, got.s)
		}
	case math.IsInf(want, -1):
		if got.kind != "str" || got.s != "-Inf" {
			return bad("-Inf must be the string \"-Inf\", got %s %q", got.kind, got.s)
		}
	default:
		if got.kind != "num" {
			return bad("float %v: want a number, got %s %q", want, got.kind, got.s)
		}
		back, err := strconv.ParseFloat(got.s, bits)
		if err != nil {
			return bad("float %v: token %q does not parse: %v", want, got.s, err)
		}
		if bits == 32 {
			if math.Float32bits(float32(back)) != math.Float32bits(float32(want)) {
				return bad("float32 %v (bits %08x) encoded as %s which parses to %v", want, math.Float32bits(float32(want)), got.s, back)
			}
		} else if math.Float64bits(back) != math.Float64bits(want) {
			return bad("float64 %v (bits %016x) encoded as %s which parses to %v", want, math.Float64bits(want), got.s, back)
		}
	}
	return ""
}

func cmpDuration(path string, d time.Duration, got *xnode, cs *cfgSpec) string {
	bad := func(f string, a ...any) string { return path + ": " + fmt.Sprintf(f, a...) }
	enc := "nil"
	if cs != nil {
		enc = cs.durEnc
	}
	switch enc {
	case "nil", "nop", "nanos":
		if got.kind != "num" || got.s != strconv.FormatInt(int64(d), 10) {
			return bad("duration %d ns (%s encoder): got %s %q", int64(d), enc, got.kind, got.s)
		}
	case "millis":
		if got.kind != "num" || got.s != strconv.FormatInt(int64(d)/1000000, 10) {
			return bad("duration %d ns as integer milliseconds: got %s %q", int64(d), got.kind, got.s)
		}
	case "seconds":
		return cmpFloat(path+"(seconds)", float64(d)/1e9, got, 64)
	case "string":
		if got.kind != "str" || got.s != d.String() {
			return bad("duration %d ns as string: want %q got %s %q", int64(d), d.String(), got.kind, got.s)
		}
	default:
		return bad("internal: duration encoder %q", enc)
	}
	return ""
}

func cmpTime(path string, t time.Time, got *xnode, cs *cfgSpec) string {
	bad := func(f string, a ...any) string { return path + ": " + fmt.Sprintf(f, a...) }
	enc, layout := "nil", ""
	if cs != nil {
		enc, layout = cs.timeEnc, cs.layout
	}
	inRange := timeInNanoRange(t)
	switch enc {
	case "nil", "nop", "nanos":
		if got.kind != "num" {
			return bad("time (%s encoder): want integer nanoseconds, got %s %q", enc, got.kind, got.s)
		}
		if inRange && got.s != strconv.FormatInt(t.UnixNano(), 10) {
			return bad("time %v as nanoseconds: want %d got %s", t, t.UnixNano(), got.s)
		}
	case "epoch":
		if !inRange {
			if got.kind != "num" {
				return bad("time: want a number, got %s", got.kind)
			}
			return ""
		}
		return cmpFloat(path+"(epoch seconds)", float64(t.UnixNano())/1e9, got, 64)
	case "millis":
		if !inRange {
			if got.kind != "num" {
				return bad("time: want a number, got %s", got.kind)
			}
			return ""
		}
		return cmpFloat(path+"(epoch millis)", float64(t.UnixNano())/1e6, got, 64)
	case "iso8601":
		layout = "2006-01-02T15:04:05.000Z0700"
		fallthrough
	case "rfc3339", "rfc3339nano", "layout":
		if enc == "rfc3339" {
			layout = time.RFC3339
		} else if enc == "rfc3339nano" {
			layout = time.RFC3339Nano
		}
		want := uni(t.Format(layout))
		if got.kind != "str" || got.s != want {
			return bad("time %v with layout %q: want %q got %s %q", t, layout, want, got.kind, got.s)
		}
		if enc == "rfc3339nano" && t.Year() >= 0 && t.Year() <= 9999 {
			_, off := t.Zone()
			if off%60 == 0 { // RFC 3339 cannot carry second-granular offsets
				back, err := time.Parse(time.RFC3339Nano, got.s)
				if err != nil || !back.Equal(t) {
					return bad("time %v: RFC3339Nano text %q does not parse back to the same instant (%v, %v)", t, got.s, back, err)
				}
			}
		}
	default:
		return bad("internal: time encoder %q", enc)
	}
	return ""
}

func renderX(n *xnode) string {
	if n == nil {
		return "<nil>"
	}
	switch n.kind {
	case "obj":
		var ps []string
		for _, k := range n.kids {
			ps = append(ps, strconv.Quote(k.k)+":"+renderX(k.v))
		}
		return "{" + strings.Join(ps, ",") + "}"
	case "arr":
		var ps []string
		for _, e := range n.els {
			ps = append(ps, renderX(e))
		}
		return "[" + strings.Join(ps, ",") + "]"
	case "str":
		return strconv.Quote(clipS(n.s))
	case "null":
		return "null"
	case "f64", "f32":
		return fmt.Sprintf("%s(%v)", n.kind, n.f)
	case "time":
		return "time(" + n.t.Format(time.RFC3339Nano) + ")"
	case "dur":
		return fmt.Sprintf("dur(%d)", int64(n.d))
	case "c128", "c64":
		return fmt.Sprintf("%s(%v)", n.kind, n.c)
	case "raw":
		return "raw(" + clipS(n.s) + ")"
	case "anystr":
		return "<any string>"
	}
	return n.s
}

var _ = base64.StdEncoding
