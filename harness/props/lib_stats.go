package props

// Evidence counters. rapid v1.3.0 has no classify/label hook, so every
// property calls statCase(...) at the end of each executed case and the
// collector is flushed to $VERIF_STATS_FILE when the test process ends.

import (
	"encoding/json"
	"fmt"
	"hash/fnv"
	"os"
	"sort"
	"sync"
)

const (
	maxSigs        = 400000
	maxSamples     = 6
	maxSampleBytes = 700
)

type propStats struct {
	Evaluations int64            `json:"evaluations"`
	Nontrivial  int64            `json:"nontrivial"`
	Sigs        map[uint64]bool  `json:"-"`
	SigList     []string         `json:"sigs"`
	SigsCapped  bool             `json:"sigs_capped"`
	Labels      map[string]int64 `json:"labels"`
	Samples     []string         `json:"samples"`
	Excluded    map[string]int64 `json:"excluded_known"`
}

var (
	statsMu  sync.Mutex
	statsAll = map[string]*propStats{}
)

func statsFor(id string) *propStats {
	p := statsAll[id]
	if p == nil {
		p = &propStats{Sigs: map[uint64]bool{}, Labels: map[string]int64{}, Excluded: map[string]int64{}}
		statsAll[id] = p
	}
	return p
}

func hash64(s string) uint64 {
	h := fnv.New64a()
	h.Write([]byte(s))
	return h.Sum64()
}

// statCase records one executed case of property id. nontrivial is the result
// of the property's stated non-triviality rule; sig is the shape signature
// used to count distinct non-trivial cases; labels feed the class histogram.
func statCase(id string, nontrivial bool, sig string, labels ...string) {
	statsMu.Lock()
	defer statsMu.Unlock()
	p := statsFor(id)
	p.Evaluations++
	if nontrivial {
		p.Nontrivial++
		if len(p.Sigs) < maxSigs {
			p.Sigs[hash64(sig)] = true
		} else {
			p.SigsCapped = true
		}
	}
	for _, l := range labels {
		p.Labels[l]++
	}
}

// statLabel bumps a label without counting a case.
func statLabel(id string, label string, n int64) {
	statsMu.Lock()
	defer statsMu.Unlock()
	statsFor(id).Labels[label] += n
}

// statExcluded counts cases (or assertions) excluded because of a known finding.
func statExcluded(id string, key string) {
	statsMu.Lock()
	defer statsMu.Unlock()
	statsFor(id).Excluded[key]++
}

// statSample stores a rendered case (a few per process; later ones replace
// earlier ones sparsely so that samples are not only the very first cases).
func statSample(id string, render func() string) {
	statsMu.Lock()
	defer statsMu.Unlock()
	p := statsFor(id)
	n := p.Nontrivial
	take := len(p.Samples) < maxSamples || (n&(n-1)) == 0 // powers of two
	if !take {
		return
	}
	s := render()
	if len(s) > maxSampleBytes {
		s = s[:maxSampleBytes] + fmt.Sprintf("…(+%d bytes)", len(s)-maxSampleBytes)
	}
	if len(p.Samples) < maxSamples {
		p.Samples = append(p.Samples, s)
	} else {
		p.Samples[int(n)%maxSamples] = s
	}
}

func statsFlush() {
	path := os.Getenv("VERIF_STATS_FILE")
	if path == "" {
		return
	}
	statsMu.Lock()
	defer statsMu.Unlock()
	for _, p := range statsAll {
		p.SigList = p.SigList[:0]
		for h := range p.Sigs {
			p.SigList = append(p.SigList, fmt.Sprintf("%x", h))
		}
		sort.Strings(p.SigList)
	}
	b, err := json.Marshal(statsAll)
	if err != nil {
		fmt.Fprintln(os.Stderr, "stats marshal:", err)
		return
	}
	tmp := path + ".tmp"
	if err := os.WriteFile(tmp, b, 0o644); err == nil {
		os.Rename(tmp, path)
	}
}
