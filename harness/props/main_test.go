package props

import (
	"os"
	"testing"
	"time"
)

// childModes are entry points run instead of the tests when the test binary
// re-executes itself (real os.Exit / panic / SIGKILL observations for C06, C12).
var childModes = map[string]func(){}

func TestMain(m *testing.M) {
	if mode := os.Getenv("VERIF_CHILD"); mode != "" {
		if fn := childModes[mode]; fn != nil {
			// a child must never outlive its parent's patience: hard watchdog
			time.AfterFunc(20*time.Second, func() { os.Exit(98) })
			fn()
			os.Exit(0)
		}
		os.Stderr.WriteString("unknown VERIF_CHILD mode " + mode + "\n")
		os.Exit(97)
	}
	code := m.Run()
	statsFlush()
	os.Exit(code)
}
