package props

// C15 — caller and stack annotations identify the user's call site.

import (
	"context"
	"fmt"
	"log"
	"log/slog"
	"runtime"
	"strings"
	"testing"
	"time"

	"go.uber.org/zap"
	"go.uber.org/zap/exp/zapslog"
	"go.uber.org/zap/zapcore"
	"go.uber.org/zap/zaptest/observer"
	"pgregory.net/rapid"
)

type c15Site struct {
	file  string
	line  int
	fn    string
	stack []string
}

// here captures, independently of zap (runtime.Callers + CallersFrames), the
// frame `skip` levels above its caller and the whole chain from there outwards.
//
//go:noinline
func here(skip int) c15Site {
	pcs := make([]uintptr, 4096)
	n := runtime.Callers(2+skip, pcs)
	frames := runtime.CallersFrames(pcs[:n])
	var s c15Site
	first := true
	var all []string
	for {
		f, more := frames.Next()
		if first {
			s.file, s.line, s.fn = f.File, f.Line, f.Function
			first = false
		}
		all = append(all, fmt.Sprintf("%s\n\t%s:%d", f.Function, f.File, f.Line))
		if !more {
			break
		}
	}
	s.stack = all[:len(all)-1] // the final runtime frame is dropped
	return s
}

type c15Fn func() c15Site // performs the log call and returns the expected site (captured on the same line)

//go:noinline
func c15Wrap(depth int, f c15Fn) c15Site {
	if depth == 0 {
		return f()
	}
	return c15Wrap(depth-1, f)
}

// c15Inl: small wrapper functions the compiler is free to inline (mid-stack inlining): the frames are then
// logical ones, which runtime.CallersFrames expands and a PC-to-function lookup would not.
func c15I1(f c15Fn) c15Site { return f() }
func c15I2(f c15Fn) c15Site { return c15I1(f) }
func c15I3(f c15Fn) c15Site { return c15I2(f) }
func c15I4(f c15Fn) c15Site { return c15I3(f) }

func c15WrapInlinable(depth int, f c15Fn) c15Site {
	switch depth {
	case 0:
		return f()
	case 1:
		return c15I1(f)
	case 2:
		return c15I2(f)
	case 3:
		return c15I3(f)
	}
	return c15I4(f)
}

//go:noinline
func c15Deep(n int, f func() c15Site) c15Site {
	if n == 0 {
		return f()
	}
	return c15Deep(n-1, f)
}

// hereSlog: what the slog handler must report for a call made on the same line - the CALLER is the call site slog
// recorded (skip 0), the STACK starts `skip` frames further out (zapslog.WithCallerSkip).
//
//go:noinline
func hereSlog(skip int) c15Site {
	pcs := make([]uintptr, 4096)
	n := runtime.Callers(2, pcs)
	frames := runtime.CallersFrames(pcs[:n])
	var s c15Site
	var all []string
	for i := 0; ; i++ {
		f, more := frames.Next()
		if i == 0 {
			s.file, s.line, s.fn = f.File, f.Line, f.Function
		}
		if i >= skip {
			all = append(all, fmt.Sprintf("%s\n\t%s:%d", f.Function, f.File, f.Line))
		}
		if !more {
			break
		}
	}
	s.stack = all[:len(all)-1]
	return s
}

// c15WhilePanicking runs f from a deferred function while a panic raised by this function is unwinding.
//
//go:noinline
func c15WhilePanicking(f func() c15Site) (s c15Site) {
	defer func() { _ = recover() }()
	defer func() { s = f() }()
	panic("unwinding")
}

type c15Front struct {
	name string
	lvl  zapcore.Level
	f    c15Fn
}

// c15LoggerFronts: every Logger front end. k is the caller skip the logger was
// configured with (the call is made below k wrapper frames).
func c15LoggerFronts(l *zap.Logger, k int, lvl zapcore.Level) []c15Front {
	fs := []c15Front{
		{"Logger.Log", lvl, func() c15Site { x := here(k); l.Log(lvl, "m"); return x }},
		{"Logger.Check+Write", lvl, func() c15Site { x := here(k); ce := l.Check(lvl, "m"); ce.Write(); return x }},
		{"Logger.Debug", zapcore.DebugLevel, func() c15Site { x := here(k); l.Debug("m"); return x }},
		{"Logger.Info", zapcore.InfoLevel, func() c15Site { x := here(k); l.Info("m"); return x }},
		{"Logger.Warn", zapcore.WarnLevel, func() c15Site { x := here(k); l.Warn("m"); return x }},
		{"Logger.Error", zapcore.ErrorLevel, func() c15Site { x := here(k); l.Error("m"); return x }},
		{"Logger.DPanic", zapcore.DPanicLevel, func() c15Site { x := here(k); l.DPanic("m"); return x }},
		{"Logger.Panic", zapcore.PanicLevel, func() c15Site { x := here(k); l.Panic("m"); return x }},
		{"Logger.Fatal", zapcore.FatalLevel, func() c15Site { x := here(k); l.Fatal("m"); return x }},
	}
	std := zap.NewStdLog(l)
	fs = append(fs,
		c15Front{"NewStdLog.Print", zapcore.InfoLevel, func() c15Site { x := here(k); std.Print("m"); return x }},
		c15Front{"NewStdLog.Printf", zapcore.InfoLevel, func() c15Site { x := here(k); std.Printf("%s", "m"); return x }},
		c15Front{"NewStdLog.Println", zapcore.InfoLevel, func() c15Site { x := here(k); std.Println("m"); return x }},
		c15Front{"NewStdLog.Output", zapcore.InfoLevel, func() c15Site { x := here(k); _ = std.Output(1, "m"); return x }},
	)
	if lvl >= zapcore.DebugLevel && lvl <= zapcore.FatalLevel {
		if stdAt, err := zap.NewStdLogAt(l, lvl); err == nil {
			fs = append(fs, c15Front{"NewStdLogAt.Print", lvl, func() c15Site { x := here(k); stdAt.Print("m"); return x }})
		}
	}
	fs = append(fs,
		c15Front{"RedirectStdLog+log.Print", zapcore.InfoLevel, func() c15Site { defer zap.RedirectStdLog(l)(); x := here(k); log.Print("m"); return x }},
		c15Front{"RedirectStdLog+log.Printf", zapcore.InfoLevel, func() c15Site { defer zap.RedirectStdLog(l)(); x := here(k); log.Printf("%s", "m"); return x }},
		c15Front{"ReplaceGlobals+L", lvl, func() c15Site { defer zap.ReplaceGlobals(l)(); x := here(k); zap.L().Log(lvl, "m"); return x }},
		c15Front{"ReplaceGlobals+S", lvl, func() c15Site { defer zap.ReplaceGlobals(l)(); x := here(k); zap.S().Logw(lvl, "m"); return x }},
	)
	return fs
}

func c15SugarFronts(s *zap.SugaredLogger, k int, lvl zapcore.Level) []c15Front {
	D, I, W, E, DP, P, F := zapcore.DebugLevel, zapcore.InfoLevel, zapcore.WarnLevel, zapcore.ErrorLevel, zapcore.DPanicLevel, zapcore.PanicLevel, zapcore.FatalLevel
	return []c15Front{
		{"Sugar.Log", lvl, func() c15Site { x := here(k); s.Log(lvl, "m", 1); return x }},
		{"Sugar.Logf", lvl, func() c15Site { x := here(k); s.Logf(lvl, "m %d", 1); return x }},
		{"Sugar.Logw", lvl, func() c15Site { x := here(k); s.Logw(lvl, "m", "a", 1); return x }},
		{"Sugar.Logln", lvl, func() c15Site { x := here(k); s.Logln(lvl, "m", 1); return x }},
		{"Sugar.Debug", D, func() c15Site { x := here(k); s.Debug("m"); return x }},
		{"Sugar.Info", I, func() c15Site { x := here(k); s.Info("m"); return x }},
		{"Sugar.Warn", W, func() c15Site { x := here(k); s.Warn("m"); return x }},
		{"Sugar.Error", E, func() c15Site { x := here(k); s.Error("m"); return x }},
		{"Sugar.DPanic", DP, func() c15Site { x := here(k); s.DPanic("m"); return x }},
		{"Sugar.Panic", P, func() c15Site { x := here(k); s.Panic("m"); return x }},
		{"Sugar.Fatal", F, func() c15Site { x := here(k); s.Fatal("m"); return x }},
		{"Sugar.Debugf", D, func() c15Site { x := here(k); s.Debugf("m%d", 1); return x }},
		{"Sugar.Infof", I, func() c15Site { x := here(k); s.Infof("m%d", 1); return x }},
		{"Sugar.Warnf", W, func() c15Site { x := here(k); s.Warnf("m%d", 1); return x }},
		{"Sugar.Errorf", E, func() c15Site { x := here(k); s.Errorf("m%d", 1); return x }},
		{"Sugar.DPanicf", DP, func() c15Site { x := here(k); s.DPanicf("m%d", 1); return x }},
		{"Sugar.Panicf", P, func() c15Site { x := here(k); s.Panicf("m%d", 1); return x }},
		{"Sugar.Fatalf", F, func() c15Site { x := here(k); s.Fatalf("m%d", 1); return x }},
		{"Sugar.Debugw", D, func() c15Site { x := here(k); s.Debugw("m", "a", 1); return x }},
		{"Sugar.Infow", I, func() c15Site { x := here(k); s.Infow("m", "a", 1); return x }},
		{"Sugar.Warnw", W, func() c15Site { x := here(k); s.Warnw("m", "a", 1); return x }},
		{"Sugar.Errorw", E, func() c15Site { x := here(k); s.Errorw("m", "a", 1); return x }},
		{"Sugar.DPanicw", DP, func() c15Site { x := here(k); s.DPanicw("m", "a", 1); return x }},
		{"Sugar.Panicw", P, func() c15Site { x := here(k); s.Panicw("m", "a", 1); return x }},
		{"Sugar.Fatalw", F, func() c15Site { x := here(k); s.Fatalw("m", "a", 1); return x }},
		{"Sugar.Debugln", D, func() c15Site { x := here(k); s.Debugln("m", 1); return x }},
		{"Sugar.Infoln", I, func() c15Site { x := here(k); s.Infoln("m", 1); return x }},
		{"Sugar.Warnln", W, func() c15Site { x := here(k); s.Warnln("m", 1); return x }},
		{"Sugar.Errorln", E, func() c15Site { x := here(k); s.Errorln("m", 1); return x }},
		{"Sugar.DPanicln", DP, func() c15Site { x := here(k); s.DPanicln("m", 1); return x }},
		{"Sugar.Panicln", P, func() c15Site { x := here(k); s.Panicln("m", 1); return x }},
		{"Sugar.Fatalln", F, func() c15Site { x := here(k); s.Fatalln("m", 1); return x }},
		// a dangling key makes the sugared logger log a diagnostic first; the main entry is still the last one
		{"Sugar.Infow(dangling)", I, func() c15Site { x := here(k); s.Infow("m", "dangling"); return x }},
	}
}

// c15SlogHelper is a logging helper in the style slog documents for wrappers:
// it records the PC of its caller and calls the handler directly.
//
//go:noinline
func c15SlogHelper(h slog.Handler, lvl slog.Level) {
	var pcs [1]uintptr
	runtime.Callers(2, pcs[:]) // skip Callers and this helper
	r := slog.NewRecord(time.Unix(0, 0), lvl, "m", pcs[0])
	r.AddAttrs(slog.Int("a", 1))
	_ = h.Handle(context.Background(), r)
}

// c15SlogHelper2 nests one more helper frame.
//
//go:noinline
func c15SlogHelper2(h slog.Handler, lvl slog.Level) {
	var pcs [1]uintptr
	runtime.Callers(2, pcs[:])
	func() {
		r := slog.NewRecord(time.Unix(0, 0), lvl, "m", pcs[0])
		_ = h.Handle(context.Background(), r)
	}()
}

func propC15(t *rapid.T) {
	core, logs := observer.New(zapcore.Level(-128))
	stackAtomic := zap.NewAtomicLevelAt(zapcore.Level(rapid.IntRange(-1, 6).Draw(t, "stackAt")))
	stackSet := genC05Enab(t, []*zap.AtomicLevel{&stackAtomic})
	term := new(int64)
	skip := rapid.IntRange(0, 4).Draw(t, "callerSkip")
	skipEarly := rapid.IntRange(0, skip).Draw(t, "skipAppliedBeforeConversions")
	// stack traces do not depend on the caller annotation being switched on
	callerOn := rapid.IntRange(0, 5).Draw(t, "callerAnnotation") != 0
	// a stateful enabler (a stack-trace sampler): its answer alternates from one consultation to the next. Whether a
	// given entry then gets a trace is its business - but a trace that IS attached must be the complete, correct one.
	flipflop := rapid.IntRange(0, 7).Draw(t, "statefulStackEnabler") == 0
	var stackEnab zapcore.LevelEnabler = stackSet.enabler()
	if flipflop {
		state := rapid.Bool().Draw(t, "firstAnswer")
		stackEnab = zap.LevelEnablerFunc(func(zapcore.Level) bool { state = !state; return !state })
	}
	base := zap.New(core, zap.WithCaller(callerOn), zap.AddStacktrace(stackEnab), zap.WithPanicHook(countHook{term}), zap.WithFatalHook(countHook{term}), zap.AddCallerSkip(skipEarly))
	// the equivalent route through a configuration: Config.Build decides about caller annotation and stack traces
	// from DisableCaller / DisableStacktrace / Development alone - not from which keys the encoder happens to print
	// (hooks, wrapped cores and custom encoders see Entry.Caller and Entry.Stack whatever the key names are)
	buildRoute := rapid.SampledFrom([]string{"New", "New", "Config(production)", "Config(development)"}).Draw(t, "constructor")
	if buildRoute != "New" && !flipflop {
		cfg := zap.NewProductionConfig()
		at := zapcore.ErrorLevel
		if buildRoute == "Config(development)" {
			cfg = zap.NewDevelopmentConfig()
			at = zapcore.WarnLevel
		}
		cfg.Level = zap.NewAtomicLevelAt(zapcore.DebugLevel)
		cfg.DisableCaller = !callerOn
		if rapid.Bool().Draw(t, "encoderOmitsAnnotationKeys") {
			cfg.EncoderConfig.CallerKey, cfg.EncoderConfig.FunctionKey, cfg.EncoderConfig.StacktraceKey = zapcore.OmitKey, zapcore.OmitKey, zapcore.OmitKey
		}
		b, err := cfg.Build(zap.WrapCore(func(zapcore.Core) zapcore.Core { return core }), zap.WithPanicHook(countHook{term}), zap.WithFatalHook(countHook{term}), zap.AddCallerSkip(skipEarly))
		if err != nil {
			t.Fatalf("VERIF-INCONCLUSIVE Build: %v", err)
		}
		base = b
		stackAtomic.SetLevel(at)
		stackSet = c05Enab{al: &stackAtomic}
	} else {
		buildRoute = "New"
	}
	lg := base
	var sg *zap.SugaredLogger
	var chain []string
	conversions := 0
	nconv := rapid.IntRange(0, 6).Draw(t, "nConversions")
	for i := 0; i < nconv; i++ {
		op := rapid.SampledFrom([]string{"sugar", "desugar", "with", "lazy", "named", "opts", "sugar", "desugar"}).Draw(t, "conversion")
		chain = append(chain, op)
		switch op {
		case "sugar":
			if sg == nil {
				sg = lg.Sugar()
			} else {
				sg = sg.Desugar().Sugar()
			}
			conversions++
		case "desugar":
			if sg != nil {
				lg = sg.Desugar()
				sg = nil
				conversions++
			}
		case "with":
			if sg != nil {
				sg = sg.With("k", 1)
			} else {
				lg = lg.With(zap.Int("k", 1))
			}
		case "lazy":
			if sg != nil {
				sg = sg.WithLazy("k", 1)
			} else {
				lg = lg.WithLazy(zap.Int("k", 1))
			}
		case "named":
			if sg != nil {
				sg = sg.Named("n")
			} else {
				lg = lg.Named("n")
			}
		case "opts":
			if sg != nil {
				sg = sg.WithOptions(zap.AddCallerSkip(0), zap.Fields(zap.Int("o", 1)))
			} else {
				lg = lg.WithOptions(zap.AddCallerSkip(0), zap.Fields(zap.Int("o", 1)))
			}
		}
	}
	if buildRoute == "New" && rapid.IntRange(0, 2).Draw(t, "stackLevelChangesAfterDerivation") == 0 {
		// the stack-trace threshold is a LevelEnabler: a dynamic one is consulted at every call
		stackAtomic.SetLevel(zapcore.Level(rapid.IntRange(-1, 6).Draw(t, "newStackAt")))
	}
	depth := rapid.SampledFrom([]int{0, 1, 10, 50, 63, 64, 65, 200, 1000}).Draw(t, "recursionDepth")
	lvl := zapcore.Level(rapid.OneOf(rapid.Int8Range(-1, 5), rapid.SampledFrom([]int8{-2, 6, 7})).Draw(t, "level"))
	var fronts []c15Front
	useSlog := sg == nil && rapid.IntRange(0, 7).Draw(t, "slogFront") == 0
	slogStackAt := slog.LevelError
	if useSlog {
		slogStackAt = rapid.SampledFrom([]slog.Level{slog.LevelDebug, slog.LevelInfo, slog.LevelWarn, slog.LevelError, slog.Level(12)}).Draw(t, "slogStackAt")
		// the handler reports the call site slog recorded; WithCallerSkip moves the START OF THE STACK TRACE outwards
		// (a logging helper wrapped around slog), for the base handler and for every handler derived from it
		k := skip
		// (the options travel in a slice the caller recycles for its next handler once NewHandler has returned)
		hopts := []zapslog.HandlerOption{zapslog.WithCaller(true), zapslog.AddStacktraceAt(slogStackAt), zapslog.WithCallerSkip(k)}
		h := slog.New(zapslog.NewHandler(lg.Core(), hopts...))
		hopts[0], hopts[1], hopts[2] = zapslog.WithCaller(false), zapslog.AddStacktraceAt(slog.Level(-100)), zapslog.WithCallerSkip(k+3)
		fronts = []c15Front{
			{"slog.Info", zapcore.InfoLevel, func() c15Site { x := hereSlog(k); h.Info("m"); return x }},
			{"slog.Error", zapcore.ErrorLevel, func() c15Site { x := hereSlog(k); h.Error("m", "a", 1); return x }},
			{"slog.Log(Warn)", zapcore.WarnLevel, func() c15Site { x := hereSlog(k); h.Log(context.Background(), slog.LevelWarn, "m"); return x }},
			{"slog.DebugContext", zapcore.DebugLevel, func() c15Site { x := hereSlog(k); h.DebugContext(context.Background(), "m"); return x }},
			{"slog.With.Info", zapcore.InfoLevel, func() c15Site { x := hereSlog(k); h.With("a", 1).WithGroup("g").Info("m", "b", 2); return x }},
			{"slog.WithGroup.Error", zapcore.ErrorLevel, func() c15Site { x := hereSlog(k); h.WithGroup("g").With("a", 1).Error("m"); return x }},
			// the wrapping pattern slog documents: a helper builds the Record with ITS caller's PC and hands it to the handler
			{"slog.Wrapper(Error)", zapcore.ErrorLevel, func() c15Site { x := here(0); c15SlogHelper(h.Handler(), slog.LevelError); return x }},
			{"slog.Wrapper(Info)", zapcore.InfoLevel, func() c15Site { x := here(0); c15SlogHelper(h.Handler(), slog.LevelInfo); return x }},
			{"slog.Wrapper2(Warn)", zapcore.WarnLevel, func() c15Site { x := here(0); c15SlogHelper2(h.Handler(), slog.LevelWarn); return x }},
		}
	} else {
		// the remaining skip is added in one step, or (wrappers composed the other way round) a skip is first TAKEN
		// BACK and then re-added with the rest: caller skips are plain arithmetic, the sum is what counts
		rest := []zap.Option{zap.AddCallerSkip(skip - skipEarly)}
		if back := rapid.IntRange(0, 3).Draw(t, "skipTakenBackFirst"); back > 0 {
			rest = []zap.Option{zap.AddCallerSkip(-(skipEarly + back)), zap.AddCallerSkip(skip + back)}
			if rapid.Bool().Draw(t, "separateWithOptionsCalls") {
				if sg != nil {
					sg, rest = sg.WithOptions(rest[0]), rest[1:]
				} else {
					lg, rest = lg.WithOptions(rest[0]), rest[1:]
				}
			}
		}
		if sg != nil {
			fronts = c15SugarFronts(sg.WithOptions(rest...), skip, lvl)
		} else {
			fronts = c15LoggerFronts(lg.WithOptions(rest...), skip, lvl)
		}
	}
	fr := fronts[rapid.IntRange(0, len(fronts)-1).Draw(t, "frontEnd")]
	if lvl < zapcore.DebugLevel || lvl > zapcore.FatalLevel {
		// only the level-parametrised front ends can carry out-of-range levels
		if !(strings.HasSuffix(fr.name, ".Log") || strings.HasSuffix(fr.name, ".Logf") || strings.HasSuffix(fr.name, ".Logw") || strings.HasSuffix(fr.name, ".Logln") || strings.HasSuffix(fr.name, "Check+Write") || strings.HasPrefix(fr.name, "ReplaceGlobals")) {
			lvl = fr.lvl
		}
	}
	if depth >= 50 && rapid.IntRange(0, 9).Draw(t, "freshPools") == 0 {
		// empty the pools: the stack capture starts from a freshly allocated (not yet grown) pooled object
		runtime.GC()
		runtime.GC()
	}
	wrapFn := c15Wrap
	if skip <= 4 && rapid.Bool().Draw(t, "inlinableWrappers") {
		wrapFn = c15WrapInlinable
	}
	call := func() c15Site { return wrapFn(skip, fr.f) }
	duringPanic := rapid.IntRange(0, 3).Draw(t, "duringPanic") == 0
	if duringPanic {
		// the call is made by a deferred function while a panic is unwinding (what recovery middleware does): the
		// chain then has runtime frames in its MIDDLE, and the panicking function and its callers beyond them
		inner := call
		call = func() c15Site { return c15WhilePanicking(inner) }
	}
	want := c15Deep(depth, call)
	all := logs.All()
	desc := fmt.Sprintf("front %s level %d skip %d depth %d chain %v", fr.name, fr.lvl, skip, depth, chain)
	if len(all) == 0 {
		t.Fatalf("nothing logged: %s", desc)
	}
	e := all[len(all)-1]
	if e.Message == "" || e.Message[0] != 'm' {
		t.Fatalf("unexpected last entry %q: %s", e.Message, desc)
	}
	if e.Level != fr.lvl {
		t.Fatalf("entry level %d want %d: %s", e.Level, fr.lvl, desc)
	}
	if !callerOn && !useSlog {
		// nothing is claimed about the caller column; the stack clause below still applies
	} else if !e.Caller.Defined || e.Caller.File != want.file || e.Caller.Line != want.line || e.Caller.Function != want.fn {
		t.Fatalf("caller annotation %s:%d (%s), the user's call site is %s:%d (%s)\n%s", e.Caller.File, e.Caller.Line, e.Caller.Function, want.file, want.line, want.fn, desc)
	}
	wantStack := stackSet.on(fr.lvl)
	if useSlog {
		wantStack = map[zapcore.Level]slog.Level{zapcore.DebugLevel: slog.LevelDebug, zapcore.InfoLevel: slog.LevelInfo, zapcore.WarnLevel: slog.LevelWarn, zapcore.ErrorLevel: slog.LevelError}[fr.lvl] >= slogStackAt
	}
	wrapperFront := strings.HasPrefix(fr.name, "slog.Wrapper")
	if flipflop && !useSlog {
		wantStack = e.Stack != "" // presence is the enabler's business; content is checked below
	}
	if (e.Stack != "") != wantStack {
		t.Fatalf("stack trace present=%v, configured for this level: %v\n%s", e.Stack != "", wantStack, desc)
	}
	if wantStack && !wrapperFront { // (for hand-built records only the recorded call site is claimed, not where the trace starts)
		ws := strings.Join(want.stack, "\n")
		if e.Stack != ws {
			gl, wl := strings.Split(e.Stack, "\n"), strings.Split(ws, "\n")
			i := 0
			for i < len(gl) && i < len(wl) && gl[i] == wl[i] {
				i++
			}
			g, w := "<end>", "<end>"
			if i < len(gl) {
				g = gl[i]
			}
			if i < len(wl) {
				w = wl[i]
			}
			t.Fatalf("stack trace differs from the real call chain at line %d (%d vs %d lines): got %q want %q\n%s", i, len(gl), len(wl), g, w, desc)
		}
	}
	nt := (conversions >= 1 && skip >= 1) || (depth >= 64 && wantStack)
	var labels []string
	labels = append(labels, "front "+fr.name)
	if duringPanic && wantStack {
		labels = append(labels, "stack trace taken while a panic is unwinding")
	}
	if !callerOn && wantStack {
		labels = append(labels, "stack trace without caller annotation")
	}
	if depth >= 64 && wantStack {
		labels = append(labels, "stack deeper than pooled storage")
	}
	if conversions >= 1 && skip >= 1 {
		labels = append(labels, "sugar/desugar conversion with caller skip")
	}
	statCase("C15", nt, fmt.Sprintf("%s|skip%d|depth%d|conv%d|stack%v|%s", fr.name, skip, depth, conversions, wantStack, strings.Join(chain, "")), labels...)
	if nt {
		statSample("C15", func() string {
			return desc + fmt.Sprintf(" => caller %s:%d stack lines %d", e.Caller.File, e.Caller.Line, strings.Count(e.Stack, "\n")+1)
		})
	}
}

func TestC15Caller(t *testing.T) { rapid.Check(t, propC15) }

// Deterministic sweep: every front end at skip 0..2 and depth {0, 100}.
func TestC15Sweep(t *testing.T) {
	c15DiagnosticCallers(t)
	n := 0
	for _, sugar := range []bool{false, true} {
		for skip := 0; skip <= 2; skip++ {
			for _, depth := range []int{0, 100} {
				core, logs := observer.New(zapcore.DebugLevel)
				term := new(int64)
				base := zap.New(core, zap.AddCaller(), zap.AddStacktrace(zapcore.WarnLevel), zap.WithPanicHook(countHook{term}), zap.WithFatalHook(countHook{term}), zap.AddCallerSkip(skip))
				var fronts []c15Front
				if sugar {
					fronts = c15SugarFronts(base.Sugar(), skip, zapcore.ErrorLevel)
				} else {
					fronts = c15LoggerFronts(base, skip, zapcore.ErrorLevel)
				}
				for _, fr := range fronts {
					logs.TakeAll()
					want := c15Deep(depth, func() c15Site { return c15Wrap(skip, fr.f) })
					all := logs.TakeAll()
					if len(all) == 0 {
						t.Fatalf("%s: nothing logged", fr.name)
					}
					e := all[len(all)-1]
					if e.Caller.File != want.file || e.Caller.Line != want.line || e.Caller.Function != want.fn {
						t.Fatalf("%s skip %d depth %d: caller %s:%d want %s:%d", fr.name, skip, depth, e.Caller.File, e.Caller.Line, want.file, want.line)
					}
					if fr.lvl >= zapcore.WarnLevel && e.Stack != strings.Join(want.stack, "\n") {
						t.Fatalf("%s skip %d depth %d: stack differs", fr.name, skip, depth)
					}
					if fr.lvl < zapcore.WarnLevel && e.Stack != "" {
						t.Fatalf("%s: unexpected stack", fr.name)
					}
					n++
					statCase("C15", skip > 0 || depth > 64, fmt.Sprintf("sweep|%s|%d|%d", fr.name, skip, depth), "sweep")
				}
			}
		}
	}
	t.Logf("swept %d front-end/skip/depth combinations", n)
}
