package props

import (
	"fmt"
	"reflect"
	"runtime"
	"strings"
	"testing"

	"go.uber.org/zap"
	"go.uber.org/zap/zapcore"
	"go.uber.org/zap/zaptest/observer"
	"pgregory.net/rapid"
)

// propC15ManySites: a long-lived process logs from hundreds of DISTINCT call sites, again and again in changing orders
// (c15sites_test.go holds 300 one-line functions): every entry names the file, line and function of the call that
// produced it - the three hundredth site like the first, the fifth visit like the first visit.
func propC15ManySites(t *rapid.T) {
	core, logs := observer.New(zapcore.DebugLevel)
	skipWrap := rapid.IntRange(0, 2).Draw(t, "wrapperDepth")
	lg := zap.New(core, zap.AddCaller(), zap.AddCallerSkip(skipWrap))
	var sg *zap.SugaredLogger
	if rapid.Bool().Draw(t, "sugared") {
		sg = lg.Sugar()
	}
	nSites := rapid.SampledFrom([]int{100, 127, 128, 129, 200, 257, 300}).Draw(t, "sites")
	rounds := rapid.IntRange(2, 5).Draw(t, "rounds")
	type site struct {
		file, fn string
		line     int
	}
	info := make([]site, nSites)
	for i := 0; i < nSites; i++ {
		pc := reflect.ValueOf(c15SitesL[i]).Pointer()
		if sg != nil {
			pc = reflect.ValueOf(c15SitesS[i]).Pointer()
		}
		f := runtime.FuncForPC(pc)
		file, line := f.FileLine(pc)
		info[i] = site{file, f.Name(), line}
	}
	// wrappers of depth 0..2 (their frames are what AddCallerSkip skips): the call site reported is the site function's
	call := func(i int) {
		if sg != nil {
			c15SitesS[i](sg)
		} else {
			c15SitesL[i](lg)
		}
	}
	if skipWrap != 0 {
		// a caller skip shifts the reported frame to the wrapper's caller, which is this function for every site:
		// only depth 0 distinguishes sites; keep the other depths as histories that warm whatever zap keeps
		for i := 0; i < nSites; i++ {
			call(i)
		}
		logs.TakeAll()
		lg = zap.New(core, zap.AddCaller())
		if sg != nil {
			sg = lg.Sugar()
		}
		skipWrap = 0
	}
	for r := 0; r < rounds; r++ {
		order := rapid.Permutation(seqInts(nSites)).Draw(t, "order")
		if r == 0 {
			order = seqInts(nSites)
		}
		for _, i := range order {
			call(i)
			es := logs.TakeAll()
			if len(es) != 1 {
				t.Fatalf("site %d: %d entries", i, len(es))
			}
			c := es[0].Caller
			if info[i].line < 7 || info[i].line > 7+600 {
				t.Fatalf("VERIF-INCONCLUSIVE site table out of step with c15sites_test.go (site %d at line %d)", i, info[i].line)
			}
			if !c.Defined || c.Line != info[i].line || c.File != info[i].file || c.Function != info[i].fn {
				t.Fatalf("round %d, call site %d of %d (%s:%d %s): the entry names %s:%d %s (defined=%v)", r+1, i, nSites, shortFile(info[i].file), info[i].line, shortFn(info[i].fn), shortFile(c.File), c.Line, shortFn(c.Function), c.Defined)
			}
		}
	}
	statCase("C15", nSites > 128, fmt.Sprintf("manysites|%d|%d|%v", nSites, rounds, sg != nil), "hundreds of distinct call sites", fmt.Sprintf("%d sites", nSites))
}

func seqInts(n int) []int {
	out := make([]int, n)
	for i := range out {
		out[i] = i
	}
	return out
}

func shortFile(f string) string { return f[strings.LastIndex(f, "/")+1:] }
func shortFn(f string) string   { return f[strings.LastIndex(f, ".")+1:] }

func TestC15ManySites(t *testing.T) { rapid.Check(t, propC15ManySites) }
