package props

import (
	"errors"
	"runtime"
	"strings"
	"testing"

	"go.uber.org/zap"
	"go.uber.org/zap/zapcore"
	"go.uber.org/zap/zaptest/observer"
)

// c15DiagnosticCallers: the entries zap itself logs about malformed sugared arguments (a dangling key, a non-string
// key, a second bare error) are annotated too when callers are on. What they name is either the place inside zap
// that reports the problem or the user's call that caused it - never a frame further up the user's stack (which has
// nothing to do with the mistake), whichever sugared method was given the arguments; and the stack trace attached to
// them starts at the frame the caller annotation names.
func c15DiagnosticCallers(t *testing.T) {
	core, logs := observer.New(zapcore.DebugLevel)
	s := zap.New(core, zap.AddCaller(), zap.AddStacktrace(zapcore.ErrorLevel)).Sugar()
	type call struct {
		name string
		f    func() int // performs the malformed call and returns its own line
	}
	line := func() int { _, _, l, _ := runtime.Caller(1); return l }
	e1, e2 := errors.New("e1"), errors.New("e2")
	calls := []call{
		{"Infow dangling", func() int { s.Infow("m", "dangling"); return line() }},
		{"Infow non-string key", func() int { s.Infow("m", 42, "v"); return line() }},
		{"Infow two errors", func() int { s.Infow("m", e1, e2); return line() }},
		{"With dangling", func() int { s.With("dangling").Info("m"); return line() }},
		{"With non-string key", func() int { s.With(42, "v").Info("m"); return line() }},
		{"With two errors", func() int { s.With(e1, e2).Info("m"); return line() }},
		{"WithLazy dangling", func() int { s.WithLazy("dangling").Info("m"); return line() }},
		{"Logw dangling", func() int { s.Logw(zapcore.InfoLevel, "m", "dangling"); return line() }},
		{"Errorw non-string key", func() int { s.Errorw("m", 42, "v"); return line() }},
	}
	_, thisFile, _, _ := runtime.Caller(0)
	for _, c := range calls {
		logs.TakeAll()
		userLine := c.f()
		var diags []observer.LoggedEntry
		for _, e := range logs.TakeAll() {
			if e.Message != "m" {
				diags = append(diags, e)
			}
		}
		if len(diags) == 0 {
			t.Fatalf("%s: no diagnostic entry", c.name)
		}
		for _, d := range diags {
			insideZap := strings.HasSuffix(d.Caller.File, "/zap/sugar.go") || strings.HasSuffix(d.Caller.File, "/zap/logger.go") || strings.Contains(d.Caller.File, "/repo/") || strings.Contains(d.Caller.Function, "go.uber.org/zap.")
			atUser := d.Caller.File == thisFile && d.Caller.Line == userLine
			if !d.Caller.Defined || !(insideZap || atUser) {
				t.Fatalf("%s: the diagnostic %q is annotated with %s:%d (%s); the malformed call is at %s:%d", c.name, d.Message, d.Caller.File, d.Caller.Line, d.Caller.Function, thisFile, userLine)
			}
			if d.Stack == "" {
				t.Fatalf("%s: the Error-level diagnostic has no stack trace although traces are on from Error", c.name)
			}
			first := strings.SplitN(d.Stack, "\n", 2)[0]
			if first != d.Caller.Function {
				t.Fatalf("%s: the diagnostic's stack trace starts at %s, its caller annotation names %s", c.name, first, d.Caller.Function)
			}
		}
	}
	statCase("C15", true, "diagnostics", "annotation of zap's own diagnostics")
}
