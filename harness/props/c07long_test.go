package props

import (
	"bytes"
	"encoding/json"
	"fmt"
	"testing"

	"go.uber.org/zap"
	"go.uber.org/zap/zapcore"
	"go.uber.org/zap/zaptest/observer"
	"pgregory.net/rapid"
)

// propC07LongChain: a logger re-derived from itself hundreds of times (l = l.With(f), the way request-scoped loggers
// grow in long pipelines), through With, WithLazy, Named("") and Sugar round trips, over an observer core, a JSON core
// and a tee of both: at checkpoints along the chain the entry carries exactly the fields added so far, in order, and
// earlier members of the chain still carry exactly theirs.
func propC07LongChain(t *rapid.T) {
	obsCore, logs := observer.New(zapcore.DebugLevel)
	sink := &memSink{}
	jsonCore := zapcore.NewCore(zapcore.NewJSONEncoder(zapcore.EncoderConfig{MessageKey: "m"}), sink, zapcore.DebugLevel)
	var core zapcore.Core
	kind := rapid.SampledFrom([]string{"observer", "json", "tee"}).Draw(t, "core")
	switch kind {
	case "observer":
		core = obsCore
	case "json":
		core = jsonCore
	default:
		core = zapcore.NewTee(obsCore, jsonCore)
	}
	length := rapid.SampledFrom([]int{20, 63, 64, 65, 66, 130, 300, 700}).Draw(t, "chainLength")
	valueLen := rapid.SampledFrom([]int{1, 1, 8, 40}).Draw(t, "valueLength")
	route := rapid.SampledFrom([]string{"with", "with", "lazy", "mixed", "sugar"}).Draw(t, "route")
	lg := zap.New(core)
	type member struct {
		lg *zap.Logger
		n  int
	}
	var kept []member
	val := func(i int) string { return fmt.Sprintf("%0*d", valueLen, i) }
	check := func(m member, when string) {
		logs.TakeAll()
		w0 := len(sink.writes)
		m.lg.Info("checkpoint")
		if kind != "json" {
			es := logs.TakeAll()
			if len(es) != 1 || len(es[0].Context) != m.n {
				t.Fatalf("%s: member %d of the chain (%s, %s): observer saw %d entries, the first with %d context fields", when, m.n, kind, route, len(es), len(es[0].Context))
			}
			for i, f := range es[0].Context {
				if f.Key != fmt.Sprintf("k%d", i) || f.String != val(i) {
					t.Fatalf("%s: member %d of the chain (%s, %s): context field %d is %s=%q, want k%d=%q (exactly the fields of the derivation path, in order)", when, m.n, kind, route, i, f.Key, f.String, i, val(i))
				}
			}
		}
		if kind != "observer" {
			ws := sink.writes[w0:]
			if len(ws) != 1 {
				t.Fatalf("%s: %d lines for one entry", when, len(ws))
			}
			dec := json.NewDecoder(bytes.NewReader(ws[0]))
			if tok, err := dec.Token(); err != nil || tok != json.Delim('{') {
				t.Fatalf("%s: line is not an object: %q", when, clipS(string(ws[0])))
			}
			for i := -1; i < m.n; i++ {
				k, err1 := dec.Token()
				v, err2 := dec.Token()
				wantK, wantV := "m", "checkpoint"
				if i >= 0 {
					wantK, wantV = fmt.Sprintf("k%d", i), val(i)
				}
				if err1 != nil || err2 != nil || k != wantK || v != wantV {
					t.Fatalf("%s: member %d of the chain (%s, %s): JSON member %d is %v=%v (%v %v), want %s=%q\nline: %q", when, m.n, kind, route, i+1, k, v, err1, err2, wantK, wantV, clipS(string(ws[0])))
				}
			}
			if tok, err := dec.Token(); err != nil || tok != json.Delim('}') {
				t.Fatalf("%s: member %d: extra content after the expected members: %v %v", when, m.n, tok, err)
			}
		}
	}
	for i := 0; i < length; i++ {
		f := zap.String(fmt.Sprintf("k%d", i), val(i))
		switch {
		case route == "lazy", route == "mixed" && i%3 == 1:
			lg = lg.WithLazy(f)
		case route == "sugar", route == "mixed" && i%3 == 2:
			lg = lg.Sugar().With(f).Desugar()
		default:
			lg = lg.With(f)
		}
		if n := i + 1; n == 1 || n == 63 || n == 64 || n == 65 || n == 66 || n%97 == 0 || n == length {
			m := member{lg, n}
			kept = append(kept, m)
			check(m, fmt.Sprintf("after derivation %d", n))
		}
	}
	for _, m := range kept {
		check(m, "at the end")
	}
	statCase("C07", length > 64, fmt.Sprintf("longchain|%s|%s|%d|%d", kind, route, length, valueLen), "long derivation chain", fmt.Sprintf("chain of %d", length))
}

func TestC07LongChain(t *testing.T) { rapid.Check(t, propC07LongChain) }
