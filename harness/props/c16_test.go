package props

// C16 — console encoder lines have the documented shape with a valid JSON context.

import (
	"bytes"
	"fmt"
	"strings"
	"testing"
	"time"

	"go.uber.org/zap"
	"go.uber.org/zap/zapcore"
	"pgregory.net/rapid"
)

// refTimeText: what the configured time encoder prints in a console column
// ("" , false = column omitted).
func (cs *cfgSpec) refTimeColumn(t time.Time) (string, bool) {
	switch cs.timeEnc {
	case "nil", "nop":
		return "", false
	case "epoch":
		return fmt.Sprint(float64(t.UnixNano()) / 1e9), true
	case "millis":
		return fmt.Sprint(float64(t.UnixNano()) / 1e6), true
	case "nanos":
		return fmt.Sprint(t.UnixNano()), true
	case "iso8601":
		return t.Format("2006-01-02T15:04:05.000Z0700"), true
	case "rfc3339":
		return t.Format(time.RFC3339), true
	case "rfc3339nano":
		return t.Format(time.RFC3339Nano), true
	case "layout":
		return t.Format(cs.layout), true
	}
	panic("timeEnc " + cs.timeEnc)
}

// consoleColumns computes the metadata columns (time, level, name, caller,
// function) independently from the documentation.
func (cs *cfgSpec) consoleColumns(ent zapcore.Entry) (cols []string, present [6]bool) {
	c := cs.cfg
	if c.TimeKey != "" && !ent.Time.IsZero() {
		if txt, ok := cs.refTimeColumn(ent.Time); ok {
			cols = append(cols, txt)
			present[0] = true
		}
	}
	if c.LevelKey != "" {
		if txt, ok := cs.refLevelText(ent.Level, false); ok {
			cols = append(cols, txt)
			present[1] = true
		}
	}
	if c.NameKey != "" && ent.LoggerName != "" && cs.nameEnc != "nop" {
		cols = append(cols, ent.LoggerName)
		present[2] = true
	}
	if ent.Caller.Defined {
		if c.CallerKey != "" {
			if txt, ok := cs.refCallerText(ent.Caller, false); ok {
				cols = append(cols, txt)
				present[3] = true
			}
		}
		if c.FunctionKey != "" {
			cols = append(cols, ent.Caller.Function)
			present[4] = true
		}
	}
	return
}

func (c *c01Case) encodeConsole() (out []byte, err error, panicked any) {
	defer func() { panicked = recover() }()
	enc := zapcore.NewConsoleEncoder(c.cs.cfg)
	for _, round := range c.ctx {
		enc = enc.Clone()
		for _, f := range fieldsOf(round) {
			f.AddTo(enc)
		}
	}
	if c.cs.reflEnc == "html" || c.cs.reflEnc == "nohtml" {
		neighbourUsesIndentingEncoder(c.cs.cfg, false)
		neighbourUsesIndentingEncoder(c.cs.cfg, true)
	}
	// the caller's field slice belongs to the caller (a tee hands the same slice to its next core, applications
	// reuse slices): an encoder reads it and leaves it as it was
	fs := fieldsOf(c.site)
	snap := fieldsSnap(fs)
	buf, e := enc.EncodeEntry(c.ent, fs)
	if after := fieldsSnap(fs); after != snap {
		return nil, fmt.Errorf("EncodeEntry modified the caller's field slice:\n before %s\n after  %s", clipS(snap), clipS(after)), nil
	}
	if e != nil {
		return nil, e, nil
	}
	out = append([]byte(nil), buf.Bytes()...)
	buf.Free()
	return out, nil, nil
}

// encodeConsoleAfterEarlierEntries builds the same encoder as encodeConsole, lets it encode a field-less entry and an
// entry with other fields first, then the case's entry.
func (c *c01Case) encodeConsoleAfterEarlierEntries() (out []byte, why string) {
	defer func() {
		if p := recover(); p != nil {
			why = fmt.Sprintf("console EncodeEntry panicked on a used encoder: %v", p)
		}
	}()
	enc := zapcore.NewConsoleEncoder(c.cs.cfg)
	for _, round := range c.ctx {
		enc = enc.Clone()
		for _, f := range fieldsOf(round) {
			f.AddTo(enc)
		}
	}
	for _, fs := range [][]zapcore.Field{nil, {}, {zap.Int("earlier", 1), zap.Namespace("earlier-ns"), zap.Bool("b", true)}, nil} {
		buf, err := enc.EncodeEntry(zapcore.Entry{Message: "earlier entry"}, fs)
		if err != nil {
			return nil, fmt.Sprintf("earlier entry failed: %v", err)
		}
		buf.Free()
	}
	buf, err := enc.EncodeEntry(c.ent, fieldsOf(c.site))
	if err != nil {
		return nil, fmt.Sprintf("EncodeEntry on a used encoder failed: %v", err)
	}
	out = append([]byte(nil), buf.Bytes()...)
	buf.Free()
	return out, ""
}

func propC16(t *rapid.T) {
	c := genC01Case(t, cfgOpts{}, specOpts{faults: true, viaAny: true}, 2)
	cs := c.cs
	// time columns under the epoch encoders are only defined inside the int64-nanosecond range
	if (cs.timeEnc == "epoch" || cs.timeEnc == "millis" || cs.timeEnc == "nanos") && !timeInNanoRange(c.ent.Time) {
		c.ent.Time = time.Unix(0, genInt64().Draw(t, "entryNanos")).In(c.ent.Time.Location())
	}
	out, err, p := c.encodeConsole()
	if p != nil || err != nil {
		t.Fatalf("console EncodeEntry failed: panic=%v err=%v\ncase: %s", p, err, c.render())
	}
	// an encoder is used for more than one entry: an earlier entry WITHOUT call-site fields (and one with) leaves
	// the encoder - its context, the namespaces it left open - exactly as it was
	if again, why := c.encodeConsoleAfterEarlierEntries(); why != "" {
		t.Fatalf("%s\ncase: %s", why, c.render())
	} else if !bytes.Equal(again, out) {
		t.Fatalf("the same entry encoded by a console encoder that has encoded other entries before differs from a fresh encoder's output:\n fresh: %q\n used:  %q\ncase: %s", clipS(string(out)), clipS(string(again)), c.render())
	}
	sep := cs.cfg.ConsoleSeparator
	if sep == "" {
		sep = "\t"
	}
	le := cs.lineEnding()
	cols, present := cs.consoleColumns(c.ent)
	prefix := strings.Join(cols, sep)
	if cs.cfg.MessageKey != "" {
		if prefix != "" {
			prefix += sep
		}
		prefix += c.ent.Message
		present[5] = true
	}
	line := string(out)
	fail := func(f string, a ...any) {
		t.Fatalf("%s\n line: %q\ncase: %s", fmt.Sprintf(f, a...), clipS(line), c.render())
	}
	if !strings.HasPrefix(line, prefix) {
		fail("metadata columns differ: want prefix %q", clipS(prefix))
	}
	rest := line[len(prefix):]
	suffix := le
	if c.ent.Stack != "" && cs.cfg.StacktraceKey != "" {
		suffix = "\n" + c.ent.Stack + le
	}
	if !strings.HasSuffix(rest, suffix) {
		fail("line does not end with [newline+stack]+line ending %q", clipS(suffix))
	}
	mid := rest[:len(rest)-len(suffix)]

	// expected context
	fo := newObjX()
	for _, round := range c.ctx {
		for _, s := range round {
			s.ExpectField(fo)
		}
	}
	for _, s := range c.site {
		s.ExpectField(fo)
	}
	hasCtx := len(fo.root.kids) > 0
	if !hasCtx {
		if mid != "" {
			fail("no fields were logged but the line has extra content %q", clipS(mid))
		}
	} else {
		if prefix != "" {
			if !strings.HasPrefix(mid, sep) {
				fail("separator missing between columns and context: %q", clipS(mid))
			}
			mid = mid[len(sep):]
		}
		why, got := checkJSONLine([]byte(mid), "")
		if why != "" {
			fail("context is not one valid JSON object: %s: %q", why, clipS(mid))
		}
		if e := cmpTree("$ctx", fo.root, got, cs); e != "" {
			fail("context differs from the logged fields: %s\n want: %s", e, clipS(renderX(fo.root)))
		}
		// differential: token-for-token what the JSON encoder emits for the same fields
		jcfg := cs.cfg
		jcfg.MessageKey, jcfg.LevelKey, jcfg.TimeKey, jcfg.NameKey, jcfg.CallerKey, jcfg.FunctionKey, jcfg.StacktraceKey = "", "", "", "", "", "", ""
		jc := &c01Case{cs: &cfgSpec{cfg: jcfg}, ctx: c.ctx, site: c.site, ent: zapcore.Entry{}}
		jout, jerr, jp := jc.encodeDirect()
		if jerr != nil || jp != nil {
			fail("JSON encoder failed on the same fields: %v %v", jerr, jp)
		}
		jn, derr := decodeOrdered(bytes.TrimSuffix(jout, []byte(effectiveLineEnding(jcfg.SkipLineEnding, jcfg.LineEnding))))
		if derr != nil {
			fail("JSON encoder output undecodable: %v", derr)
		}
		if e := cmpExact("$ctx", jn, got); e != "" {
			fail("console context differs from the JSON encoder's output: %s", e)
		}
	}
	npresent, nomitted := 0, 0
	pat := ""
	for _, b := range present {
		if b {
			npresent++
			pat += "1"
		} else {
			nomitted++
			pat += "0"
		}
	}
	tr := traitsOf(append([][]*Spec{c.site}, c.ctx...)...)
	nt := npresent > 0 && nomitted > 0 && hasCtx && (tr.kinds["ns"] > 0 || tr.maxDepth >= 1)
	labels := []string{}
	if hasCtx {
		labels = append(labels, "has context")
	}
	if c.ent.Stack != "" && cs.cfg.StacktraceKey != "" {
		labels = append(labels, "stack trace lines")
	}
	if prefix == "" {
		labels = append(labels, "no columns at all")
	}
	if cs.cfg.ConsoleSeparator != "" && cs.cfg.ConsoleSeparator != "\t" {
		labels = append(labels, "custom separator")
	}
	statCase("C16", nt, "cols"+pat+"|"+cs.shape()+"|"+tr.kindSig(), labels...)
	if nt {
		statSample("C16", func() string { return c.render() + " => " + line })
	}
}

func TestC16Console(t *testing.T) { rapid.Check(t, propC16) }

func TestRegressC16(t *testing.T) {
	cfg := zapcore.EncoderConfig{MessageKey: "M", LevelKey: "L", TimeKey: "T", NameKey: "N", CallerKey: "C", FunctionKey: "F", StacktraceKey: "S",
		EncodeLevel: zapcore.CapitalLevelEncoder, EncodeTime: zapcore.EpochNanosTimeEncoder, EncodeCaller: zapcore.ShortCallerEncoder, EncodeDuration: zapcore.StringDurationEncoder}
	ent := zapcore.Entry{Level: zapcore.WarnLevel, Time: time.Unix(0, 42), LoggerName: "n", Message: "msg", Stack: "st",
		Caller: zapcore.EntryCaller{Defined: true, File: "/a/b/c.go", Line: 7, Function: "fn"}}
	enc := zapcore.NewConsoleEncoder(cfg)
	enc.AddString("ctx", "v")
	buf, _ := enc.EncodeEntry(ent, []zapcore.Field{zap.Namespace("ns"), zap.Int("i", 1)})
	want := "42\tWARN\tn\tb/c.go:7\tfn\tmsg\t{\"ctx\": \"v\", \"ns\": {\"i\": 1}}\nst\n"
	if buf.String() != want {
		t.Fatalf("got %q want %q", buf.String(), want)
	}
	cfg.TimeKey, cfg.NameKey, cfg.ConsoleSeparator = "", "", "|"
	buf, _ = zapcore.NewConsoleEncoder(cfg).EncodeEntry(ent, nil)
	want = "WARN|b/c.go:7|fn|msg\nst\n"
	if buf.String() != want {
		t.Fatalf("got %q want %q", buf.String(), want)
	}
}
