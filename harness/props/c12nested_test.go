package props

import (
	"bytes"
	"fmt"
	"strings"
	"testing"
	"time"

	"go.uber.org/zap/zapcore"
	"pgregory.net/rapid"
)

// propC12Nested: a BufferedWriteSyncer whose underlying sink is another BufferedWriteSyncer (possibly behind a lock),
// the lower one ALSO written to directly. The statement holds for each of the two with respect to ITS underlying
// sink: the lower one receives the upper one's accepted writes in order, whole, at the moments the upper one flushes,
// and passes on what IT accepted in order. Seen from the final sink, without predicting any flush point:
//   - every accepted write arrives exactly once and whole (a sink write is a sequence of whole caller writes),
//   - the upper one's writes arrive in their order, the direct ones in theirs,
//   - a direct write accepted by the lower syncer BEFORE an upper write was even issued precedes it in the sink
//     (the upper write's bytes reach the lower syncer later, and the lower syncer preserves arrival order),
//   - after upper.Sync() everything accepted so far by either is in the sink, after lower.Sync() everything the
//     lower one has been given directly is; both have synced the sink.
func propC12Nested(t *rapid.T) {
	sink := &opSink{}
	lowSize := rapid.SampledFrom([]int{1, 8, 16, 33, 64, 4096}).Draw(t, "lowerSize")
	upSize := rapid.SampledFrom([]int{1, 8, 16, 33, 64, 4096}).Draw(t, "upperSize")
	lower := &zapcore.BufferedWriteSyncer{WS: sink, Size: lowSize, FlushInterval: time.Hour}
	between := rapid.SampledFrom([]string{"direct", "direct", "Lock", "AddSync view"}).Draw(t, "between")
	var mid zapcore.WriteSyncer = lower
	switch between {
	case "Lock":
		mid = zapcore.Lock(lower)
	case "AddSync view":
		mid = &c13View{lower}
	}
	upper := &zapcore.BufferedWriteSyncer{WS: mid, Size: upSize, FlushInterval: time.Hour}
	defer lower.Stop()
	defer upper.Stop()

	type rec struct {
		who  byte // 'U' or 'L'
		data []byte
	}
	var issued []rec
	var hist []string
	fail := func(f string, a ...any) {
		t.Fatalf("%s\nupper Size=%d over (%s) lower Size=%d\nhistory: %s\nsink writes: %q", fmt.Sprintf(f, a...), upSize, between, lowSize, strings.Join(hist, " "), sink.writes)
	}
	// position of every issued write in the sink's byte stream (-1: not there), checking wholeness on the way
	locate := func() []int {
		stream := sink.bytes()
		pos := make([]int, len(issued))
		for i, r := range issued {
			if len(r.data) == 0 {
				pos[i] = -2
				continue
			}
			pos[i] = bytes.Index(stream, r.data)
			if pos[i] >= 0 && bytes.Count(stream, r.data) != 1 {
				fail("write #%d (%c) is in the sink %d times", i, r.who, bytes.Count(stream, r.data))
			}
		}
		return pos
	}
	check := func(mustHaveUpTo int, whose string) {
		pos := locate()
		lastU, lastL := -1, -1
		for i, r := range issued {
			if pos[i] == -2 {
				continue
			}
			if i < mustHaveUpTo && strings.ContainsRune(whose, rune(r.who)) && pos[i] < 0 {
				fail("write #%d (%c) was accepted before the Sync that just returned and is not in the sink", i, r.who)
			}
			if pos[i] < 0 {
				continue
			}
			if r.who == 'U' {
				if pos[i] < lastU {
					fail("upper write #%d arrived before an earlier upper write", i)
				}
				lastU = pos[i]
				// every direct write issued earlier is in front of it
				for j := 0; j < i; j++ {
					if issued[j].who == 'L' && pos[j] != -2 && (pos[j] < 0 || pos[j] > pos[i]) {
						fail("upper write #%d is in the sink at offset %d; the direct write #%d, accepted by the lower syncer before #%d was issued, is at %d (-1: not yet): the upper syncer's data overtook data its underlying syncer had already accepted", i, pos[i], j, i, pos[j])
					}
				}
			} else {
				if pos[i] < lastL {
					fail("direct write #%d arrived before an earlier direct write", i)
				}
				lastL = pos[i]
			}
		}
		// whole caller writes per sink write
		for _, w := range sink.writes {
			if len(w) > 0 && w[len(w)-1] != '\n' {
				fail("a sink write ends inside a caller write: %q", w)
			}
		}
	}
	nops := rapid.IntRange(1, 14).Draw(t, "nOps")
	overtake := false
	for k := 0; k < nops; k++ {
		op := rapid.SampledFrom([]string{"wU", "wU", "wL", "wL", "syncU", "syncL"}).Draw(t, "op")
		switch op {
		case "wU", "wL":
			n := rapid.SampledFrom([]int{0, 7, 8, 9, 15, 16, 17, 40, 70}).Draw(t, "len")
			p := c12Payload(len(issued)+100, n)
			w := zapcore.WriteSyncer(upper)
			who := byte('U')
			if op == "wL" {
				w, who = lower, 'L'
			}
			if got, err := w.Write(p); got != n || err != nil {
				fail("%s(%d bytes) = (%d, %v)", op, n, got, err)
			}
			if who == 'U' {
				for _, r := range issued {
					overtake = overtake || (r.who == 'L' && len(r.data) > 0)
				}
			}
			issued = append(issued, rec{who, p})
			hist = append(hist, fmt.Sprintf("%s(%d)", op, n))
			check(0, "")
		case "syncU":
			_, _, before, _ := sink.state()
			if err := upper.Sync(); err != nil {
				fail("upper.Sync: %v", err)
			}
			hist = append(hist, op)
			if _, _, after, last := sink.state(); after == before || last != "sync" {
				fail("upper.Sync returned without the sink having been synced last (syncs %d -> %d, last op %s)", before, after, last)
			}
			check(len(issued), "UL")
		case "syncL":
			if err := lower.Sync(); err != nil {
				fail("lower.Sync: %v", err)
			}
			hist = append(hist, op)
			check(len(issued), "L")
		}
	}
	if err := upper.Stop(); err != nil {
		fail("upper.Stop: %v", err)
	}
	hist = append(hist, "stopU")
	check(0, "") // (the upper one's data is now in the lower syncer: nothing to demand of the sink yet)
	if err := lower.Stop(); err != nil {
		fail("lower.Stop: %v", err)
	}
	hist = append(hist, "stopL")
	check(len(issued), "UL")
	want := 0
	for _, r := range issued {
		want += len(r.data)
	}
	if got := len(sink.bytes()); got != want {
		fail("the sink holds %d bytes, %d were accepted", got, want)
	}
	statCase("C12", overtake, fmt.Sprintf("nested|%d|%d|%s|%d|%v", upSize, lowSize, between, nops/4, overtake), "buffered syncer over a buffered syncer", "between: "+between)
}

func TestC12Nested(t *testing.T) { rapid.Check(t, propC12Nested) }
