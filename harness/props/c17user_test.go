package props

import (
	"encoding/json"
	"fmt"
	"io"
	"testing"

	"go.uber.org/zap"
	"go.uber.org/zap/zapcore"
	"go.uber.org/zap/zaptest/observer"
)

// Checks with USER implementations of zap's interfaces plugged in where zap's own types usually sit (round 17).

// c06DemotingCore is a user core that stores everything above Error as an Error record (a backend without the higher
// severities): it registers a copy of the entry with a lowered level.
type c06DemotingCore struct{ zapcore.Core }

func (c c06DemotingCore) With(fs []zapcore.Field) zapcore.Core {
	return c06DemotingCore{c.Core.With(fs)}
}
func (c c06DemotingCore) Check(e zapcore.Entry, ce *zapcore.CheckedEntry) *zapcore.CheckedEntry {
	if e.Level > zapcore.ErrorLevel {
		e.Level = zapcore.ErrorLevel
	}
	return c.Core.Check(e, ce)
}

// c06TerminalActionsOverDemotingCore: what the CALLER asked for decides whether the program terminates - a core that
// records the entry at another level changes the record, not the contract of Panic and Fatal.
func c06TerminalActionsOverDemotingCore(t *testing.T) {
	for _, dev := range []bool{false, true} {
		obs, logs := observer.New(zapcore.DebugLevel)
		fatals := new(int64)
		opts := []zap.Option{zap.WithFatalHook(countHook{fatals})}
		if dev {
			opts = append(opts, zap.Development())
		}
		lg := zap.New(c06DemotingCore{obs}, opts...)
		fronts := map[string]func(){
			"Logger.Panic":       func() { lg.Panic("boom") },
			"Logger.Log(Panic)":  func() { lg.Log(zapcore.PanicLevel, "boom") },
			"Sugar.Panicw":       func() { lg.Sugar().Panicw("boom", "k", 1) },
			"Check+Write(Panic)": func() { lg.Check(zapcore.PanicLevel, "boom").Write() },
			"With.Panic":         func() { lg.With(zap.Int("a", 1)).Panic("boom") },
		}
		if dev {
			fronts["Logger.DPanic (development)"] = func() { lg.DPanic("boom") }
		}
		for name, f := range fronts {
			logs.TakeAll()
			panicked := func() (p any) {
				defer func() { p = recover() }()
				f()
				return nil
			}()
			if panicked == nil {
				t.Fatalf("%s over a core that records the entry at Error level returned normally (development=%v)", name, dev)
			}
			if es := logs.TakeAll(); len(es) != 1 || es[0].Message != "boom" {
				t.Fatalf("%s: %d entries recorded", name, len(es))
			}
		}
		before := *fatals
		lg.Fatal("fatal")
		lg.Sugar().Fatalw("fatal", "k", 1)
		if got := *fatals - before; got != 2 {
			t.Fatalf("Fatal over a core that records the entry at Error level ran the fatal action %d times for 2 calls", got)
		}
	}
	statCase("C06", true, "demoting-user-core", "terminal actions over a user core that lowers the recorded level")
}

// c02CountingReflected is a user ReflectedEncoder factory that notes every value it is asked to encode.
type c02CountingReflected struct {
	zapcore.ReflectedEncoder
	seen *[]string
}

func (c c02CountingReflected) Encode(v interface{}) error {
	*c.seen = append(*c.seen, fmt.Sprintf("%T", v))
	return c.ReflectedEncoder.Encode(v)
}

// c02UserReflectedEncoderSeesEveryValue: "NewReflectedEncoder: ... used for encoding reflected values" - every value
// that goes down the reflection route is handed to the configured encoder, whatever its type (a user's encoder may
// render 64-bit integers as strings for JavaScript readers, mask strings, count bytes).
func c02UserReflectedEncoderSeesEveryValue(t *testing.T) {
	vals := []interface{}{"text", true, 7, int8(1), int16(2), int32(3), int64(1 << 60), uint(4), uint8(5), uint16(6), uint32(7), uint64(1 << 63),
		1.5, float32(2.5), map[string]int{"a": 1}, []int{1}, struct{ A int }{1}} // (nil is written as null by zap itself)
	for _, where := range []string{"call site", "With", "array element"} {
		for _, v := range vals {
			var seen []string
			cfg := zapcore.EncoderConfig{MessageKey: "m", NewReflectedEncoder: func(w io.Writer) zapcore.ReflectedEncoder {
				return c02CountingReflected{json.NewEncoder(w), &seen}
			}}
			sink := &memSink{}
			lg := zap.New(zapcore.NewCore(zapcore.NewJSONEncoder(cfg), sink, zapcore.DebugLevel))
			switch where {
			case "call site":
				lg.Info("m", zap.Reflect("k", v))
			case "With":
				lg.With(zap.Reflect("k", v)).Info("m")
			default:
				lg.Info("m", zap.Array("arr", zapcore.ArrayMarshalerFunc(func(a zapcore.ArrayEncoder) error { return a.AppendReflected(v) })))
			}
			if len(seen) != 1 || seen[0] != fmt.Sprintf("%T", v) {
				t.Fatalf("zap.Reflect(%T) as %s: the configured reflected encoder was handed %v, want exactly that one value\nline: %s", v, where, seen, sink.all())
			}
		}
	}
	statCase("C02", true, "user-reflected-encoder", "a user's reflected encoder is handed every reflected value")
}

// c03DeferringArray is a user ArrayEncoder of the two-pass kind (a length-prefixed format has to know the number of
// elements before it writes the first): it collects what it is handed and runs the marshalers afterwards.
type c03DeferringArray struct {
	zapcore.ArrayEncoder // (only AppendObject is used by the constructors under test)
	pending              []zapcore.ObjectMarshaler
}

func (d *c03DeferringArray) AppendObject(m zapcore.ObjectMarshaler) error {
	d.pending = append(d.pending, m)
	return nil
}

// c03DeferringObject is the matching user ObjectEncoder: everything goes to the map encoder except arrays.
type c03DeferringObject struct {
	*zapcore.MapObjectEncoder
	arrays map[string][]map[string]interface{}
}

func (o *c03DeferringObject) AddArray(key string, m zapcore.ArrayMarshaler) error {
	arr := &c03DeferringArray{}
	if err := m.MarshalLogArray(arr); err != nil {
		return err
	}
	for _, om := range arr.pending { // second pass
		e := zapcore.NewMapObjectEncoder()
		if err := om.MarshalLogObject(e); err != nil {
			return err
		}
		o.arrays[key] = append(o.arrays[key], e.Fields)
	}
	return nil
}

type c03Item struct{ id int }

func (i c03Item) MarshalLogObject(e zapcore.ObjectEncoder) error { e.AddInt("id", i.id); return nil }

type c03ItemPtr struct{ id int }

func (i *c03ItemPtr) MarshalLogObject(e zapcore.ObjectEncoder) error {
	e.AddInt("id", i.id)
	return nil
}

// c03ObjectsIntoUserArrayEncoder: "the encoder receives the value it was given" holds for any encoder: what
// zap.Objects / zap.ObjectValues hand to AppendObject are the elements themselves, each its own, whenever the encoder
// chooses to look at them.
func c03ObjectsIntoUserArrayEncoder(t *testing.T) {
	check := func(name string, f zapcore.Field, want []int) {
		enc := &c03DeferringObject{zapcore.NewMapObjectEncoder(), map[string][]map[string]interface{}{}}
		f.AddTo(enc)
		got := enc.arrays["k"]
		if len(got) != len(want) {
			t.Fatalf("%s: the user's array encoder was handed %d elements, want %d", name, len(got), len(want))
		}
		for i, w := range want {
			if got[i]["id"] != w {
				t.Fatalf("%s: element %d arrives as %v when the encoder looks at it after MarshalLogArray has returned, the value given was id=%d (all: %v)", name, i, got[i], w, got)
			}
		}
	}
	check("zap.Objects(values)", zap.Objects("k", []c03Item{{1}, {2}, {3}}), []int{1, 2, 3})
	check("zap.Objects(pointers)", zap.Objects("k", []*c03ItemPtr{{4}, {5}}), []int{4, 5})
	check("zap.ObjectValues", zap.ObjectValues[c03ItemPtr]("k", []c03ItemPtr{{6}, {7}, {8}}), []int{6, 7, 8})
	statCase("C03", true, "user-array-encoder", "constructors into a user's two-pass array encoder")
}
