package props

// C19 — Open, Config.Build and std-log redirection are all-or-nothing; URLs validated.

import (
	"encoding/json"
	"errors"
	"fmt"
	"io"
	"log"
	"net/url"
	"os"
	"path/filepath"
	"strings"
	"sync"
	"sync/atomic"
	"testing"
	"time"

	"go.uber.org/zap"
	"go.uber.org/zap/zapcore"
	"pgregory.net/rapid"
)

// ctlSink is a registered test sink that counts what happens to it.
type ctlSink struct {
	name                  string
	writes, syncs, closes int
	data                  []byte
	closeErr              bool // Close reports an error (after having closed)
}

func (c *ctlSink) Write(p []byte) (int, error) {
	c.writes++
	c.data = append(c.data, p...)
	return len(p), nil
}
func (c *ctlSink) Sync() error { c.syncs++; return nil }
func (c *ctlSink) Close() error {
	c.closes++
	if c.closeErr {
		return errors.New("close of " + c.name + " failed")
	}
	return nil
}

// ctlValSink is a comparable value type; every instance of one process compares equal to every other
// (the per-open state is looked up through the shared registry by call order).
type ctlValShared0 struct {
	mu    sync.Mutex
	opens []*ctlSink
	next  map[string]int
}

var ctlValShared = &ctlValShared0{next: map[string]int{}}

type ctlValSink struct {
	shared *ctlValShared0
	mine   struct{} // no distinguishing state: two sinks opened for two URLs are == to each other
}

func ctlValRegister(c *ctlSink) struct{} {
	ctlValShared.mu.Lock()
	ctlValShared.opens = append(ctlValShared.opens, c)
	ctlValShared.mu.Unlock()
	return struct{}{}
}

// every method acts on the NEXT not-yet-used open of its kind: Close closes one more opened sink each time it is called
func (v ctlValSink) pick(kind string) *ctlSink {
	v.shared.mu.Lock()
	defer v.shared.mu.Unlock()
	i := v.shared.next[kind]
	if i >= len(v.shared.opens) {
		return &ctlSink{}
	}
	v.shared.next[kind] = i + 1
	return v.shared.opens[i]
}
func (v ctlValSink) Write(p []byte) (int, error) { return v.pick("w").Write(p) }
func (v ctlValSink) Sync() error                 { return v.pick("s").Sync() }
func (v ctlValSink) Close() error                { return v.pick("c").Close() }

// ctlSliceSink is a value type that cannot be compared (or hashed).
type ctlSliceSink struct{ inner []*ctlSink }

func (v ctlSliceSink) Write(p []byte) (int, error) { return v.inner[0].Write(p) }
func (v ctlSliceSink) Sync() error                 { return v.inner[0].Sync() }
func (v ctlSliceSink) Close() error                { return v.inner[0].Close() }

// ctlWrapSink forwards to another sink opened by its factory.
type ctlWrapSink struct {
	*ctlSink
	inner      zapcore.WriteSyncer
	closeInner func()
}

func (w *ctlWrapSink) Write(p []byte) (int, error) {
	_, _ = w.inner.Write(p)
	return w.ctlSink.Write(p)
}
func (w *ctlWrapSink) Sync() error  { _ = w.inner.Sync(); return w.ctlSink.Sync() }
func (w *ctlWrapSink) Close() error { w.closeInner(); return w.ctlSink.Close() }

// an encoder whose constructor fails, registered once per process
var (
	failEncOnce sync.Once
	failEncName = fmt.Sprintf("xvfailenc%d", os.Getpid())
)

func failEncRegister(t interface{ Fatalf(string, ...any) }) {
	failEncOnce.Do(func() {
		if err := zap.RegisterEncoder(failEncName, func(zapcore.EncoderConfig) (zapcore.Encoder, error) {
			return nil, errors.New("encoder constructor failed")
		}); err != nil {
			t.Fatalf("registering the failing encoder: %v", err)
		}
	})
}

var (
	ctlMu     sync.Mutex
	ctlOpened []*ctlSink
	ctlOnce   sync.Once
	ctlScheme = fmt.Sprintf("xvctl%d", os.Getpid())
)

func ctlRegister(t interface{ Fatalf(string, ...any) }) {
	ctlOnce.Do(func() {
		err := zap.RegisterSink(ctlScheme, func(u *url.URL) (zap.Sink, error) {
			if u.Host == "fail" {
				return nil, errors.New("factory failed for " + u.Path)
			}
			if u.Host == "okval" || u.Host == "okslice" {
				// third-party sinks need not be pointers: a comparable VALUE type whose instances compare equal (all
				// share one counter), or a value type that is not comparable at all
				c := &ctlSink{name: u.String()}
				ctlMu.Lock()
				ctlOpened = append(ctlOpened, c)
				ctlMu.Unlock()
				if u.Host == "okslice" {
					return ctlSliceSink{inner: []*ctlSink{c}}, nil
				}
				return ctlValSink{shared: ctlValShared, mine: ctlValRegister(c)}, nil
			}
			if u.Host == "okreenter" {
				// a wrapping sink: its factory itself uses the registry (opens another registered sink and
				// tries to register a scheme) - factories run user code and may call back into zap
				_ = zap.RegisterSink(ctlScheme, func(*url.URL) (zap.Sink, error) { return nil, nil }) // already registered: must fail, not block
				inner, closeInner, err := zap.Open(fmt.Sprintf("%s://ok%s-inner", ctlScheme, u.Path))
				if err != nil {
					return nil, err
				}
				s := &ctlSink{name: u.String()}
				ctlMu.Lock()
				ctlOpened = append(ctlOpened, s)
				ctlMu.Unlock()
				return &ctlWrapSink{ctlSink: s, inner: inner, closeInner: closeInner}, nil
			}
			s := &ctlSink{name: u.String(), closeErr: u.Host == "okcloseerr"}
			ctlMu.Lock()
			ctlOpened = append(ctlOpened, s)
			ctlMu.Unlock()
			return s, nil
		})
		if err != nil {
			t.Fatalf("registering the control sink: %v", err)
		}
	})
}

// countFDs counts this process's open descriptors that point below dir
// (precise, unlike the total number, which GC finalizers of earlier cases change).
func countFDs(dirs ...string) int {
	es, _ := os.ReadDir("/proc/self/fd")
	if len(dirs) == 0 {
		return len(es)
	}
	n := 0
	for _, e := range es {
		if target, err := os.Readlink("/proc/self/fd/" + e.Name()); err == nil && strings.HasPrefix(target, dirs[0]+"/") {
			n++
		}
	}
	return n
}

// fileFDs maps descriptor number to target for this process's descriptors that point at paths in the file
// system (not pipes, sockets, anonymous inodes or devices).
func fileFDs() map[string]string {
	out := map[string]string{}
	es, _ := os.ReadDir("/proc/self/fd")
	for _, e := range es {
		target, err := os.Readlink("/proc/self/fd/" + e.Name())
		if err != nil || !strings.HasPrefix(target, "/") || strings.HasPrefix(target, "/dev/") || strings.HasPrefix(target, "/proc/") {
			continue
		}
		out[e.Name()] = target
	}
	return out
}

func listFiles(dir string) []string {
	var out []string
	filepath.Walk(dir, func(p string, info os.FileInfo, err error) error {
		if err == nil && !info.IsDir() {
			out = append(out, p)
		}
		return nil
	})
	return out
}

func c19Dir(t interface{ Fatalf(string, ...any) }) string {
	base := os.Getenv("VERIF_WORKDIR")
	if base == "" {
		base = os.TempDir()
	}
	d, err := os.MkdirTemp(base, "c19-")
	if err != nil {
		t.Fatalf("VERIF-INCONCLUSIVE mkdtemp: %v", err)
	}
	return d
}

type c19Path struct {
	path string
	kind string // ctl-ok ctl-fail nosuchscheme badpath file std ctl-query badurl
	ok   bool
	file string // real file expected to exist after a successful open
}

func genC19Paths(t *rapid.T, dir, label string, max int) ([]c19Path, bool) {
	n := rapid.IntRange(0, max).Draw(t, label+"Count")
	var ps []c19Path
	allOK := true
	for i := 0; i < n; i++ {
		var p c19Path
		switch rapid.IntRange(0, 13).Draw(t, label+"Kind") {
		case 12:
			p = c19Path{path: fmt.Sprintf("%s://okval/%s%d", ctlScheme, label, i), kind: "ctl-value", ok: true}
		case 13:
			p = c19Path{path: fmt.Sprintf("%s://okslice/%s%d", ctlScheme, label, i), kind: "ctl-slice", ok: true}
		case 11:
			// a sink whose factory calls back into zap (Open, RegisterSink)
			p = c19Path{path: fmt.Sprintf("%s://okreenter/%s%d", ctlScheme, label, i), kind: "ctl-reenter", ok: true}
		case 10:
			// opens fine; its Close reports an error (which must not keep the others from being closed)
			p = c19Path{path: fmt.Sprintf("%s://okcloseerr/%s%d", ctlScheme, label, i), kind: "ctl-closeerr", ok: true}
		case 0, 1, 2:
			p = c19Path{path: fmt.Sprintf("%s://ok/%s%d", ctlScheme, label, i), kind: "ctl-ok", ok: true}
		case 3:
			p = c19Path{path: fmt.Sprintf("%s://fail/%s%d", ctlScheme, label, i), kind: "ctl-fail"}
		case 4:
			p = c19Path{path: "nosuchscheme://x/y", kind: "nosuchscheme"}
		case 5:
			p = c19Path{path: filepath.Join(dir, "missing-dir", fmt.Sprintf("%s%d.log", label, i)), kind: "badpath"}
		case 6:
			f := filepath.Join(dir, fmt.Sprintf("%s%d.log", label, i))
			p = c19Path{path: f, kind: "file", ok: true, file: f}
		case 7:
			p = c19Path{path: rapid.SampledFrom([]string{"stdout", "stderr"}).Draw(t, "std"), kind: "std", ok: true}
		case 8:
			p = c19Path{path: fmt.Sprintf("%s://ok/%s%d?x=1#frag", strings.ToUpper(ctlScheme), label, i), kind: "ctl-query", ok: true}
		default:
			p = c19Path{path: "file://user@localhost" + filepath.Join(dir, fmt.Sprintf("rejected-%s%d.log", label, i)), kind: "badurl"}
		}
		if !p.ok {
			allOK = false
		}
		ps = append(ps, p)
	}
	return ps, allOK
}

func pathsOf(ps []c19Path) []string {
	out := make([]string, len(ps))
	for i, p := range ps {
		out[i] = p.path
	}
	return out
}

var c19Mu sync.Mutex

var c19EncRegistered = map[string]bool{} // encoder names this process has registered successfully

// c19Watchdog runs f and reports a hang (a sink factory is user code and may call back into zap).
func c19Watchdog(t interface{ Fatalf(string, ...any) }, what, desc string, f func()) {
	done := make(chan struct{})
	go func() { defer close(done); f() }()
	select {
	case <-done:
	case <-time.After(20 * time.Second):
		t.Fatalf("VERIF-DEADLOCK %s did not return within 20s\n%s", what, desc)
	}
}

// propC19Open: Open / Config.Build fault sequences.
func propC19Open(t *rapid.T) {
	c19Mu.Lock()
	defer c19Mu.Unlock()
	ctlRegister(t)
	dir := c19Dir(t)
	defer os.RemoveAll(dir)
	// "stdout"/"stderr" destinations are resolved when opened: point them at /dev/null
	if devnull, err := os.OpenFile(os.DevNull, os.O_WRONLY, 0); err == nil {
		so, se := os.Stdout, os.Stderr
		os.Stdout, os.Stderr = devnull, devnull
		defer func() { os.Stdout, os.Stderr = so, se; devnull.Close() }()
	}
	ctlMu.Lock()
	ctlOpened = nil
	ctlMu.Unlock()
	ctlValShared.mu.Lock()
	ctlValShared.opens, ctlValShared.next = nil, map[string]int{}
	ctlValShared.mu.Unlock()
	outs, outsOK := genC19Paths(t, dir, "out", 5)
	errs, errsOK := genC19Paths(t, dir, "err", 4)
	failEncRegister(t)
	mode := rapid.SampledFrom([]string{"open", "open", "build", "build", "build-nolevel", "build-noenc", "build-notime", "build-encfails"}).Draw(t, "mode")
	fds := countFDs(dir)
	flags, prefix, lw := log.Flags(), log.Prefix(), log.Writer()
	desc := fmt.Sprintf("mode=%s outs=%v errs=%v", mode, pathsOf(outs), pathsOf(errs))
	checkAllClosed := func(when string) {
		for _, s := range ctlOpened {
			if s.closes != 1 {
				t.Fatalf("%s: sink %s was opened but closed %d times (every opened sink must be closed exactly once)\n%s", when, s.name, s.closes, desc)
			}
		}
		if n := countFDs(dir); n != fds {
			t.Fatalf("%s: %d file descriptors leaked\n%s", when, n-fds, desc)
		}
	}
	failAfterSuccess := false
	used := outs
	if mode != "open" {
		used = append(append([]c19Path{}, outs...), errs...)
	}
	seenOK := false
	for _, p := range used {
		if p.ok {
			seenOK = true
		} else if seenOK {
			failAfterSuccess = true
		}
	}
	switch mode {
	case "open":
		var ws zapcore.WriteSyncer
		var closeFn func()
		var err error
		c19Watchdog(t, "Open", desc, func() { ws, closeFn, err = zap.Open(pathsOf(outs)...) })
		if (err == nil) != outsOK {
			t.Fatalf("Open error=%v, want success=%v\n%s", err, outsOK, desc)
		}
		if err != nil {
			if ws != nil || closeFn != nil {
				t.Fatalf("failed Open returned a writer/close function\n%s", desc)
			}
			checkAllClosed("failed Open")
			for _, p := range outs {
				if p.kind == "badurl" || p.kind == "badpath" {
					if fs := listFiles(dir); len(fs) != 0 && !containsOnlyOKFiles(fs, outs) {
						t.Fatalf("failed Open created unexpected files %v\n%s", fs, desc)
					}
				}
			}
			break
		}
		payload := []byte("payload\n")
		if n, werr := ws.Write(payload); n != len(payload) || werr != nil {
			t.Fatalf("Write through the opened syncer = (%d, %v)\n%s", n, werr, desc)
		}
		if serr := ws.Sync(); serr != nil && !hasStd(outs) {
			t.Fatalf("Sync: %v\n%s", serr, desc)
		}
		nctl := 0
		for _, s := range ctlOpened {
			nctl++
			if s.writes != 1 || string(s.data) != "payload\n" || s.syncs != 1 || s.closes != 0 {
				t.Fatalf("destination %s: writes=%d data=%q syncs=%d closes=%d, want exactly one write\n%s", s.name, s.writes, s.data, s.syncs, s.closes, desc)
			}
		}
		wantCtl := 0
		for _, p := range outs {
			if strings.HasPrefix(p.kind, "ctl-") {
				wantCtl++
			}
			if p.kind == "ctl-reenter" {
				wantCtl++ // the wrapper and the sink its factory opened
			}
			if p.file != "" {
				if b, _ := os.ReadFile(p.file); string(b) != "payload\n" {
					t.Fatalf("file destination %s holds %q\n%s", p.file, b, desc)
				}
			}
		}
		if nctl != wantCtl {
			t.Fatalf("%d control sinks opened, want %d\n%s", nctl, wantCtl, desc)
		}
		closeFn()
		checkAllClosed("close()")
	default:
		cfg := zap.NewProductionConfig()
		cfg.OutputPaths, cfg.ErrorOutputPaths = pathsOf(outs), pathsOf(errs)
		cfg.Sampling = nil
		wantErr := !outsOK || !errsOK
		switch mode {
		case "build-nolevel":
			cfg.Level = zap.AtomicLevel{}
			wantErr = true
		case "build-noenc":
			cfg.Encoding = rapid.SampledFrom([]string{"", "nope", "JSON"}).Draw(t, "encoding")
			wantErr = true
		case "build-notime":
			cfg.EncoderConfig.EncodeTime = nil
			wantErr = true
		case "build-encfails":
			cfg.Encoding = failEncName // a registered encoder whose constructor returns an error
			wantErr = true
		}
		var lg *zap.Logger
		var err error
		c19Watchdog(t, "Config.Build", desc, func() { lg, err = cfg.Build() })
		if (err != nil) != wantErr {
			t.Fatalf("Build error=%v, want error=%v\n%s", err, wantErr, desc)
		}
		if err != nil {
			if lg != nil {
				t.Fatalf("failed Build returned a logger")
			}
			checkAllClosed("failed Build")
			if mode != "build" {
				// configuration errors must be detected before anything is opened or created
				if len(ctlOpened) != 0 {
					// allowed only if everything was closed again (checked above)
				}
			}
			break
		}
		lg.Info("hello")
		for _, s := range ctlOpened {
			isOut := strings.Contains(s.name, "/out")
			if isOut && s.writes != 1 {
				t.Fatalf("output destination %s received %d writes\n%s", s.name, s.writes, desc)
			}
			if !isOut && s.writes != 0 {
				t.Fatalf("error-output destination %s received a normal entry\n%s", s.name, desc)
			}
		}
		for _, p := range outs {
			if p.file != "" {
				if b, _ := os.ReadFile(p.file); !strings.Contains(string(b), `"msg":"hello"`) {
					t.Fatalf("file destination %s holds %q\n%s", p.file, b, desc)
				}
			}
		}
		// Build hands no close function back: release the descriptors ourselves
		_ = lg.Sync()
	}
	if log.Flags() != flags || log.Prefix() != prefix || log.Writer() != lw {
		t.Fatalf("standard logger settings were touched\n%s", desc)
	}
	nsinks := len(used)
	nt := nsinks >= 2 && failAfterSuccess
	labels := []string{"mode " + mode}
	if failAfterSuccess {
		labels = append(labels, "failure after a successful open")
	}
	sig := mode + "|"
	for _, p := range used {
		sig += fmt.Sprintf("%.5s,", p.kind)
	}
	statCase("C19", nt, sig, labels...)
	if nt {
		statSample("C19", func() string { return desc })
	}
}

func hasStd(ps []c19Path) bool {
	for _, p := range ps {
		if p.kind == "std" {
			return true
		}
	}
	return false
}

func containsOnlyOKFiles(files []string, ps []c19Path) bool {
	ok := map[string]bool{}
	for _, p := range ps {
		if p.file != "" {
			ok[p.file] = true
		}
	}
	for _, f := range files {
		if !ok[f] {
			return false
		}
	}
	return true
}

// propC19URL: file URLs built from components, so the verdict and the decoded
// path are known by construction.
func propC19URL(t *rapid.T) {
	c19Mu.Lock()
	defer c19Mu.Unlock()
	dir := c19Dir(t)
	defer os.RemoveAll(dir)
	scheme := rapid.SampledFrom([]string{"file", "FILE", "File", "fIlE"}).Draw(t, "scheme")
	user := rapid.SampledFrom([]string{"", "", "", "", "u", "u:p", ":p"}).Draw(t, "user")
	host := rapid.SampledFrom([]string{"", "", "", "localhost", "LOCALHOST", "example.com", "127.0.0.1", "[::1]", "localhost.", "localhos"}).Draw(t, "host")
	port := rapid.SampledFrom([]string{"", "", "", "", "80", "0"}).Draw(t, "port")
	name := rapid.SampledFrom([]string{"a.log", "b c.log", "d%e.log", "x?y", "h#i", "sub/f.log", "ü.log", "p+q", "semi;colon", "a%2Fb", "q&r=s", "stdoutx", "a:b"}).Draw(t, "fileName")
	// (a query is a query however little a form parser makes of it: separators only, semicolons, bad escapes)
	query := rapid.SampledFrom([]string{"", "", "", "", "", "", "a=b", "x", "&", "a;b", "mode=append;perm=0600", "%zz", "rotate=%", "=", "&&"}).Draw(t, "query")
	frag := rapid.SampledFrom([]string{"", "", "", "", "frag"}).Draw(t, "fragment")
	os.MkdirAll(filepath.Join(dir, "sub"), 0o755)
	p := filepath.Join(dir, name)
	u := url.URL{Scheme: scheme, Path: p, RawQuery: query, Fragment: frag}
	if user != "" {
		parts := strings.SplitN(user, ":", 2)
		if len(parts) == 2 {
			u.User = url.UserPassword(parts[0], parts[1])
		} else {
			u.User = url.User(parts[0])
		}
	}
	u.Host = host
	if port != "" {
		u.Host = host + ":" + port
	}
	// one path, several spellings: a URL builder may escape more than it has to (url.PathEscape escapes ',' and
	// ';', others escape '.', '~' or letters, or write the hex digits in lower case); the path that is opened is the
	// DECODED one in every case
	spelling := rapid.SampledFrom([]string{"canonical", "canonical", "dot", "letter", "lowerhex", "all"}).Draw(t, "spelling")
	if esc := u.EscapedPath(); spelling != "canonical" {
		cut := strings.LastIndex(esc, "/") + 1
		head, tail := esc[:cut], esc[cut:]
		var sb strings.Builder
		for i := 0; i < len(tail); i++ {
			c := tail[i]
			switch {
			case c == '%' && i+2 < len(tail)+0 && (spelling == "lowerhex" || spelling == "all"):
				sb.WriteString(strings.ToLower(tail[i : i+3]))
				i += 2
			case c == '%':
				sb.WriteString(tail[i : i+3])
				i += 2
			case c == '.' && (spelling == "dot" || spelling == "all"):
				sb.WriteString("%2E")
			case (c >= 'a' && c <= 'z' || c == ';' || c == ',' || c == '+' || c == '&' || c == '=') && (spelling == "letter" || spelling == "all"):
				fmt.Fprintf(&sb, "%%%02X", c)
			default:
				sb.WriteByte(c)
			}
		}
		u.RawPath = head + sb.String()
		if u.EscapedPath() != u.RawPath {
			u.RawPath = "" // (not a valid spelling of the path after all)
		}
	}
	raw := u.String()
	if u.Host == "" && u.User == nil {
		// url.String omits "//" for an empty authority; write it out (file:///abs/path)
		raw = scheme + "://" + strings.TrimPrefix(raw, scheme+":")
	}
	disq := 0
	for _, b := range []bool{user != "", port != "", query != "", frag != "", !(host == "" || host == "localhost")} {
		if b {
			disq++
		}
	}
	wantOK := disq == 0
	fds := countFDs(dir)
	ws, closeFn, err := zap.Open(raw)
	if wantOK != (err == nil) {
		t.Fatalf("Open(%q): error=%v, by construction accept=%v (user=%q host=%q port=%q query=%q fragment=%q)", raw, err, wantOK, user, host, port, query, frag)
	}
	files := listFiles(dir)
	if err != nil {
		if len(files) != 0 {
			t.Fatalf("Open(%q) was rejected but created %v", raw, files)
		}
		if countFDs(dir) != fds {
			t.Fatalf("file descriptor leak on a rejected URL")
		}
	} else {
		if len(files) != 1 || files[0] != p {
			t.Fatalf("Open(%q) created %v, want exactly the decoded path %q", raw, files, p)
		}
		ws.Write([]byte("hello\n"))
		ws.Sync()
		closeFn()
		if b, _ := os.ReadFile(p); string(b) != "hello\n" {
			t.Fatalf("content of %q is %q", p, b)
		}
		if countFDs(dir) != fds {
			t.Fatalf("file descriptor leak after close")
		}
	}
	statCase("C19", disq == 1, fmt.Sprintf("url|%s|u%v h%s p%v q%v f%v|%s", scheme, user != "", host, port != "", query != "", frag != "", name), "file URL", fmt.Sprintf("disqualifying components=%d", disq))
}

// propC19Decoy: a file URL (or absolute path) names a file below a directory
// that does not exist at the file-system root, so opening exactly the decoded
// path must fail. The working directory is prepared with decoy directories for
// every path a sloppy decoder could turn the reference into (the path with its
// leading slash or leading components dropped, cleaned, or with an encoded
// slash decoded late), so that opening anything else than the decoded path
// would succeed and create a file there.
func propC19Decoy(t *rapid.T) {
	c19Mu.Lock()
	defer c19Mu.Unlock()
	dir := c19Dir(t)
	defer os.RemoveAll(dir)
	cwd, err := os.Getwd()
	if err != nil {
		t.Fatalf("VERIF-INCONCLUSIVE getwd: %v", err)
	}
	if err := os.Chdir(dir); err != nil {
		t.Fatalf("VERIF-INCONCLUSIVE chdir: %v", err)
	}
	defer os.Chdir(cwd)
	first := rapid.SampledFrom([]string{"c:", "C:", "z:", "c:", "verif-no-such-dir", "~", ".hidden-verif-nx", "file:", "localhost", "stdout-nx"}).Draw(t, "firstComponent")
	if _, err := os.Lstat("/" + first); err == nil {
		t.Skip("component exists at the root")
	}
	mid := rapid.SampledFrom([]string{"", "logs", "logs/app", "..", "a/.."}).Draw(t, "middle")
	name := rapid.SampledFrom([]string{"app.log", "stdout", "stderr", "x y.log", "p%q.log"}).Draw(t, "name")
	decoded := "/" + first + "/"
	if mid != "" {
		decoded += mid + "/"
	}
	decoded += name
	// decoys: every suffix of the component list, as a relative directory
	comps := strings.Split(strings.TrimPrefix(filepath.Dir(decoded), "/"), "/")
	for i := range comps {
		var keep []string
		for _, c := range comps[i:] {
			if c != ".." && c != "." && c != "" {
				keep = append(keep, c)
			}
		}
		if len(keep) > 0 {
			os.MkdirAll(filepath.Join(append([]string{dir}, keep...)...), 0o755)
		}
	}
	form := rapid.SampledFrom([]string{"file://", "file://localhost", "FILE://", "plain", "file:"}).Draw(t, "form")
	var raw string
	if form == "plain" {
		raw = decoded
	} else {
		u := url.URL{Path: decoded}
		raw = form + u.EscapedPath()
		if rapid.Bool().Draw(t, "encodeColon") {
			raw = strings.Replace(raw, ":/", "%3A/", 1)
			if !strings.Contains(raw, "%3A/") {
				raw = form + u.EscapedPath()
			}
		}
	}
	so, se := os.Stdout, os.Stderr
	fo, _ := os.Create(filepath.Join(dir, ".captured-stdout"))
	fe, _ := os.Create(filepath.Join(dir, ".captured-stderr"))
	os.Stdout, os.Stderr = fo, fe
	before := listFiles(dir)
	ws, closeFn, oerr := zap.Open(raw)
	if oerr == nil {
		ws.Write([]byte("decoy\n"))
		ws.Sync()
		closeFn()
	}
	os.Stdout, os.Stderr = so, se
	fo.Close()
	fe.Close()
	after := listFiles(dir)
	if len(after) != len(before) {
		t.Fatalf("Open(%q) must open exactly the decoded path %q (which cannot be created: /%s does not exist); instead it created %v below the working directory", raw, decoded, first, after)
	}
	for _, f := range []string{".captured-stdout", ".captured-stderr"} {
		if b, _ := os.ReadFile(filepath.Join(dir, f)); len(b) != 0 {
			t.Fatalf("Open(%q) wrote to the standard stream instead of the decoded path %q", raw, decoded)
		}
	}
	if oerr == nil {
		os.Remove(decoded)
		if c := filepath.Clean(decoded); filepath.Dir(c) == "/" {
			os.Remove(c) // a cleaned path may have landed at the root
		}
		t.Fatalf("Open(%q) succeeded although its decoded path %q cannot be created", raw, decoded)
	}
	statCase("C19", true, fmt.Sprintf("decoy|%s|%s|%s|%s", form, first, mid, name), "file reference with decoy directories")
}

// propC19Relative: relative plain paths and relative file references must open
// exactly the path as written (only the bare names stdout/stderr are special).
func propC19Relative(t *rapid.T) {
	c19Mu.Lock()
	defer c19Mu.Unlock()
	dir := c19Dir(t)
	defer os.RemoveAll(dir)
	cwd, err := os.Getwd()
	if err != nil {
		t.Fatalf("VERIF-INCONCLUSIVE getwd: %v", err)
	}
	if err := os.Chdir(dir); err != nil {
		t.Fatalf("VERIF-INCONCLUSIVE chdir: %v", err)
	}
	defer os.Chdir(cwd)
	os.MkdirAll(filepath.Join(dir, "sub", "deep"), 0o755)
	// capture the real standard streams in scratch files
	so, se := os.Stdout, os.Stderr
	fo, _ := os.Create(filepath.Join(dir, ".captured-stdout"))
	fe, _ := os.Create(filepath.Join(dir, ".captured-stderr"))
	os.Stdout, os.Stderr = fo, fe
	defer func() { os.Stdout, os.Stderr = so, se; fo.Close(); fe.Close() }()
	rel := rapid.SampledFrom([]string{"stdout", "stderr", "./stdout", "./stderr", "sub/../stdout", "sub/../stderr", "sub/stdout", "a.log", "./a.log", "sub/./b.log",
		"sub/deep/../c.log", "sub//d.log", "stdout.log", "x/../stderr", "sub/deep/../../stdout",
		"q.log?mode=1", "f.log#frag", "./q2.log?x=1&y=2", "sub/f2.log#f", "stdout?x=1", "stderr#f", "sub/q3.log?q"}).Draw(t, "relativePath")
	special := rel == "stdout" || rel == "stderr"
	ws, closeFn, oerr := zap.Open(rel)
	target := filepath.Join(dir, rel) // what the operating system resolves the relative path to
	if strings.ContainsAny(rel, "?#") {
		// a scheme-less string is a file URL like any other: with a query or a fragment it is not opened. Whatever
		// a reader makes of such a string, it never names the file obtained by DROPPING the query or fragment:
		// either nothing is opened, or exactly the string as written.
		if oerr == nil {
			ws.Write([]byte("relative\n"))
			ws.Sync()
			closeFn()
		}
		capOut, _ := os.ReadFile(filepath.Join(dir, ".captured-stdout"))
		capErr, _ := os.ReadFile(filepath.Join(dir, ".captured-stderr"))
		if len(capOut) != 0 || len(capErr) != 0 {
			t.Fatalf("Open(%q) (err=%v) wrote to a standard stream", rel, oerr)
		}
		for _, f := range listFiles(dir) {
			if base := filepath.Base(f); base == ".captured-stdout" || base == ".captured-stderr" {
				continue
			}
			if oerr != nil || f != target {
				t.Fatalf("Open(%q) (err=%v) created %q: a path with a query or fragment is rejected, never opened with that part dropped", rel, oerr, f)
			}
		}
		statCase("C19", true, "rel|"+rel, "relative path", "relative path with query or fragment")
		return
	}
	if strings.HasPrefix(rel, "x/") {
		// the directory x does not exist: the OS rejects x/../stderr
		if oerr == nil {
			closeFn()
			t.Fatalf("Open(%q) succeeded although the directory does not exist (the path must be opened as written)", rel)
		}
		statCase("C19", true, "rel|"+rel, "relative path")
		return
	}
	if oerr != nil {
		t.Fatalf("Open(%q): %v", rel, oerr)
	}
	ws.Write([]byte("relative\n"))
	ws.Sync()
	closeFn()
	capOut, _ := os.ReadFile(filepath.Join(dir, ".captured-stdout"))
	capErr, _ := os.ReadFile(filepath.Join(dir, ".captured-stderr"))
	if special {
		want := map[string][]byte{"stdout": capOut, "stderr": capErr}[rel]
		if string(want) != "relative\n" {
			t.Fatalf("Open(%q) did not write to the standard stream", rel)
		}
	} else {
		if len(capOut) != 0 || len(capErr) != 0 {
			t.Fatalf("Open(%q) wrote to a standard stream instead of the file %q", rel, target)
		}
		if b, err := os.ReadFile(target); err != nil || string(b) != "relative\n" {
			t.Fatalf("Open(%q): the file %q holds %q (%v): exactly the given path must be opened", rel, target, b, err)
		}
	}
	statCase("C19", !special, "rel|"+rel, "relative path")
}

// propC19Paths: plain relative / absolute paths and raw strings: invariants only.
func propC19Raw(t *rapid.T) {
	c19Mu.Lock()
	defer c19Mu.Unlock()
	dir := c19Dir(t)
	defer os.RemoveAll(dir)
	raw := rapid.OneOf(
		rapid.Map(genStr(), func(s string) string { return "file://" + dir + "/" + s }),
		rapid.Map(rapid.StringMatching(`[a-zA-Z0-9+.-]{0,6}:(//)?[a-z@:/?#%\[\]0-9]{0,12}`), func(s string) string { return s }),
		rapid.Map(rapid.StringMatching(`[a-z ]{1,8}`), func(s string) string { return dir + "/" + s }),
		rapid.SampledFrom([]string{"", ":", "://", "file:", "file://", "file:///", "%zz", "file://%zz", "FILE://localhost", "http://localhost/x", "\x00", "file://[::1"}),
	).Draw(t, "rawPath")
	// (inside the scratch directory, so that a string opened as a relative path shows)
	if cwd, err := os.Getwd(); err == nil && os.Chdir(dir) == nil {
		defer os.Chdir(cwd)
	}
	fds := countFDs(dir)
	var ws zapcore.WriteSyncer
	var closeFn func()
	var err error
	func() {
		defer func() {
			if p := recover(); p != nil {
				t.Fatalf("Open(%q) panicked: %v", raw, p)
			}
		}()
		ws, closeFn, err = zap.Open(raw)
	}()
	if err != nil {
		if ws != nil || closeFn != nil {
			t.Fatalf("failed Open(%q) returned non-nil results", raw)
		}
		if fs := listFiles(dir); len(fs) != 0 {
			t.Fatalf("failed Open(%q) created %v", raw, fs)
		}
	} else {
		closeFn()
		if u, perr := url.Parse(raw); perr == nil && u.Scheme != "" && !strings.EqualFold(u.Scheme, "file") {
			// served by a registered factory (none of this process's factories creates files)
			if fs := listFiles(dir); len(fs) != 0 {
				t.Fatalf("Open(%q) with the scheme %q created %v: only file URLs and scheme-less paths name files", raw, u.Scheme, fs)
			}
		}
	}
	if countFDs(dir) != fds {
		t.Fatalf("Open(%q): file descriptor leak (error=%v)", raw, err)
	}
	statCase("C19", err != nil, "raw|"+fmt.Sprint(err != nil)+"|"+fmt.Sprint(len(raw)/4), "raw path string")
}

// propC19StdLog: redirection is all-or-nothing under arbitrary prior settings.
func propC19StdLog(t *rapid.T) {
	c19Mu.Lock()
	defer c19Mu.Unlock()
	c13StdMu.Lock()
	defer c13StdMu.Unlock()
	origF, origP, origW := log.Flags(), log.Prefix(), log.Writer()
	defer func() { log.SetFlags(origF); log.SetPrefix(origP); log.SetOutput(origW) }()
	flags := rapid.IntRange(0, 127).Draw(t, "priorFlags")
	prefix := rapid.SampledFrom([]string{"", "pfx ", "[x] "}).Draw(t, "priorPrefix")
	prior := &memSink{}
	log.SetFlags(flags)
	log.SetPrefix(prefix)
	log.SetOutput(prior)
	var priorW io.Writer = prior
	if rapid.IntRange(0, 3).Draw(t, "priorWriterIsZaps") == 0 {
		// the application had pointed the standard logger at zap by hand (NewStdLog's writer) and kept its own flags and
		// prefix: settings like any other
		priorW = zap.NewStdLog(zap.New(zapcore.NewCore(zapcore.NewJSONEncoder(zapcore.EncoderConfig{MessageKey: "m"}), prior, zapcore.DebugLevel))).Writer()
		log.SetOutput(priorW)
	}
	sink := &memSink{}
	lg := zap.New(zapcore.NewCore(zapcore.NewJSONEncoder(zapcore.EncoderConfig{MessageKey: "m", LevelKey: "l", EncodeLevel: zapcore.LowercaseLevelEncoder}), sink, zapcore.DebugLevel),
		zap.WithFatalHook(countHook{new(int64)}), zap.WithPanicHook(countHook{new(int64)}))
	lvl := zapcore.Level(rapid.OneOf(rapid.Int8Range(-1, 5), rapid.SampledFrom([]int8{-2, 6, 7, 99, -128, 127})).Draw(t, "level"))
	valid := lvl >= zapcore.DebugLevel && lvl <= zapcore.FatalLevel
	useAt := rapid.Bool().Draw(t, "useRedirectStdLogAt")
	var undo func()
	var err error
	if useAt {
		undo, err = zap.RedirectStdLogAt(lg, lvl)
	} else {
		undo, valid, lvl = zap.RedirectStdLog(lg), true, zapcore.InfoLevel
	}
	if (err == nil) != valid {
		t.Fatalf("RedirectStdLogAt(level %d): error=%v, want success=%v", lvl, err, valid)
	}
	if err != nil {
		if undo != nil {
			t.Fatalf("failed redirection returned a restore function")
		}
		if log.Flags() != flags || log.Prefix() != prefix || log.Writer() != priorW {
			t.Fatalf("failed RedirectStdLogAt(level %d) changed the standard logger: flags %d->%d prefix %q->%q writer changed=%v", lvl, flags, log.Flags(), prefix, log.Prefix(), log.Writer() != priorW)
		}
		log.Print("still prior")
		if len(prior.writes) != 1 || len(sink.writes) != 0 {
			t.Fatalf("after a failed redirection output went elsewhere")
		}
	} else {
		log.Print("redirected")
		if len(sink.writes) != 1 || !strings.Contains(string(sink.writes[0]), fmt.Sprintf(`"l":%q,"m":"redirected"`, lvl.String())) || len(prior.writes) != 0 {
			t.Fatalf("redirected output: zap sink %q, prior writer %q", sink.all(), prior.all())
		}
		// redirections nest (a library redirects while the application already has): undone innermost first, with
		// failed attempts in between, the standard logger ends up with the settings it started with
		depth := rapid.IntRange(0, 3).Draw(t, "nestedRedirections")
		var inner []func()
		for i := 0; i < depth; i++ {
			switch rapid.IntRange(0, 2).Draw(t, "nestedKind") {
			case 0:
				inner = append(inner, zap.RedirectStdLog(lg))
			case 1:
				if u, e := zap.RedirectStdLogAt(lg, zapcore.WarnLevel); e == nil {
					inner = append(inner, u)
				}
			default:
				if _, e := zap.RedirectStdLogAt(lg, zapcore.Level(99)); e == nil {
					t.Fatalf("RedirectStdLogAt accepted level 99")
				}
			}
		}
		for i := len(inner) - 1; i >= 0; i-- {
			inner[i]()
		}
		undo()
		if log.Flags() != flags || log.Prefix() != prefix {
			t.Fatalf("restore function did not restore flags/prefix: %d/%q, want %d/%q (after %d nested redirections undone innermost first)", log.Flags(), log.Prefix(), flags, prefix, len(inner))
		}
	}
	statCase("C19", !valid || flags != 0, fmt.Sprintf("stdlog|%v|%v|%d|%q", valid, useAt, flags, prefix), "std-log redirection")
}

// propC19Registry: scheme and encoder name registration.
var c19RegCounter int

// c19Short: the one- and two-character scheme names registered by this process, with their factories' call counts.
var c19Short = map[string]*int{}

func propC19Registry(t *rapid.T) {
	c19Mu.Lock()
	defer c19Mu.Unlock()
	ctlRegister(t)
	c19RegCounter++
	uniq := fmt.Sprintf("r%dx%dz", os.Getpid(), c19RegCounter)
	kind := rapid.SampledFrom([]string{"valid", "valid-upper", "empty", "digit-first", "illegal", "nonascii", "duplicate", "duplicate-case", "one-letter", "two-letters"}).Draw(t, "nameKind")
	var name, short string
	wantOK := false
	switch kind {
	case "valid":
		name, wantOK = "ok"+uniq+rapid.SampledFrom([]string{"", "+x", "-y", ".z", "0"}).Draw(t, "suffix"), true
	case "valid-upper":
		name, wantOK = "OK"+strings.ToUpper(uniq), true
	case "empty":
		name = ""
	case "digit-first":
		name = "1" + uniq
	case "illegal":
		name = "a" + uniq + rapid.SampledFrom([]string{"_", " ", "/", ":", "%", "\x00", "*", "\n"}).Draw(t, "illegalChar")
	case "nonascii":
		name = rapid.SampledFrom([]string{"\u212a" + uniq, "\u017f" + uniq, "a" + uniq + "\u00e9", "\u0130" + uniq, "a" + uniq + "\xff", "a\u212a" + uniq}).Draw(t, "nonASCII")
	case "one-letter", "two-letters":
		// the shortest legal names (a letter; a letter and one of letter/digit/+/-/.): there are few of them and
		// the registry lasts as long as the process, so a repeat is a duplicate served by its first factory
		name = rapid.StringMatching(`[a-zA-Z]`).Draw(t, "letter")
		if kind == "two-letters" {
			name += rapid.StringMatching(`[a-z0-9+.-]`).Draw(t, "second")
		}
		short = strings.ToLower(name)
		wantOK = c19Short[short] == nil
	case "duplicate":
		name = ctlScheme
	case "duplicate-case":
		name = strings.ToUpper(ctlScheme)
	}
	made := 0
	factory := func(u *url.URL) (zap.Sink, error) { made++; return &ctlSink{name: "new"}, nil }
	if short != "" && wantOK {
		cnt := new(int)
		c19Short[short] = cnt
		factory = func(u *url.URL) (zap.Sink, error) { made++; *cnt++; return &ctlSink{name: "new"}, nil }
	}
	err := zap.RegisterSink(name, factory)
	if (err == nil) != wantOK {
		t.Fatalf("RegisterSink(%q) error=%v, want success=%v", name, err, wantOK)
	}
	if short != "" && !wantOK {
		// registered by an earlier case of this process: still served by THAT factory, in either case
		before := *c19Short[short]
		for _, sch := range []string{short, strings.ToUpper(short)} {
			_, closeFn, oerr := zap.Open(sch + "://host/p")
			if oerr != nil {
				t.Fatalf("scheme %q, registered earlier as %q, is not usable: %v", sch, short, oerr)
			}
			closeFn()
		}
		if got := *c19Short[short] - before; got != 2 || made != 0 {
			t.Fatalf("scheme %q registered earlier: its factory ran %d times for two Open calls (the rejected factory %d times)", short, got, made)
		}
		statCase("C19", true, "registry|"+kind+"|again", "registry "+kind)
		return
	}
	if wantOK {
		// visible immediately, case-insensitively
		for _, sch := range []string{strings.ToLower(name), strings.ToUpper(name)} {
			_, closeFn, oerr := zap.Open(sch + "://host/p")
			if oerr != nil {
				t.Fatalf("scheme %q registered as %q is not usable: %v", sch, name, oerr)
			}
			closeFn()
		}
		if made != 2 {
			t.Fatalf("factory ran %d times", made)
		}
		// registering it again (any case) must fail and keep the first factory
		if err := zap.RegisterSink(strings.ToUpper(name), func(*url.URL) (zap.Sink, error) { return nil, errors.New("second") }); err == nil {
			t.Fatalf("RegisterSink(%q) succeeded twice", name)
		}
		if _, c, oerr := zap.Open(strings.ToLower(name) + "://h/p"); oerr != nil {
			t.Fatalf("after a rejected re-registration the scheme is broken: %v", oerr)
		} else {
			c()
		}
	} else {
		// the registry is unchanged: the previously registered factory still
		// serves its scheme, a malformed name stays unknown to Open
		ctlMu.Lock()
		ctlOpened = nil
		ctlMu.Unlock()
		_, c, oerr := zap.Open(ctlScheme + "://ok/still")
		if oerr != nil || len(ctlOpened) != 1 || made != 0 {
			t.Fatalf("after the rejected RegisterSink(%q) the control scheme is served by a different factory (err %v, opened %d, new factory calls %d)", name, oerr, len(ctlOpened), made)
		}
		c()
		for _, sch := range []string{name, strings.ToLower(name)} {
			if sch == "" || strings.EqualFold(sch, ctlScheme) {
				continue
			}
			if _, c2, e2 := zap.Open(sch + "://h/p"); e2 == nil {
				c2()
				if made > 0 {
					t.Fatalf("rejected scheme name %q is nevertheless served by the new factory", name)
				}
			}
		}
	}
	// encoder registry
	encName := rapid.SampledFrom([]string{"", "json", "console", "enc" + uniq, "JSON" + uniq, "JSON", "Json", "CONSOLE", "Console", "enc" + uniq + "X"}).Draw(t, "encoderName")
	// encoder names are case-sensitive: a case variant of a built-in name is a NEW name (registrable once per process)
	encOK := encName != "" && encName != "json" && encName != "console" && !c19EncRegistered[encName]
	ctor := func(zapcore.EncoderConfig) (zapcore.Encoder, error) {
		return zapcore.NewJSONEncoder(zapcore.EncoderConfig{MessageKey: "custom"}), nil
	}
	eerr := zap.RegisterEncoder(encName, ctor)
	if (eerr == nil) != encOK {
		t.Fatalf("RegisterEncoder(%q) error=%v, want success=%v", encName, eerr, encOK)
	}
	if eerr == nil {
		c19EncRegistered[encName] = true
	}
	// whatever happened, the built-in encoders are still the built-in ones
	for _, builtin := range []string{"json", "console"} {
		bc := zap.NewProductionConfig()
		bc.Encoding = builtin
		bc.OutputPaths, bc.ErrorOutputPaths, bc.Sampling = []string{ctlScheme + "://ok/out-builtin"}, nil, nil
		ctlMu.Lock()
		ctlOpened = nil
		ctlMu.Unlock()
		blg, berr := bc.Build()
		if berr != nil {
			t.Fatalf("Build with the built-in %s encoder after RegisterEncoder(%q): %v", builtin, encName, berr)
		}
		blg.Info("x")
		if len(ctlOpened) != 1 || strings.Contains(string(ctlOpened[0].data), `"custom":"x"`) || !strings.Contains(string(ctlOpened[0].data), "x") {
			t.Fatalf("after RegisterEncoder(%q) the built-in %q encoder is served by another constructor: %q", encName, builtin, ctlOpened[0].data)
		}
	}
	cfg := zap.NewProductionConfig()
	cfg.OutputPaths, cfg.ErrorOutputPaths, cfg.Sampling = []string{ctlScheme + "://ok/out-enc"}, nil, nil
	ctlMu.Lock()
	ctlOpened = nil
	ctlMu.Unlock()
	if encOK {
		cfg.Encoding = encName
		lg, berr := cfg.Build()
		if berr != nil {
			t.Fatalf("Build with the freshly registered encoder %q: %v", encName, berr)
		}
		lg.Info("x")
		if len(ctlOpened) != 1 || !strings.Contains(string(ctlOpened[0].data), `"custom":"x"`) {
			t.Fatalf("registered encoder %q not used", encName)
		}
		if zap.RegisterEncoder(encName, ctor) == nil {
			t.Fatalf("RegisterEncoder(%q) succeeded twice", encName)
		}
	} else if encName == "json" {
		cfg.Encoding = "json"
		lg, berr := cfg.Build()
		if berr != nil {
			t.Fatalf("built-in json encoder broken after a rejected registration: %v", berr)
		}
		lg.Info("x")
		if len(ctlOpened) != 1 || !strings.Contains(string(ctlOpened[0].data), `"msg":"x"`) {
			t.Fatalf("the rejected RegisterEncoder(\"json\") replaced the built-in encoder: %q", ctlOpened[0].data)
		}
	}
	if rapid.IntRange(0, 7).Draw(t, "constructorPanics") == 0 {
		// an encoder constructor is user code: if it panics during Build (the caller recovers), the registry is as
		// usable afterwards as it was before - for registrations and for other Builds
		pname := "panics" + uniq
		if err := zap.RegisterEncoder(pname, func(zapcore.EncoderConfig) (zapcore.Encoder, error) { panic("constructor panics") }); err != nil {
			t.Fatalf("RegisterEncoder(%q): %v", pname, err)
		}
		pc := zap.NewProductionConfig()
		pc.Encoding, pc.OutputPaths, pc.ErrorOutputPaths, pc.Sampling = pname, []string{ctlScheme + "://ok/out-panics"}, nil, nil
		func() {
			defer func() { _ = recover() }()
			_, _ = pc.Build()
		}()
		c19Watchdog(t, "RegisterEncoder after an encoder constructor panicked during Build", pname, func() {
			if err := zap.RegisterEncoder("after"+pname, ctor); err != nil {
				t.Fatalf("RegisterEncoder after a constructor panic: %v", err)
			}
		})
		c19Watchdog(t, "Build after an encoder constructor panicked during an earlier Build", pname, func() {
			bc := zap.NewProductionConfig()
			bc.OutputPaths, bc.ErrorOutputPaths, bc.Sampling = []string{ctlScheme + "://ok/out-after-panic"}, nil, nil
			if _, err := bc.Build(); err != nil {
				t.Fatalf("Build after a constructor panic: %v", err)
			}
		})
	}
	statCase("C19", !wantOK, "registry|"+kind+"|"+fmt.Sprint(encOK), "registry "+kind)
}

func TestC19Open(t *testing.T)     { rapid.Check(t, propC19Open) }
func TestC19URL(t *testing.T)      { rapid.Check(t, propC19URL) }
func TestC19Raw(t *testing.T)      { rapid.Check(t, propC19Raw) }
func TestC19Relative(t *testing.T) { rapid.Check(t, propC19Relative) }
func TestC19Decoy(t *testing.T)    { rapid.Check(t, propC19Decoy) }
func TestC19StdLog(t *testing.T)   { rapid.Check(t, propC19StdLog) }
func TestC19Registry(t *testing.T) { rapid.Check(t, propC19Registry) }

func FuzzC19(f *testing.F) {
	for _, s := range []string{"file:///tmp/x", "stdout", "file://localhost/x?y", "FILE://user@host:80/p#f", "%zz", "a b"} {
		f.Add(s)
	}
	f.Fuzz(func(t *testing.T, raw string) {
		if filepath.IsAbs(raw) || raw == "" || !strings.Contains(raw, ":") {
			return // would create files at arbitrary relative/absolute locations
		}
		if u, err := url.Parse(raw); err == nil && (u.Scheme == "file" || u.Scheme == "") {
			return
		}
		// descriptors on regular files, by number and target: the fuzz worker's own pipes, epoll descriptors and
		// files closed by finalizers come and go between two counts and say nothing about zap (DESIGN 9.4)
		fds := fileFDs()
		ws, closeFn, err := zap.Open(raw)
		if err == nil {
			closeFn()
		} else if ws != nil || closeFn != nil {
			t.Fatalf("failed Open(%q) returned results", raw)
		}
		cwd, _ := os.Getwd()
		for fd, target := range fileFDs() {
			// (inputs that reach this point are neither absolute paths nor file URLs: whatever zap could open for them
			// is relative to the working directory. Descriptors elsewhere - /sys, the module cache - belong to other
			// goroutines of the fuzz worker and come and go on their own.)
			if fds[fd] != target && cwd != "" && strings.HasPrefix(target, cwd+"/") {
				t.Fatalf("fd leak for %q: descriptor %s -> %s is open after Open returned (err=%v) and was closed", raw, fd, target, err)
			}
		}
	})
}

func TestRegressC19(t *testing.T) {
	c19Mu.Lock()
	defer c19Mu.Unlock()
	ctlRegister(t)
	// F14: an invalid level must leave the std logger untouched
	f0, p0 := log.Flags(), log.Prefix()
	log.SetFlags(log.Lshortfile)
	log.SetPrefix("p ")
	if _, err := zap.RedirectStdLogAt(zap.NewNop(), zapcore.Level(99)); err == nil {
		t.Fatalf("RedirectStdLogAt accepted level 99")
	}
	if log.Flags() != log.Lshortfile || log.Prefix() != "p " {
		t.Fatalf("failed RedirectStdLogAt changed flags/prefix to %d/%q", log.Flags(), log.Prefix())
	}
	log.SetFlags(f0)
	log.SetPrefix(p0)
	// F15: missing level must not leak opened sinks
	ctlOpened = nil
	cfg := zap.NewProductionConfig()
	cfg.Level = zap.AtomicLevel{}
	cfg.OutputPaths = []string{ctlScheme + "://ok/out"}
	cfg.ErrorOutputPaths = []string{ctlScheme + "://ok/err"}
	if _, err := cfg.Build(); err == nil {
		t.Fatalf("Build without a level succeeded")
	}
	for _, s := range ctlOpened {
		if s.closes != 1 {
			t.Fatalf("sink %s leaked (closes=%d)", s.name, s.closes)
		}
	}
	// F16: Kelvin sign must not register "kafka..."
	if err := zap.RegisterSink("\u212axv"+fmt.Sprint(os.Getpid()), func(*url.URL) (zap.Sink, error) { return nil, nil }); err == nil {
		t.Fatalf("RegisterSink accepted a non-ASCII scheme")
	}
}

// The configurations zap hands out are the caller's: editing one in place (an element assignment, or decoding a
// file over a preset, which reuses the backing arrays) changes neither the configuration's other path list nor
// any other preset, earlier or later - a logger built from an untouched preset writes where that preset says.
func TestRegressC19Presets(t *testing.T) {
	presets := map[string]func() zap.Config{"NewProductionConfig": zap.NewProductionConfig, "NewDevelopmentConfig": zap.NewDevelopmentConfig}
	for name, mk := range presets {
		for _, other := range []string{"NewProductionConfig", "NewDevelopmentConfig"} {
			held := presets[other]() // somebody else's configuration, obtained earlier
			cfg := mk()
			cfg.OutputPaths[0] = "/nonexistent-dir/edited.log"
			if len(cfg.ErrorOutputPaths) != 1 || cfg.ErrorOutputPaths[0] != "stderr" {
				t.Fatalf("%s: assigning OutputPaths[0] changed ErrorOutputPaths to %q", name, cfg.ErrorOutputPaths)
			}
			cfg2 := mk()
			if err := json.Unmarshal([]byte(`{"outputPaths":["/nonexistent-dir/decoded.log"],"errorOutputPaths":["/nonexistent-dir/decoded.err"],"initialFields":{"a":1}}`), &cfg2); err != nil {
				t.Fatalf("decoding over %s: %v", name, err)
			}
			for who, c := range map[string]zap.Config{"a configuration obtained earlier from " + other: held, "a fresh " + other: presets[other]()} {
				if len(c.OutputPaths) != 1 || c.OutputPaths[0] != "stderr" || len(c.ErrorOutputPaths) != 1 || c.ErrorOutputPaths[0] != "stderr" {
					t.Fatalf("editing one %s in place changed %s: OutputPaths %q ErrorOutputPaths %q", name, who, c.OutputPaths, c.ErrorOutputPaths)
				}
				if len(c.InitialFields) != 0 {
					t.Fatalf("editing one %s in place changed %s: InitialFields %v", name, who, c.InitialFields)
				}
			}
			// the encoder configuration is a value as well
			cfg.EncoderConfig.MessageKey = "edited"
			if k := mk().EncoderConfig.MessageKey; k == "edited" {
				t.Fatalf("%s: presets share their EncoderConfig", name)
			}
		}
	}
}

// Registration is atomic: of several goroutines registering the same new scheme at the same moment (in different
// spellings - schemes are matched case-insensitively) exactly one succeeds, and the factory that was accepted is
// the one that opens sinks of that scheme afterwards.
func TestRegressC19ConcurrentRegister(t *testing.T) {
	c19Mu.Lock()
	defer c19Mu.Unlock()
	const workers = 8
	for trial := 0; trial < 400; trial++ {
		scheme := fmt.Sprintf("vcr%dx%d", os.Getpid(), trial)
		var done sync.WaitGroup
		var ready atomic.Int32 // spin barrier: the goroutines enter RegisterSink within nanoseconds of each other
		errs := make([]error, workers)
		for g := 0; g < workers; g++ {
			done.Add(1)
			go func(g int) {
				defer done.Done()
				name := scheme
				if g%2 == 1 {
					name = strings.ToUpper(scheme)
				}
				ready.Add(1)
				for ready.Load() < workers {
				}
				errs[g] = zap.RegisterSink(name, func(*url.URL) (zap.Sink, error) {
					return nil, fmt.Errorf("factory-of-goroutine-%d", g)
				})
			}(g)
		}
		done.Wait()
		winner, ok := -1, 0
		for g, e := range errs {
			if e == nil {
				ok++
				winner = g
			}
		}
		if ok != 1 {
			t.Fatalf("trial %d: %d of %d concurrent registrations of scheme %q succeeded, want exactly 1", trial, ok, workers, scheme)
		}
		_, _, err := zap.Open(scheme + "://x")
		if err == nil || !strings.Contains(err.Error(), fmt.Sprintf("factory-of-goroutine-%d", winner)) {
			t.Fatalf("trial %d: the registration of goroutine %d was accepted, but opening the scheme reports %v", trial, winner, err)
		}
	}
	statCase("C19", true, "concurrent-register", "concurrent registration of one scheme")
}
