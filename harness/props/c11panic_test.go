package props

import (
	"fmt"
	"testing"
	"time"

	"go.uber.org/zap/zapcore"
	"go.uber.org/zap/zaptest/observer"
	"pgregory.net/rapid"
)

// propC11HookPanic: the sampler's decision hook is user code. If it panics for one entry (the caller recovers and
// carries on), the entries that follow are sampled as the statement says: whether or not the aborted entry counts
// against its window's budget is left open, but a NEW window starts with a new budget - the first N-1 entries after an
// aborted entry that opened the window are admitted in any case.
func propC11HookPanic(t *rapid.T) {
	first := rapid.IntRange(2, 5).Draw(t, "first")
	thereafter := rapid.SampledFrom([]int{0, 0, 2, 3, 100}).Draw(t, "thereafter")
	fill := first + rapid.IntRange(0, 6).Draw(t, "extraInOldWindow")
	tick := time.Second
	core, _ := observer.New(zapcore.DebugLevel)
	armed := false
	var decisions []zapcore.SamplingDecision
	s := zapcore.NewSamplerWithOptions(core, tick, first, thereafter, zapcore.SamplerHook(func(_ zapcore.Entry, d zapcore.SamplingDecision) {
		if armed {
			panic("the sampling hook panics")
		}
		decisions = append(decisions, d)
	}))
	if rapid.Bool().Draw(t, "viaDerived") {
		s = s.With([]zapcore.Field{})
	}
	t0 := time.Unix(1559347200, 0)
	ent := func(ts time.Time) zapcore.Entry {
		return zapcore.Entry{Level: zapcore.InfoLevel, Message: "same message", Time: ts}
	}
	for i := 0; i < fill; i++ {
		_ = s.Check(ent(t0), nil)
	}
	when := rapid.SampledFrom([]string{"opens the next window", "opens the next window", "inside the old window"}).Draw(t, "abortedEntry")
	t1 := t0.Add(tick)
	abortedAt := t1
	if when == "inside the old window" {
		abortedAt = t0.Add(tick / 2)
	}
	armed = true
	func() {
		defer func() {
			if recover() == nil {
				t.Fatalf("the hook's panic did not reach the caller")
			}
		}()
		_ = s.Check(ent(abortedAt), nil)
	}()
	armed = false
	decisions = nil
	for i := 0; i < first-1; i++ {
		ce := s.Check(ent(t1.Add(time.Duration(i+1))), nil)
		if ce == nil || len(decisions) != i+1 || decisions[i] != zapcore.LogSampled {
			t.Fatalf("entry %d of a new window was not admitted (first=%d thereafter=%d; the old window had seen %d entries; an entry that %s had ended in the hook's panic): admitted=%v, decisions %v", i+1, first, thereafter, fill, when, ce != nil, decisions)
		}
	}
	statCase("C11", true, fmt.Sprintf("hookpanic|%d|%d|%d|%s", first, thereafter, fill, when), "sampler hook panics for one entry")
}

func TestC11HookPanic(t *testing.T) { rapid.Check(t, propC11HookPanic) }
