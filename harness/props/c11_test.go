package props

// C11 — the sampler admits the first N then every Mth entry per level and message per tick.

import (
	"fmt"
	"hash/fnv"
	"net/url"
	"runtime"
	"strings"
	"sync"
	"sync/atomic"
	"testing"
	"time"

	"go.uber.org/zap"
	"go.uber.org/zap/zapcore"
	"go.uber.org/zap/zaptest/observer"
	"pgregory.net/rapid"
)

// refBucket is the documented bucket: FNV-1a (32 bit) of the message modulo
// 4096, computed with the standard library (independent of zap's inlined FNV).
func refBucket(msg string) uint32 {
	h := fnv.New32a()
	h.Write([]byte(msg))
	return h.Sum32() % 4096
}

// c11Messages: a small alphabet with pre-computed colliding pairs.
var c11Messages = func() []string {
	long := "connection to upstream service timed out after the configured deadline; retrying with backoff #"
	msgs := []string{"a", "b", "", "request failed", "\xff", "request failed: A", "request failed: B", long + "1", long + "2", "x" + long, "y" + long,
		// non-ASCII and invalid UTF-8: the key is the message's BYTES ("\xff" and "\xfe" are different messages)
		// long messages that differ only after a long common prefix (the key is the WHOLE message)
		strings.Repeat("p", 255) + "A", strings.Repeat("p", 255) + "B", strings.Repeat("q", 300) + "1", strings.Repeat("q", 300) + "2",
		strings.Repeat("long prefix ", 500) + "x", strings.Repeat("long prefix ", 500) + "y", strings.Repeat("r", 70000) + "a", strings.Repeat("r", 70000) + "b",
		"\xfe", "\xff\xfe", "\xfe\xff", "é", "ü", "日本語", "日本誤", "e\u0301", "\xc3\x28", "\xed\xa0\x80"}
	seen := map[uint32]string{}
	for _, m := range msgs {
		seen[refBucket(m)] = m
	}
	found := 0
	for i := 0; found < 3; i++ {
		s := fmt.Sprintf("msg-%d", i)
		if prev, ok := seen[refBucket(s)]; ok && prev != s {
			msgs = append(msgs, s) // collides with an earlier message
			if len(prev) > 4 && prev[:4] == "msg-" {
				msgs = append(msgs, prev)
			}
			found++
		} else {
			seen[refBucket(s)] = s
		}
	}
	// colliding pairs among non-ASCII messages (a hash over runes instead of bytes separates them)
	found = 0
	for i := 0; found < 3; i++ {
		s := fmt.Sprintf("сообщение-é-%d", i)
		if prev, ok := seen[refBucket(s)]; ok && prev != s {
			if strings.HasPrefix(prev, "сообщение") {
				msgs = append(msgs, s, prev)
				found++
			}
		} else {
			seen[refBucket(s)] = s
		}
	}
	return msgs
}()

type c11Key struct {
	lvl    zapcore.Level
	bucket uint32
}

type c11Window struct {
	end   int64
	count uint64
}

type c11Model struct {
	n, m uint64
	tick int64
	th   zapcore.Level
	tab  map[c11Key]*c11Window
}

// decide returns (forwarded to the wrapped core, hook expected, decision sampled).
func (md *c11Model) decide(lvl zapcore.Level, msg string, ts int64) (forward, hook, sampled bool) {
	if lvl < md.th {
		return false, false, false // disabled: no budget, no hook
	}
	if lvl < zapcore.DebugLevel || lvl > zapcore.FatalLevel {
		return true, false, false // out of range: passes unsampled
	}
	k := c11Key{lvl, refBucket(msg)}
	w := md.tab[k]
	if w == nil {
		w = &c11Window{}
		md.tab[k] = w
	}
	if ts >= w.end {
		w.end = ts + md.tick
		w.count = 0
	}
	w.count++
	ok := w.count <= md.n || (md.m > 0 && (w.count-md.n)%md.m == 0)
	return ok, true, ok
}

type c11Dec struct {
	msg string
	lvl zapcore.Level
	d   zapcore.SamplingDecision
}

func propC11Sequential(t *rapid.T) {
	n := rapid.OneOf(rapid.IntRange(0, 6), rapid.SampledFrom([]int{100, 1 << 30})).Draw(t, "first")
	m := rapid.OneOf(rapid.IntRange(0, 6), rapid.SampledFrom([]int{100, 1 << 30})).Draw(t, "thereafter")
	tick := rapid.OneOf(rapid.Int64Range(1, 10), rapid.SampledFrom([]int64{1, 1000, int64(time.Second), int64(10 * time.Second)})).Draw(t, "tick")
	th := zapcore.Level(rapid.SampledFrom([]int8{-128, -2, -1, 0, 1, 2, 5, 6}).Draw(t, "wrappedThreshold"))
	thv := th
	core, logs := observer.New(zap.LevelEnablerFunc(func(l zapcore.Level) bool { return l >= thv }))
	var hooks []c11Dec
	// what the sampler wraps may itself be a tee (a slice-typed core: not comparable with ==) of the observed core
	// and a second destination with the same threshold
	var wrapped zapcore.Core = core
	if rapid.IntRange(0, 2).Draw(t, "wrappedIsTee") == 0 {
		second, _ := observer.New(zap.LevelEnablerFunc(func(l zapcore.Level) bool { return l >= thv }))
		wrapped = zapcore.NewTee(core, second)
	}
	mk := func() zapcore.Core {
		return zapcore.NewSamplerWithOptions(wrapped, time.Duration(tick), n, m, zapcore.SamplerHook(func(e zapcore.Entry, d zapcore.SamplingDecision) {
			hooks = append(hooks, c11Dec{e.Message, e.Level, d})
		}))
	}
	s := mk()
	derived := []zapcore.Core{s, s.With([]zapcore.Field{zap.Int("x", 1)})}
	derived = append(derived, derived[1].With([]zapcore.Field{zap.Int("y", 2)}))
	// the same sampler behind wrappers and inside a tee after a sibling that accepts everything: still ONE decision
	// (and one hook call) per entry, against the same budget
	sibling, siblingLogs := observer.New(zapcore.Level(-128))
	nopHook := func(zapcore.Entry) error { return nil }
	derived = append(derived,
		zapcore.RegisterHooks(s, nopHook),
		zapcore.NewTee(sibling, zapcore.RegisterHooks(s, nopHook)),
		zapcore.NewTee(sibling, s),
		zapcore.NewTee(sibling, zapcore.NewLazyWith(derived[1], []zapcore.Field{zap.Int("z", 3)})),
	)
	firstTee := len(derived) - 3 // the last three are tees with the all-accepting sibling in front
	other := mk()                // an independent sampler: own budget
	models := []*c11Model{
		{uint64(n), uint64(m), tick, th, map[c11Key]*c11Window{}},
		{uint64(n), uint64(m), tick, th, map[c11Key]*c11Window{}},
	}
	// the epoch of the entries' stamps has nothing to do with the clock of the process that samples them (replayed
	// batches, simulated time, hosts with a wrong date): 1970, 2019, 2200
	clock := rapid.SampledFrom([]int64{0, 0, 1559347200e9, 7258118400e9}).Draw(t, "stampEpoch") + rapid.Int64Range(0, 5).Draw(t, "t0")
	straggler := false
	// the wrapped core's level may be dynamic (an AtomicLevel behind Config.Build): in a third of the histories the
	// threshold moves AFTER the samplers were built - the budget of a (level, message) pair must not depend on which
	// levels happened to be enabled at construction, and entries disabled at the moment of the call consume nothing
	dynamicTh := rapid.IntRange(0, 2).Draw(t, "dynamicThreshold") == 0
	thMoved := false
	cnt := rapid.IntRange(1, 60).Draw(t, "entries")
	boundary, dropped, thereafterAdmit, collided := false, false, false, false
	usedMsgs := map[uint32]map[string]bool{}
	for i := 0; i < cnt; i++ {
		dt := rapid.SampledFrom([]int64{0, 0, 1, tick - 1, tick, tick + 1, 2, 3, tick / 2}).Draw(t, "dt")
		if dt < 0 {
			dt = 0
		}
		clock += dt
		// entries may carry stamps that lag behind the clock (delivered late, stamped on another host): windows only
		// ever move forward, so a straggler counts in the window that is open for its key
		now := clock
		if late := rapid.SampledFrom([]int64{0, 0, 0, 0, 0, 1, tick / 2, tick, tick + 1, 3*tick + 1}).Draw(t, "stampLag"); late > 0 && now-late >= 0 {
			now -= late
			straggler = true
		}
		if dynamicTh && rapid.IntRange(0, 5).Draw(t, "moveThreshold") == 0 {
			thv = zapcore.Level(rapid.SampledFrom([]int8{-128, -2, -1, -1, 0, 1, 2, 5}).Draw(t, "newThreshold"))
			th = thv
			for _, md := range models {
				md.th = thv
			}
			thMoved = true
		}
		lvl := zapcore.Level(rapid.SampledFrom([]int8{-2, -1, 0, 0, 1, 2, 5, 6, 100, 0, 0}).Draw(t, "level"))
		msg := rapid.SampledFrom(c11Messages).Draw(t, "msg")
		which := 0
		isTee := false
		var c zapcore.Core
		if rapid.IntRange(0, 5).Draw(t, "useOther") == 0 {
			which, c = 1, other
		} else {
			di := rapid.IntRange(0, len(derived)-1).Draw(t, "derived")
			c, isTee = derived[di], di >= firstTee
		}
		md := models[which]
		// classification helpers (before deciding)
		if w := md.tab[c11Key{lvl, refBucket(msg)}]; w != nil && w.end == now && lvl >= th {
			boundary = true
		}
		forward, hook, sampled := md.decide(lvl, msg, now)
		if hook {
			b := refBucket(msg)
			if usedMsgs[b] == nil {
				usedMsgs[b] = map[string]bool{}
			}
			usedMsgs[b][msg] = true
			if len(usedMsgs[b]) > 1 {
				collided = true
			}
			if !sampled {
				dropped = true
			} else if w := md.tab[c11Key{lvl, refBucket(msg)}]; w.count > md.n {
				thereafterAdmit = true
			}
		}
		// only level and message select the counter, only the time selects the window: the logger's name, the
		// caller and the stack of an entry are irrelevant to the decision
		ent := zapcore.Entry{Level: lvl, Message: msg, Time: time.Unix(0, now), LoggerName: rapid.SampledFrom([]string{"", "", "db", "api.v1"}).Draw(t, "loggerName")}
		if ent.LoggerName == "db" {
			ent.Caller = zapcore.NewEntryCaller(0, "f.go", len(msg), true)
			ent.Stack = "stack"
		}
		before, hb := logs.Len(), len(hooks)
		sibBefore := siblingLogs.Len()
		if ce := c.Check(ent, nil); ce != nil {
			ce.Write()
		}
		if isTee && siblingLogs.Len()-sibBefore != 1 {
			// the sampler's verdict concerns its own wrapped core only: a sibling branch that accepted the entry keeps it
			t.Fatalf("a tee branch BESIDE the sampler (it accepts everything) received %d entries for one entry at level %d %q", siblingLogs.Len()-sibBefore, int8(lvl), clipS(msg))
		}
		got := logs.Len() - before
		want := 0
		if forward {
			want = 1
		}
		desc := func() string {
			return fmt.Sprintf("entry %d (level %d, msg %q bucket %d, t=%d, sampler %d) with first=%d thereafter=%d tick=%d wrapped threshold %d", i, int8(lvl), clipS(msg), refBucket(msg), now, which, n, m, tick, int8(th))
		}
		if got != want {
			t.Fatalf("%s: forwarded %d entries to the wrapped core, model says %d", desc(), got, want)
		}
		wantHooks := 0
		if hook {
			wantHooks = 1
		}
		if len(hooks)-hb != wantHooks {
			t.Fatalf("%s: decision hook called %d times, want %d", desc(), len(hooks)-hb, wantHooks)
		}
		if hook {
			d := hooks[len(hooks)-1]
			wantD := zapcore.LogDropped
			if sampled {
				wantD = zapcore.LogSampled
			}
			if d.d != wantD || d.msg != msg || d.lvl != lvl {
				t.Fatalf("%s: hook got (%q, level %d, decision %v), want decision %v", desc(), d.msg, d.lvl, d.d, wantD)
			}
		}
	}
	nt := (boundary && dropped && thereafterAdmit) || collided
	var labels []string
	if boundary {
		labels = append(labels, "entry exactly at a window end")
	}
	if dropped {
		labels = append(labels, "dropped entry")
	}
	if thereafterAdmit {
		labels = append(labels, "thereafter admission")
	}
	if straggler {
		labels = append(labels, "entries stamped earlier than their predecessors")
	}
	if collided {
		labels = append(labels, "hash-colliding messages share a budget")
	}
	if thMoved {
		labels = append(labels, "wrapped core's threshold moved after the sampler was built")
	}
	statCase("C11", nt, fmt.Sprintf("seq|n%d m%d tick%d th%d|b%v d%v t%v c%v|%d", min(n, 7), min(m, 7), min(tick, 11), int8(th), boundary, dropped, thereafterAdmit, collided, cnt/10), labels...)
	if nt {
		statSample("C11", func() string {
			return fmt.Sprintf("first=%d thereafter=%d tick=%dns threshold=%d entries=%d boundary=%v dropped=%v thereafter-admission=%v collision=%v", n, m, tick, int8(th), cnt, boundary, dropped, thereafterAdmit, collided)
		})
	}
}

// Through a Logger with a hand-driven clock (the sampler judges by entry time).
type stepClock struct{ now atomic.Int64 }

func (c *stepClock) Now() time.Time                         { return time.Unix(0, c.now.Load()) }
func (c *stepClock) NewTicker(d time.Duration) *time.Ticker { return time.NewTicker(d) }

func propC11Logger(t *rapid.T) {
	n := rapid.IntRange(0, 4).Draw(t, "first")
	m := rapid.IntRange(0, 4).Draw(t, "thereafter")
	tick := rapid.Int64Range(1, 8).Draw(t, "tick")
	core, logs := observer.New(zapcore.DebugLevel)
	nh := 0
	clk := &stepClock{}
	lg := zap.New(core, zap.WithClock(clk), zap.WrapCore(func(c zapcore.Core) zapcore.Core {
		return zapcore.NewSamplerWithOptions(c, time.Duration(tick), n, m, zapcore.SamplerHook(func(zapcore.Entry, zapcore.SamplingDecision) { nh++ }))
	}))
	child := lg.With(zap.Int("k", 1)).Named("n")
	md := &c11Model{uint64(n), uint64(m), tick, zapcore.DebugLevel, map[c11Key]*c11Window{}}
	now := int64(0)
	cnt := rapid.IntRange(1, 40).Draw(t, "entries")
	for i := 0; i < cnt; i++ {
		now += rapid.SampledFrom([]int64{0, 1, tick - 1, tick, tick + 1}).Draw(t, "dt")
		clk.now.Store(now)
		lvl := zapcore.Level(rapid.IntRange(-1, 2).Draw(t, "level"))
		msg := rapid.SampledFrom(c11Messages).Draw(t, "msg")
		l := lg
		if rapid.Bool().Draw(t, "child") {
			l = child
		}
		forward, _, _ := md.decide(lvl, msg, now)
		before := logs.Len()
		if rapid.Bool().Draw(t, "sugar") {
			l.Sugar().Logw(lvl, msg)
		} else {
			l.Log(lvl, msg)
		}
		if got := logs.Len() - before; (got == 1) != forward || got > 1 {
			t.Fatalf("entry %d (level %d %q t=%d) first=%d thereafter=%d tick=%d: logged %d, model says %v", i, lvl, msg, now, n, m, tick, got, forward)
		}
	}
	if nh != cnt {
		t.Fatalf("hook called %d times for %d entries", nh, cnt)
	}
	statCase("C11", true, fmt.Sprintf("logger|n%d m%d tick%d|%d", n, m, tick, cnt/8), "through Logger with stepped clock")
}

// Concurrent: one entry opens a window, then several goroutines log the same
// key stamped inside the open window: the admitted count is exact.
func propC11Concurrent(t *rapid.T) {
	n := rapid.IntRange(0, 20).Draw(t, "first")
	m := rapid.IntRange(0, 7).Draw(t, "thereafter")
	g := rapid.IntRange(2, 8).Draw(t, "goroutines")
	per := rapid.IntRange(1, 200).Draw(t, "perGoroutine")
	lvl := zapcore.Level(rapid.IntRange(-1, 5).Draw(t, "level"))
	msg := rapid.SampledFrom(c11Messages).Draw(t, "msg")
	dumpProgram(map[string]any{"property": "C11", "first": n, "thereafter": m, "goroutines": g, "per": per, "level": int(lvl), "msg": msg})
	core, logs := observer.New(zapcore.DebugLevel)
	var sampledN, droppedN atomic.Int64
	s := zapcore.NewSamplerWithOptions(core, time.Hour, n, m, zapcore.SamplerHook(func(_ zapcore.Entry, d zapcore.SamplingDecision) {
		if d == zapcore.LogSampled {
			sampledN.Add(1)
		} else {
			droppedN.Add(1)
		}
	}))
	cores := []zapcore.Core{s, s.With([]zapcore.Field{zap.Int("w", 1)})}
	base := time.Unix(1000, 0)
	open := zapcore.Entry{Level: lvl, Message: msg, Time: base}
	if ce := s.Check(open, nil); ce != nil {
		ce.Write()
	}
	var wg sync.WaitGroup
	for i := 0; i < g; i++ {
		wg.Add(1)
		go func(i int) {
			defer wg.Done()
			c := cores[i%2]
			for j := 0; j < per; j++ {
				ent := zapcore.Entry{Level: lvl, Message: msg, Time: base.Add(time.Duration(i*1000+j) * time.Microsecond)}
				if ce := c.Check(ent, nil); ce != nil {
					ce.Write()
				}
				if j%16 == 0 {
					runtime.Gosched()
				}
			}
		}(i)
	}
	wg.Wait()
	total := uint64(1 + g*per)
	var want uint64
	for c := uint64(1); c <= total; c++ {
		if c <= uint64(n) || (m > 0 && (c-uint64(n))%uint64(m) == 0) {
			want++
		}
	}
	if got := uint64(logs.Len()); got != want {
		t.Fatalf("%d entries of one key inside one open window with first=%d thereafter=%d: %d admitted, exactly %d expected", total, n, m, got, want)
	}
	if uint64(sampledN.Load()+droppedN.Load()) != total {
		t.Fatalf("hook called %d times for %d entries", sampledN.Load()+droppedN.Load(), total)
	}
	if uint64(sampledN.Load()) != want {
		t.Fatalf("%d LogSampled decisions but %d entries forwarded", sampledN.Load(), logs.Len())
	}
	statCase("C11", true, fmt.Sprintf("conc|n%d m%d g%d per%d", n, m, g, per/20), "concurrent same-key window")
}

func TestC11Sequential(t *testing.T) { rapid.Check(t, propC11Sequential) }
func TestC11Logger(t *testing.T)     { rapid.Check(t, propC11Logger) }
func TestC11Concurrent(t *testing.T) { rapid.Check(t, propC11Concurrent) }

func TestRegressC11(t *testing.T) {
	c11ProductionPresetSamples(t)
	core, logs := observer.New(zapcore.InfoLevel)
	hooks := 0
	s := zapcore.NewSamplerWithOptions(core, 10, 2, 3, zapcore.SamplerHook(func(zapcore.Entry, zapcore.SamplingDecision) { hooks++ }))
	send := func(c zapcore.Core, lvl zapcore.Level, ts int64) bool {
		before := logs.Len()
		if ce := c.Check(zapcore.Entry{Level: lvl, Message: "m", Time: time.Unix(0, ts)}, nil); ce != nil {
			ce.Write()
		}
		return logs.Len() > before
	}
	// first 2, then every 3rd: counts 1,2 admitted; 3,4 dropped; 5 admitted; 6,7 dropped; 8 admitted
	want := []bool{true, true, false, false, true, false, false, true}
	w := s.With(nil)
	for i, wnt := range want {
		c := s
		if i%2 == 1 {
			c = w // derived cores share the budget
		}
		if got := send(c, zapcore.InfoLevel, 100+int64(i%3)); got != wnt {
			t.Fatalf("entry %d: admitted=%v want %v", i, got, wnt)
		}
	}
	// exactly at the window end (100+10) a new window opens
	if !send(s, zapcore.InfoLevel, 110) {
		t.Fatalf("entry at the window end was not admitted as first of a new window")
	}
	h0 := hooks
	if send(s, zapcore.DebugLevel, 111) || hooks != h0 {
		t.Fatalf("disabled level was forwarded or hooked")
	}
	if !send(s, zapcore.Level(9), 111) || hooks != h0 {
		t.Fatalf("out-of-range level must pass unsampled without a hook call")
	}
}

// ---- the sampler assembled by Config.Build (route equivalence, and who owns the SamplingConfig afterwards)

type c11MemSink struct {
	mu    sync.Mutex
	lines int
}

func (s *c11MemSink) Write(p []byte) (int, error) {
	s.mu.Lock()
	s.lines += strings.Count(string(p), "\n")
	s.mu.Unlock()
	return len(p), nil
}
func (s *c11MemSink) Sync() error  { return nil }
func (s *c11MemSink) Close() error { return nil }
func (s *c11MemSink) n() int       { s.mu.Lock(); defer s.mu.Unlock(); return s.lines }

var (
	c11SinkOnce sync.Once
	c11Sinks    sync.Map
	c11SinkSeq  atomic.Int64
)

const c11Scheme = "vc11mem"

func propC11Config(t *rapid.T) {
	c11SinkOnce.Do(func() {
		if err := zap.RegisterSink(c11Scheme, func(u *url.URL) (zap.Sink, error) {
			s := &c11MemSink{}
			c11Sinks.Store(u.Host, s)
			return s, nil
		}); err != nil {
			panic(err)
		}
	})
	n := rapid.IntRange(0, 4).Draw(t, "initial")
	m := rapid.IntRange(0, 4).Draw(t, "thereafter")
	own, decoy := 0, 0
	cfg := zap.NewProductionConfig()
	cfg.Level = zap.NewAtomicLevelAt(zapcore.DebugLevel)
	cfg.Sampling = &zap.SamplingConfig{Initial: n, Thereafter: m, Hook: func(zapcore.Entry, zapcore.SamplingDecision) { own++ }}
	host := fmt.Sprintf("case%d", c11SinkSeq.Add(1))
	cfg.OutputPaths = []string{c11Scheme + "://" + host}
	cfg.ErrorOutputPaths = []string{c11Scheme + "://" + host + "err"}
	clk := &stepClock{}
	lg, err := cfg.Build(zap.WithClock(clk))
	if err != nil {
		t.Fatalf("VERIF-INCONCLUSIVE Build: %v", err)
	}
	v, _ := c11Sinks.Load(host)
	sink := v.(*c11MemSink)
	defer c11Sinks.Delete(host)
	defer c11Sinks.Delete(host + "err")
	// the configuration is the caller's again once Build has returned: it is edited and reused for the next logger
	switch rapid.SampledFrom([]string{"untouched", "hook replaced", "hook nil", "budget changed", "sampling nil"}).Draw(t, "afterBuild") {
	case "hook replaced":
		cfg.Sampling.Hook = func(zapcore.Entry, zapcore.SamplingDecision) { decoy++ }
	case "hook nil":
		cfg.Sampling.Hook = nil
	case "budget changed":
		cfg.Sampling.Initial, cfg.Sampling.Thereafter = 1000, 1
	case "sampling nil":
		cfg.Sampling = nil
	}
	tick := int64(time.Second) // Config.Build's sampler ticks once per second
	md := &c11Model{uint64(n), uint64(m), tick, zapcore.DebugLevel, map[c11Key]*c11Window{}}
	now := int64(0)
	cnt := rapid.IntRange(1, 30).Draw(t, "entries")
	named := lg.Named("component")
	for i := 0; i < cnt; i++ {
		now += rapid.SampledFrom([]int64{0, 1, tick - 1, tick, tick + 1, tick / 2}).Draw(t, "dt")
		clk.now.Store(now)
		lvl := zapcore.Level(rapid.IntRange(-1, 2).Draw(t, "level"))
		msg := rapid.SampledFrom(c11Messages).Draw(t, "msg")
		forward, _, _ := md.decide(lvl, msg, now)
		before := sink.n()
		l := lg
		if rapid.Bool().Draw(t, "named") {
			l = named
		}
		l.Log(lvl, msg)
		if got := sink.n() - before; (got == 1) != forward || got > 1 {
			t.Fatalf("Config.Build{Initial:%d Thereafter:%d}: entry %d (level %d %q t=%d): %d lines written, model says forwarded=%v", n, m, i, lvl, msg, now, got, forward)
		}
	}
	if own != cnt {
		t.Fatalf("Config.Build{Initial:%d Thereafter:%d}: the hook the logger was built with was called %d times for %d decided entries", n, m, own, cnt)
	}
	if decoy != 0 {
		t.Fatalf("a hook stored into the SamplingConfig AFTER Build was called %d times by the logger built earlier", decoy)
	}
	statCase("C11", true, fmt.Sprintf("config|n%d m%d|%d", n, m, cnt/8), "sampler assembled by Config.Build")
}

func TestC11Config(t *testing.T) { rapid.Check(t, propC11Config) }
