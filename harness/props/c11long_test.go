package props

import (
	"fmt"
	"testing"
	"time"

	"go.uber.org/zap/zapcore"
	"go.uber.org/zap/zaptest/observer"
	"pgregory.net/rapid"
)

// propC11LongWindow: ONE key inside ONE window for a very long time (hundreds of thousands of entries), with large
// "thereafter" values: every single decision (and hook call) is the reference model's - "every Mth" means the
// 1st, 2nd ... kth multiple of M exactly, however large k*M gets. A second, With-derived sampler shares the count.
func propC11LongWindow(t *rapid.T) {
	first := rapid.SampledFrom([]int{0, 1, 10, 100, 4097}).Draw(t, "first")
	m := rapid.SampledFrom([]int{1, 2, 3, 7, 10, 100, 1000, 4096, 65535, 65536, 65537, 100000, 99991}).Draw(t, "thereafter")
	total := rapid.SampledFrom([]int{5000, 70000, 140000, 300000, 450000}).Draw(t, "entries")
	viaDerived := rapid.Bool().Draw(t, "alternateWithDerived")
	sink, logs := observer.New(zapcore.DebugLevel)
	var sampledN, droppedN int
	var last zapcore.SamplingDecision
	s := zapcore.NewSamplerWithOptions(sink, time.Hour, first, m, zapcore.SamplerHook(func(_ zapcore.Entry, d zapcore.SamplingDecision) {
		last = d
		if d == zapcore.LogSampled {
			sampledN++
		} else {
			droppedN++
		}
	}))
	d := s.With(nil)
	ent := zapcore.Entry{Level: zapcore.InfoLevel, Message: "the one message", Time: time.Unix(1559347200, 0)}
	admitted := 0
	for i := 1; i <= total; i++ {
		c := s
		if viaDerived && i%2 == 0 {
			c = d
		}
		before := sampledN + droppedN
		ce := c.Check(ent, nil)
		want := i <= first || (i-first)%m == 0
		if (ce != nil) != want {
			t.Fatalf("entry %d of the window (first=%d thereafter=%d): admitted=%v, the statement says %v", i, first, m, ce != nil, want)
		}
		if sampledN+droppedN != before+1 || (last == zapcore.LogSampled) != want {
			t.Fatalf("entry %d of the window (first=%d thereafter=%d): %d hook calls with decision %v, want one saying sampled=%v", i, first, m, sampledN+droppedN-before, last, want)
		}
		if ce != nil {
			admitted++
			if admitted <= 3 {
				ce.Write() // (a few real writes; the rest would only fill the observer)
			}
		}
	}
	if logs.Len() != min(admitted, 3) {
		t.Fatalf("observer holds %d entries, %d were written", logs.Len(), min(admitted, 3))
	}
	statCase("C11", total >= 140000 && m >= 1000, fmt.Sprintf("long|%d|%d|%d|%v", first, m, total, viaDerived), "one key, one long window", fmt.Sprintf("window of %d entries", total))
}

func TestC11LongWindow(t *testing.T) { rapid.Check(t, propC11LongWindow) }
