package props

import (
	"fmt"
	"testing"

	"go.uber.org/zap"
	"go.uber.org/zap/zapcore"
)

// c02MapEncoderAfterPanic: the in-memory map encoder is the reference the JSON nesting is compared with, and it calls
// the user's marshalers like any other encoder. If one of them panics (the caller recovers and goes on using the
// encoder, as a test harness would), what is added next lands where it would have landed anyway.
func c02MapEncoderAfterPanic(t *testing.T) {
	for _, nested := range []bool{false, true} {
		enc := zapcore.NewMapObjectEncoder()
		enc.AddInt("before", 1)
		if nested {
			enc.OpenNamespace("ns")
		}
		func() {
			defer func() {
				if recover() == nil {
					t.Fatalf("the marshaler's panic did not reach the caller")
				}
			}()
			_ = enc.AddObject("boom", c08PanicObj{})
		}()
		func() {
			defer func() { _ = recover() }()
			_ = enc.AddArray("boomarr", c08PanicObj{})
		}()
		enc.AddInt("after", 2)
		zap.String("field", "v").AddTo(enc)
		where := enc.Fields
		if nested {
			ns, ok := enc.Fields["ns"].(map[string]interface{})
			if !ok {
				t.Fatalf("the open namespace is gone after a marshaler panicked: %v", enc.Fields)
			}
			where = ns
		}
		if where["after"] != 2 || where["field"] != "v" {
			t.Fatalf("fields added after a marshaler panicked (namespace open: %v) did not land beside it: %v", nested, fmt.Sprint(enc.Fields))
		}
	}
	statCase("C02", true, "mapencoder-after-panic", "map encoder after a marshaler panic")
}
