package props

import (
	"bytes"
	"fmt"
	"strings"
	"sync"
	"testing"
	"time"

	"go.uber.org/zap"
	"go.uber.org/zap/zapcore"
	"pgregory.net/rapid"
)

// c04Acceptor is a core of the kind applications write around zap's: it decides on its OWN terms in Check (debug
// logging for one tenant, say), registers ITSELF with the checked entry and forwards Write. The Core contract is what
// makes such wrappers possible: "If called, Write should always log the Entry and Fields; it should not replicate the
// logic of Check." An entry it accepted is an accepted entry: exactly one intact line per destination below it.
type c04Acceptor struct {
	inner  zapcore.Core
	accept func(zapcore.Entry) bool
}

func (a *c04Acceptor) Enabled(zapcore.Level) bool { return true }
func (a *c04Acceptor) With(fs []zapcore.Field) zapcore.Core {
	return &c04Acceptor{inner: a.inner.With(fs), accept: a.accept}
}
func (a *c04Acceptor) Check(e zapcore.Entry, ce *zapcore.CheckedEntry) *zapcore.CheckedEntry {
	if a.accept(e) {
		return ce.AddCore(e, a)
	}
	return ce
}
func (a *c04Acceptor) Write(e zapcore.Entry, fs []zapcore.Field) error { return a.inner.Write(e, fs) }
func (a *c04Acceptor) Sync() error                                     { return a.inner.Sync() }

// propC04WriteForwarded: goroutines log through a wrapper of that kind over compositions of zap's own forwarding cores
// (io core, With-derived, tee of branches with their own levels, lazy, level-increased, sampler); the wrapper accepts
// entries by message, whatever their level and whatever the levels of the cores below. Every leaf destination
// receives exactly one intact line per accepted entry, each goroutine's in order.
func propC04WriteForwarded(t *rapid.T) {
	nLeaves := rapid.IntRange(1, 3).Draw(t, "leaves")
	type leaf struct {
		sink  *memSink
		level zapcore.Level
	}
	var leaves []*leaf
	var cores []zapcore.Core
	cfg := zapcore.EncoderConfig{MessageKey: "m", LevelKey: "l", EncodeLevel: zapcore.LowercaseLevelEncoder, LineEnding: "\n"}
	for i := 0; i < nLeaves; i++ {
		lf := &leaf{sink: &memSink{}, level: zapcore.Level(rapid.IntRange(-1, 6).Draw(t, "leafLevel"))}
		leaves = append(leaves, lf)
		var c zapcore.Core = zapcore.NewCore(zapcore.NewJSONEncoder(cfg), zapcore.Lock(lf.sink), lf.level)
		switch rapid.SampledFrom([]string{"plain", "plain", "with", "lazy", "increase", "sampler"}).Draw(t, "leafWrap") {
		case "with":
			c = c.With([]zapcore.Field{zap.Int("ctx", i)})
		case "lazy":
			c = zapcore.NewLazyWith(c, []zapcore.Field{zap.Int("ctx", i)})
		case "increase":
			if inc, err := zapcore.NewIncreaseLevelCore(c, zapcore.FatalLevel+1); err == nil {
				c = inc
			}
		case "sampler":
			c = zapcore.NewSamplerWithOptions(c, time.Hour, 1, 0)
		}
		cores = append(cores, c)
	}
	inner := zapcore.NewTee(cores...)
	g := rapid.IntRange(1, 4).Draw(t, "goroutines")
	per := rapid.IntRange(1, 12).Draw(t, "entriesPerGoroutine")
	type ent struct {
		level  zapcore.Level
		accept bool
	}
	scripts := make([][]ent, g)
	for i := range scripts {
		for j := 0; j < per; j++ {
			scripts[i] = append(scripts[i], ent{zapcore.Level(rapid.IntRange(-1, 2).Draw(t, "entryLevel")), rapid.IntRange(0, 3).Draw(t, "accepted") != 0})
		}
	}
	lg := zap.New(&c04Acceptor{inner: inner, accept: func(e zapcore.Entry) bool { return strings.HasPrefix(e.Message, "yes") }}, zap.ErrorOutput(&memSink{}))
	route := rapid.SampledFrom([]string{"logger", "child", "direct Write"}).Draw(t, "route")
	var wg sync.WaitGroup
	for i := 0; i < g; i++ {
		wg.Add(1)
		go func(i int) {
			defer wg.Done()
			l := lg
			if route == "child" {
				l = lg.With(zap.Int("g", i))
			}
			for j, e := range scripts[i] {
				msg := fmt.Sprintf("no-%d-%d", i, j)
				if e.accept {
					msg = fmt.Sprintf("yes-%d-%d", i, j)
				}
				if route == "direct Write" {
					// the contract as it stands: Write logs, without asking Check again
					if e.accept {
						_ = inner.Write(zapcore.Entry{Level: e.level, Message: msg}, nil)
					}
					continue
				}
				l.Log(e.level, msg)
			}
		}(i)
	}
	wg.Wait()
	below := false
	for li, lf := range leaves {
		lines := bytes.Split(bytes.TrimSuffix(lf.sink.all(), []byte("\n")), []byte("\n"))
		if len(lf.sink.all()) == 0 {
			lines = nil
		}
		next := make([]int, g)
		seen := 0
		for _, ln := range lines {
			if why, _ := checkJSONLine(append(append([]byte{}, ln...), '\n'), "\n"); why != "" {
				t.Fatalf("destination %d: malformed line (%s): %q", li, why, ln)
			}
			var gi, ji int
			k := bytes.Index(ln, []byte(`"m":"yes-`))
			if k < 0 {
				t.Fatalf("destination %d received a line for an entry the wrapper did not accept: %q", li, ln)
			}
			if _, err := fmt.Sscanf(string(ln[k+len(`"m":"yes-`):]), "%d-%d", &gi, &ji); err != nil || gi < 0 || gi >= g {
				t.Fatalf("destination %d: unreadable token in %q", li, ln)
			}
			// the next accepted entry of that goroutine
			for next[gi] < len(scripts[gi]) && !scripts[gi][next[gi]].accept {
				next[gi]++
			}
			if next[gi] != ji {
				t.Fatalf("destination %d (level %v): goroutine %d's entry %d arrived where its entry %d was due (lost, duplicated or out of order); the wrapper accepted it, and Write \"should always log the Entry\"\nlines: %q", li, lf.level, gi, ji, next[gi], lines)
			}
			next[gi]++
			seen++
		}
		for gi := range scripts {
			for j := next[gi]; j < len(scripts[gi]); j++ {
				if scripts[gi][j].accept {
					t.Fatalf("destination %d (level %v) never received goroutine %d's accepted entry %d (level %v); the wrapper accepted it, and Write \"should always log the Entry and Fields; it should not replicate the logic of Check\"\nlines: %q", li, lf.level, gi, j, scripts[gi][j].level, lines)
				}
				if scripts[gi][j].accept && scripts[gi][j].level < lf.level {
					below = true
				}
			}
			for _, e := range scripts[gi] {
				if e.accept && e.level < lf.level {
					below = true
				}
			}
		}
		_ = seen
	}
	statCase("C04", below, fmt.Sprintf("writefwd|%d|%d|%s|%v", nLeaves, g, route, below), "accepting wrapper core", "route "+route)
}

func TestC04WriteForwarded(t *testing.T) { rapid.Check(t, propC04WriteForwarded) }
