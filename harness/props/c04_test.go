package props

// C04 — concurrent logging delivers every entry exactly once as an intact line.

import (
	"bytes"
	"context"
	"fmt"
	"log"
	"log/slog"
	"os"
	"regexp"
	"runtime"
	"strconv"
	"strings"
	"sync"
	"sync/atomic"
	"syscall"
	"testing"
	"time"

	"go.uber.org/zap"
	"go.uber.org/zap/exp/zapslog"
	"go.uber.org/zap/zapcore"
	"go.uber.org/zap/zapio"
	"pgregory.net/rapid"
)

// tornSink copies each write in two halves with a yield in between and trips
// a flag if two calls overlap.
type tornSink struct {
	inUse   int32
	overlap int32
	buf     []byte
	writes  int
	syncs   int32
	// syncFails: Sync is attempted like any other and then reports EINVAL - what fsync says on a terminal, a pipe or
	// a socket. Nothing that was written is affected by it, and nothing written later is either.
	syncFails bool
}

// c04MutexSink: a sink with a mutex of its own for another purpose (rotation, say); the methods are promoted.
type c04MutexSink struct {
	sync.Mutex
	*tornSink
}

func (s *tornSink) Write(p []byte) (int, error) {
	if !atomic.CompareAndSwapInt32(&s.inUse, 0, 1) {
		atomic.StoreInt32(&s.overlap, 1)
		return len(p), nil
	}
	h := len(p) / 2
	s.buf = append(s.buf, p[:h]...)
	runtime.Gosched()
	s.buf = append(s.buf, p[h:]...)
	s.writes++
	atomic.StoreInt32(&s.inUse, 0)
	return len(p), nil
}

func (s *tornSink) Sync() error {
	if !atomic.CompareAndSwapInt32(&s.inUse, 0, 1) {
		atomic.StoreInt32(&s.overlap, 1)
		return nil
	}
	runtime.Gosched()
	atomic.AddInt32(&s.syncs, 1)
	atomic.StoreInt32(&s.inUse, 0)
	if s.syncFails {
		return syscall.EINVAL
	}
	return nil
}

type c04Op struct {
	Kind string `json:"k"` // front end or sync/tick/yield
	Pad  int    `json:"pad,omitempty"`
}

type c04Program struct {
	Minimal    bool      `json:"minimalLines,omitempty"` // lock/combine only: no time, caller or context, so that lines can be very short
	Topology   string    `json:"topology"`
	BufSize    int       `json:"bufSize"`
	Procs      int       `json:"gomaxprocs"`
	Refl       bool      `json:"customReflectedEncoder,omitempty"` // reflected values go through a user-supplied encoding/json encoder (newline-terminated output)
	SyncEINVAL bool      `json:"sinkSyncReportsEINVAL,omitempty"`  // the sinks' Sync reports EINVAL every time (a terminal or pipe)
	Scripts    [][]c04Op `json:"goroutines"`
}

var c04Cancelled = func() context.Context {
	ctx, cancel := context.WithCancel(context.Background())
	cancel()
	return ctx
}()

var c04Fronts = []string{"info", "log", "check", "sugarw", "sugarf", "sugarln", "sugar", "child-with", "child-named", "child-lazy", "stdlog", "zapio", "slog", "slog-cancelled", "slog-group", "legacy-text", "legacy-text",
	"reflect", "reflect", "errors", "object", "child-reflect", "shared-reflect", "shared-reflect", "reflect-fail", "reflect-fail", "errors", "errors-fault"}

// every caller annotation in a C04 program is "<dir>/<file>.go:<line>" of the harness, zap or the standard library
var c04CallerRe = regexp.MustCompile(`^[A-Za-z0-9_.@-]+/[A-Za-z0-9_.-]+\.go:[0-9]+$`)

// c04Obj is a nested marshaler carrying its goroutine and a padding.
type c04Obj struct {
	g   int
	pad string
}

func (o c04Obj) MarshalLogObject(enc zapcore.ObjectEncoder) error {
	enc.AddInt("og", o.g)
	enc.AddString("op", o.pad)
	return enc.AddArray("arr", zapcore.ArrayMarshalerFunc(func(a zapcore.ArrayEncoder) error {
		a.AppendInt(o.g)
		return a.AppendReflected(map[string]int{"og": o.g})
	}))
}

// c04CheckOwner walks a decoded context and fails if a value that names its
// goroutine ("g", "og", "rg") or a padding ("rp", "op") belongs to another
// goroutine than the entry's token says.
func c04CheckOwner(n *xnode, g int) string {
	if n == nil {
		return ""
	}
	letter := string(rune('a' + g%26))
	for _, kv := range n.kids {
		switch kv.k {
		case "g", "og", "rg":
			if kv.v.kind == "num" && kv.v.s != strconv.Itoa(g) {
				return fmt.Sprintf("value %q=%s on the entry of goroutine %d", kv.k, kv.v.s, g)
			}
		case "rp", "op", "ep":
			if kv.v.kind == "str" && strings.Trim(kv.v.s, letter) != "" {
				return fmt.Sprintf("padding %q=%q on the entry of goroutine %d", kv.k, clipS(kv.v.s), g)
			}
		}
		// any string marked "own:" carries nothing but its goroutine's letter, wherever it ends up
		if kv.v.kind == "str" && strings.HasPrefix(kv.v.s, "own:") && strings.Trim(strings.SplitN(kv.v.s[4:], "\n", 2)[0], letter) != "" {
			return fmt.Sprintf("value %q=%q on the entry of goroutine %d", kv.k, clipS(kv.v.s), g)
		}
		if e := c04CheckOwner(kv.v, g); e != "" {
			return e
		}
	}
	for _, el := range n.els {
		if e := c04CheckOwner(el, g); e != "" {
			return e
		}
	}
	return ""
}

func c04Token(g, seq, pad int) string {
	return fmt.Sprintf("tok:%d:%d:%d:%s", g, seq, pad, strings.Repeat(string(rune('a'+g%26)), pad))
}

// c04ParseToken validates the token (intact padding) and returns g, seq.
func c04ParseToken(msg string) (g, seq int, err error) {
	parts := strings.SplitN(msg, ":", 5)
	if len(parts) != 5 || parts[0] != "tok" {
		return 0, 0, fmt.Errorf("not a token: %q", clipS(msg))
	}
	g, e1 := strconv.Atoi(parts[1])
	seq, e2 := strconv.Atoi(parts[2])
	pad, e3 := strconv.Atoi(parts[3])
	if e1 != nil || e2 != nil || e3 != nil {
		return 0, 0, fmt.Errorf("bad token header: %q", clipS(msg))
	}
	if len(parts[4]) != pad || strings.Trim(parts[4], string(rune('a'+g%26))) != "" {
		return 0, 0, fmt.Errorf("padding corrupted (want %d x %q): %q", pad, rune('a'+g%26), clipS(parts[4]))
	}
	return g, seq, nil
}

type c04Stream struct {
	name    string
	console bool
	data    func() []byte
	sink    *tornSink
	only    func(g int) bool // goroutines whose entries reach this stream (nil = all)
}

func genC04Program(t *rapid.T) *c04Program {
	p := &c04Program{
		Topology:   rapid.SampledFrom([]string{"lock", "combine", "file", "buffered", "tee", "shared-locked", "file-twice", "tee-dropper"}).Draw(t, "topology"),
		BufSize:    rapid.SampledFrom([]int{64, 128, 256, 1024, 4096}).Draw(t, "bufSize"),
		Procs:      rapid.SampledFrom([]int{1, 2, 4, 16}).Draw(t, "gomaxprocs"),
		Refl:       rapid.IntRange(0, 3).Draw(t, "customReflectedEncoder") == 0,
		SyncEINVAL: rapid.IntRange(0, 3).Draw(t, "sinkSyncReportsEINVAL") == 0,
	}
	if p.Topology == "lock" || p.Topology == "combine" {
		p.Minimal = rapid.IntRange(0, 2).Draw(t, "minimalLines") == 0
	}
	ng := rapid.IntRange(2, 8).Draw(t, "goroutines")
	for g := 0; g < ng; g++ {
		n := rapid.IntRange(1, 30).Draw(t, "ops")
		var sc []c04Op
		for i := 0; i < n; i++ {
			switch rapid.IntRange(0, 9).Draw(t, "opKind") {
			case 0:
				if rapid.IntRange(0, 7).Draw(t, "stopInsteadOfSync") == 0 {
					sc = append(sc, c04Op{Kind: "stop"}) // Stop of the buffered syncer while others keep logging
					break
				}
				sc = append(sc, c04Op{Kind: "sync"})
			case 1:
				sc = append(sc, c04Op{Kind: "tick"})
			case 2:
				sc = append(sc, c04Op{Kind: "yield"})
			default:
				sc = append(sc, c04Op{Kind: rapid.SampledFrom(c04Fronts).Draw(t, "front"),
					Pad: rapid.SampledFrom([]int{0, 3, 40, p.BufSize - 40, p.BufSize, 3 * p.BufSize, 1500}).Draw(t, "pad")})
			}
		}
		p.Scripts = append(p.Scripts, sc)
	}
	return p
}

func c04Run(t interface{ Fatalf(string, ...any) }, p *c04Program) (alternations int, bigEntry bool) {
	old := runtime.GOMAXPROCS(p.Procs)
	defer runtime.GOMAXPROCS(old)
	// metadata columns that differ per goroutine (logger name) and per front end (level)
	// (the layout time encoder and the short caller encoder take nested pooled buffers while the line is being built)
	jcfg := zapcore.EncoderConfig{TimeKey: "t", NameKey: "n", LevelKey: "l", CallerKey: "c", MessageKey: "m", EncodeLevel: zapcore.CapitalLevelEncoder,
		EncodeTime: zapcore.RFC3339NanoTimeEncoder, EncodeCaller: zapcore.ShortCallerEncoder}
	if p.Minimal {
		jcfg = zapcore.EncoderConfig{NameKey: "n", LevelKey: "l", MessageKey: "m", EncodeLevel: zapcore.CapitalLevelEncoder}
	}
	if p.Refl {
		jcfg.NewReflectedEncoder = mkReflectedEncoder(false)
	}
	var streams []*c04Stream
	var core, altCore zapcore.Core
	var closers []func()
	clk := &handClock{}
	var bws *zapcore.BufferedWriteSyncer
	mkSink := func(name string, console bool) *tornSink {
		s := &tornSink{syncFails: p.SyncEINVAL}
		streams = append(streams, &c04Stream{name: name, console: console, sink: s, data: func() []byte { return s.buf }})
		return s
	}
	switch p.Topology {
	case "lock":
		// (odd goroutine counts: the sink type also has Lock/Unlock methods of its own, promoted from a mutex it embeds
		// for something else - that does not make its Write safe, Lock(sink) still has to serialise)
		var raw zapcore.WriteSyncer = mkSink("Lock(sink)", false)
		if len(p.Scripts)%2 == 1 {
			raw = &c04MutexSink{tornSink: raw.(*tornSink)}
		}
		core = zapcore.NewCore(zapcore.NewJSONEncoder(jcfg), zapcore.Lock(raw), zapcore.DebugLevel)
	case "combine":
		core = zapcore.NewCore(zapcore.NewJSONEncoder(jcfg), zap.CombineWriteSyncers(mkSink("combine A", false), mkSink("combine B", false)), zapcore.DebugLevel)
	case "file":
		dir := os.Getenv("VERIF_WORKDIR")
		if dir == "" {
			dir = os.TempDir()
		}
		f1 := fmt.Sprintf("%s/c04-%d-a.log", dir, os.Getpid())
		f2 := fmt.Sprintf("%s/c04-%d-b.log", dir, os.Getpid())
		os.Remove(f1)
		os.Remove(f2)
		ws, closeFn, err := zap.Open(f1, "file://localhost"+f2)
		if err != nil {
			t.Fatalf("VERIF-INCONCLUSIVE zap.Open: %v", err)
		}
		closers = append(closers, closeFn, func() { os.Remove(f1); os.Remove(f2) })
		for _, f := range []string{f1, f2} {
			f := f
			streams = append(streams, &c04Stream{name: "zap.Open " + f, data: func() []byte { b, _ := os.ReadFile(f); return b }})
		}
		core = zapcore.NewCore(zapcore.NewJSONEncoder(jcfg), ws, zapcore.DebugLevel)
	case "tee-dropper":
		// a tee whose SECOND branch sits behind a sampler with an empty budget (it drops every entry): the first
		// branch still receives the full set, the second nothing
		full := zapcore.NewCore(zapcore.NewJSONEncoder(jcfg), zapcore.Lock(mkSink("tee full branch", false)), zapcore.DebugLevel)
		dropped := zapcore.NewCore(zapcore.NewJSONEncoder(jcfg), zapcore.Lock(mkSink("tee branch behind a dropping sampler", false)), zapcore.DebugLevel)
		streams[len(streams)-1].only = func(int) bool { return false }
		core = zapcore.NewTee(full, zapcore.NewSamplerWithOptions(dropped, time.Hour, 0, 0))
	case "file-twice":
		// the SAME file reached by two routes, as when two loggers are built from one configuration or a path is
		// listed under OutputPaths and ErrorOutputPaths: two zap.Open calls, two handles, two locks. Every line of
		// every goroutine must still be in the file, whole (the file sink appends).
		dir := os.Getenv("VERIF_WORKDIR")
		if dir == "" {
			dir = os.TempDir()
		}
		f1 := fmt.Sprintf("%s/c04-%d-twice.log", dir, os.Getpid())
		os.Remove(f1)
		ws1, close1, err := zap.Open(f1)
		if err != nil {
			t.Fatalf("VERIF-INCONCLUSIVE zap.Open: %v", err)
		}
		ws2, close2, err := zap.Open("file://" + f1)
		if err != nil {
			close1()
			t.Fatalf("VERIF-INCONCLUSIVE zap.Open: %v", err)
		}
		closers = append(closers, func() { close1(); close2() }, func() { os.Remove(f1) })
		streams = append(streams, &c04Stream{name: "two zap.Open of " + f1, data: func() []byte { b, _ := os.ReadFile(f1); return b }})
		core = zapcore.NewCore(zapcore.NewJSONEncoder(jcfg), ws1, zapcore.DebugLevel)
		altCore = zapcore.NewCore(zapcore.NewJSONEncoder(jcfg), ws2, zapcore.DebugLevel)
	case "buffered":
		bws = &zapcore.BufferedWriteSyncer{WS: mkSink("Buffered(sink)", false), Size: p.BufSize, FlushInterval: time.Second, Clock: clk}
		if len(p.Scripts)%3 == 0 {
			_ = bws.Stop() // stopped once before its first use: a no-op that leaves no trace
		}
		core = zapcore.NewCore(zapcore.NewJSONEncoder(jcfg), bws, zapcore.DebugLevel)
	case "shared-locked":
		// ONE locked syncer is used by a core directly and is also a member of a combined syncer under another
		// core: every path to the raw sink must go through the same lock. Even goroutines log through the first
		// core, odd ones through the second.
		raw := mkSink("shared Lock(sink)", false)
		lockedRaw := zapcore.Lock(raw)
		core = zapcore.NewCore(zapcore.NewJSONEncoder(jcfg), lockedRaw, zapcore.DebugLevel)
		altCore = zapcore.NewCore(zapcore.NewJSONEncoder(jcfg), zap.CombineWriteSyncers(lockedRaw, mkSink("combined second member", false)), zapcore.DebugLevel)
		streams[len(streams)-1].only = func(g int) bool { return g%2 == 1 }
	case "tee":
		bws = &zapcore.BufferedWriteSyncer{WS: mkSink("tee console->Buffered", true), Size: p.BufSize, FlushInterval: time.Second, Clock: clk}
		// the branches are kept in a list the program goes on using (a core that enables nothing among them): a
		// second tee built from the same list is the same tee
		branches := []zapcore.Core{
			zapcore.NewNopCore(),
			zapcore.NewCore(zapcore.NewJSONEncoder(jcfg), zapcore.Lock(mkSink("tee json->Lock", false)), zapcore.DebugLevel),
			zapcore.NewCore(zapcore.NewConsoleEncoder(jcfg), bws, zapcore.DebugLevel),
		}
		_ = zapcore.NewTee(branches...)
		core = zapcore.NewTee(branches...)
	}
	lg := zap.New(core, zap.AddCaller())
	// the shared context carries a reflected value: every derived encoder starts from one that has used its reflection buffer
	shared := lg.With(zap.String("shared", "ctx"), zap.Reflect("rctx", map[string]int{"r": 1}))
	if p.Minimal {
		shared = lg // no shared context either: the shortest possible lines
	}
	lgAlt, sharedAlt := lg, shared
	if altCore != nil {
		lgAlt = zap.New(altCore, zap.AddCaller())
		sharedAlt = lgAlt.With(zap.String("shared", "ctx"), zap.Reflect("rctx", map[string]int{"r": 1}))
	}
	want := make([]int, len(p.Scripts))
	var wg sync.WaitGroup
	var panics atomic.Value
	for g := range p.Scripts {
		wg.Add(1)
		go func(g int) {
			defer wg.Done()
			defer func() {
				if r := recover(); r != nil {
					panics.Store(fmt.Sprintf("goroutine %d panicked: %v", g, r))
				}
			}()
			lg, shared := lg, shared
			if g%2 == 1 {
				lg, shared = lgAlt, sharedAlt
			}
			mine := shared.Named(fmt.Sprintf("g%d", g)).With(zap.Int("g", g))
			if p.Minimal {
				mine = shared.Named(fmt.Sprintf("g%d", g))
			}
			sg := mine.Sugar()
			std := zap.NewStdLog(mine)
			zw := &zapio.Writer{Log: mine, Level: zapcore.WarnLevel}
			sl := slog.New(zapslog.NewHandler(mine.Core(), zapslog.WithName(fmt.Sprintf("g%d", g)), zapslog.WithCaller(true)))
			seq := 0
			for _, o := range p.Scripts[g] {
				tok := c04Token(g, seq, o.Pad)
				emitted := true
				switch o.Kind {
				case "info":
					mine.Info(tok, zap.Int("seq", seq))
				case "log":
					lg.Named(fmt.Sprintf("g%d", g)).Log(zapcore.ErrorLevel, tok, zap.Int("g", g), zap.Int("seq", seq))
				case "check":
					if ce := mine.Check(zapcore.WarnLevel, tok); ce != nil {
						ce.Write(zap.Int("seq", seq), zap.Namespace("ns"), zap.Int("in", 1))
					}
				case "sugarw":
					sg.Infow(tok, "seq", seq)
				case "sugarf":
					sg.Infof("%s", tok)
				case "sugarln":
					sg.Infoln(tok)
				case "sugar":
					sg.Info(tok)
				case "child-with":
					mine.With(zap.Int("extra", seq), zap.String("s", "v")).Info(tok)
				case "child-named":
					mine.Named("n").Sugar().With("k", seq).Warnw(tok)
				case "child-lazy":
					mine.WithLazy(zap.Int("lz", seq)).Info(tok)
				case "reflect":
					mine.Info(tok, zap.Reflect("rv", map[string]any{"rg": g, "rp": strings.Repeat(string(rune('a'+g%26)), o.Pad)}), zap.Int("seq", seq))
				case "shared-reflect":
					// Named does not clone the core: every goroutine encodes through the SAME context encoder (which holds a reflected field)
					shared.Named(fmt.Sprintf("g%d", g)).Info(tok, zap.Int("g", g), zap.Reflect("rv", map[string]any{"rg": g, "rp": strings.Repeat(string(rune('a'+g%26)), o.Pad)}))
				case "reflect-fail":
					// the only (hence last) reflected value of the entry cannot be encoded: the line still carries the token and a "badError" field
					mine.Info(tok, zap.Int("seq", seq), zap.Reflect("bad", make(chan int)))
				case "child-reflect":
					mine.With(zap.Reflect("cr", map[string]any{"rg": g})).Warn(tok, zap.Reflect("rv", []any{map[string]int{"rg": g}}))
				case "errors":
					pad := "own:" + strings.Repeat(string(rune('a'+g%26)), o.Pad%97)
					mine.Error(tok, zap.Errors("errs", []error{fmt.Errorf("%s", pad), nil, verboseErr{pad}, fmt.Errorf("%s", pad)}), zap.NamedError("eown", fmt.Errorf("%s", pad)),
						zap.NamedError("grp", groupErr{pad, []error{fmt.Errorf("%s", pad), fmt.Errorf("%s", pad)}}))
				case "errors-fault":
					// an error group with a cause whose Error method panics: the failure is contained in this entry...
					pad := "own:" + strings.Repeat(string(rune('a'+g%26)), 3)
					mine.Error(tok, zap.NamedError("grp", groupErr{pad, []error{fmt.Errorf("%s", pad), panicErr{"cause panics"}, (*ptrErr)(nil)}}),
						zap.Errors("errs", []error{fmt.Errorf("%s", pad), panicErr{"element panics"}}))
				case "object":
					mine.Info(tok, zap.Object("obj", c04Obj{g, strings.Repeat(string(rune('a'+g%26)), o.Pad)}), zap.Objects("objs", []c04Obj{{g, ""}, {g, "x"[:0]}}))
				case "stdlog":
					std.Print(tok)
				case "legacy-text":
					// text that is not UTF-8 (Latin-1, UTF-16 byte-order marks, truncated runes, binary payloads) with line
					// breaks, quotes and backslashes right after the ill-formed bytes: still one line per entry
					mine.Warn(tok, zap.String("lat", "R\xe9sum\xe9\n"), zap.ByteString("bs", []byte{0xff, '"', 0xfe, '\\', 0xc0, '\n', 0xe2, 0x82, '\t', 0xed, 0xa0, 0x80, '\r'}),
						zap.String("bom", "\xff\xfe\r\nnext"), zap.Int("seq", seq))
				case "slog":
					sl.Info(tok, "seq", seq)
				case "slog-cancelled":
					// a context that is already cancelled does not affect record processing (log/slog Handler contract)
					sl.WarnContext(c04Cancelled, tok, slog.Int("seq", seq))
				case "slog-group":
					sl.WithGroup("grp").With("a", seq).Error(tok, slog.Group("in", slog.Int("g", g)))
				case "zapio":
					_, _ = zw.Write([]byte(tok + "\n"))
				case "sync":
					_ = lg.Sync()
					emitted = false
				case "stop":
					if bws != nil {
						_ = bws.Stop()
					}
					emitted = false
				case "tick":
					if ch := clk.channel(); ch != nil {
						select {
						case ch <- time.Unix(1, 0):
						default:
						}
					}
					emitted = false
				case "yield":
					runtime.Gosched()
					emitted = false
				}
				if emitted {
					seq++
				}
			}
			_ = zw.Close()
			want[g] = seq
		}(g)
	}
	done := make(chan struct{})
	go func() { wg.Wait(); close(done) }()
	select {
	case <-done:
	case <-time.After(60 * time.Second):
		buf := make([]byte, 1<<20)
		n := runtime.Stack(buf, true)
		t.Fatalf("VERIF-DEADLOCK logging goroutines did not finish within 60s:\n%s", clipS(string(buf[:n])))
	}
	if v := panics.Load(); v != nil {
		t.Fatalf("%v", v)
	}
	stoppedMidRun := false
	for _, sc := range p.Scripts {
		for _, o := range sc {
			if o.Kind == "stop" {
				stoppedMidRun = true // what is written after a Stop is only delivered by an explicit Sync
			}
		}
	}
	if bws == nil || len(p.Scripts)%3 != 0 || stoppedMidRun {
		_ = lg.Sync()
		_ = lgAlt.Sync()
	}
	if bws != nil {
		_ = bws.Stop() // (for every third goroutine count Stop alone has to deliver what is still buffered)
	}
	for _, c := range closers[:min(1, len(closers))] {
		c() // close files before reading
	}
	defer func() {
		for _, c := range closers[min(1, len(closers)):] {
			c()
		}
	}()
	for _, st := range streams {
		if st.sink != nil && atomic.LoadInt32(&st.sink.overlap) != 0 {
			t.Fatalf("%s: two calls overlapped inside the sink (writes/syncs are not mutually exclusive)", st.name)
		}
		data := st.data()
		lines := bytes.Split(data, []byte("\n"))
		if len(lines[len(lines)-1]) != 0 {
			t.Fatalf("%s: stream does not end with a complete line: %q", st.name, clipS(string(lines[len(lines)-1])))
		}
		next := make([]int, len(p.Scripts))
		lastG := -1
		for li, ln := range lines[:len(lines)-1] {
			var msg string
			var name, level string
			if st.console {
				cols := strings.SplitN(string(ln), "\t", 6)
				if len(cols) < 5 {
					t.Fatalf("%s: line %d does not have time, level, name, caller and message columns: %q", st.name, li, clipS(string(ln)))
				}
				level, name, msg = cols[1], cols[2], cols[4]
				if !c04CallerRe.MatchString(cols[3]) {
					t.Fatalf("%s: line %d: caller column corrupted: %q", st.name, li, clipS(string(ln)))
				}
				if _, err := time.Parse(time.RFC3339Nano, cols[0]); err != nil {
					t.Fatalf("%s: line %d: time column corrupted: %q", st.name, li, clipS(string(ln)))
				}
				if len(cols) == 6 {
					why, n := checkJSONLine([]byte(cols[5]), "")
					if why != "" {
						t.Fatalf("%s: line %d: console context corrupted: %s: %q", st.name, li, why, clipS(string(ln)))
					}
					if g, _, err := c04ParseToken(msg); err == nil {
						if e := c04CheckOwner(n, g); e != "" {
							t.Fatalf("%s: line %d: %s: %q", st.name, li, e, clipS(string(ln)))
						}
					}
				}
			} else {
				why, n := checkJSONLine(ln, "")
				if why != "" {
					t.Fatalf("%s: line %d is not one intact JSON object (torn, merged or interleaved): %s: %q", st.name, li, why, clipS(string(ln)))
				}
				for _, kv := range n.kids {
					switch kv.k {
					case "m":
						msg = kv.v.s
					case "n":
						name = kv.v.s
					case "l":
						level = kv.v.s
					}
				}
				if g, _, err := c04ParseToken(msg); err == nil {
					if e := c04CheckOwner(n, g); e != "" {
						t.Fatalf("%s: line %d: %s: %q", st.name, li, e, clipS(string(ln)))
					}
				}
				for _, kv := range n.kids {
					if kv.k == "c" && !c04CallerRe.MatchString(kv.v.s) {
						t.Fatalf("%s: line %d: caller value corrupted: %q", st.name, li, clipS(string(ln)))
					}
					if kv.k == "t" {
						if _, err := time.Parse(time.RFC3339Nano, kv.v.s); err != nil {
							t.Fatalf("%s: line %d: time value corrupted: %q", st.name, li, clipS(string(ln)))
						}
					}
				}
			}
			if g, _, err := c04ParseToken(msg); err == nil {
				if !strings.HasPrefix(name, fmt.Sprintf("g%d", g)) {
					t.Fatalf("%s: line %d: entry of goroutine %d carries logger name %q (metadata of another entry)", st.name, li, g, name)
				}
				if level != "INFO" && level != "WARN" && level != "ERROR" {
					t.Fatalf("%s: line %d: level column %q", st.name, li, level)
				}
			}
			g, seq, err := c04ParseToken(msg)
			if err != nil {
				t.Fatalf("%s: line %d: %v", st.name, li, err)
			}
			if g < 0 || g >= len(next) {
				t.Fatalf("%s: line %d: unknown goroutine %d", st.name, li, g)
			}
			if seq != next[g] {
				t.Fatalf("%s: goroutine %d: entry %d arrived where %d was expected (lost, duplicated or reordered)", st.name, g, seq, next[g])
			}
			next[g]++
			if lastG >= 0 && lastG != g {
				alternations++
			}
			lastG = g
		}
		for g := range next {
			if st.only != nil && !st.only(g) {
				if next[g] != 0 {
					t.Fatalf("%s: %d entries of goroutine %d arrived on a stream its logger does not write to", st.name, next[g], g)
				}
				continue
			}
			if next[g] != want[g] {
				t.Fatalf("%s: goroutine %d: %d of %d accepted entries are in the sink", st.name, g, next[g], want[g])
			}
		}
	}
	for _, sc := range p.Scripts {
		for _, o := range sc {
			if o.Pad >= p.BufSize {
				bigEntry = true
			}
		}
	}
	return
}

func propC04(t *rapid.T) {
	p := genC04Program(t)
	dumpProgram(p)
	alt, big := c04Run(t, p)
	buffered := p.Topology == "buffered" || p.Topology == "tee"
	nt := alt > 0 && (!buffered || big)
	labels := []string{"topology " + p.Topology, fmt.Sprintf("gomaxprocs %d", p.Procs)}
	if alt > 0 {
		labels = append(labels, "goroutines' lines alternate in the sink")
	}
	if big {
		labels = append(labels, "entry larger than the buffer")
	}
	statCase("C04", nt, fmt.Sprintf("%s|%d|%d|g%d|alt%d", p.Topology, p.BufSize, p.Procs, len(p.Scripts), min(alt, 20)), labels...)
	if nt {
		statSample("C04", func() string { b, _ := jsonMarshalIndent(p); return clipS(string(b)) })
	}
}

func TestC04Concurrent(t *testing.T) {
	if f := os.Getenv("VERIF_REPLAY_PROGRAM"); f != "" {
		c04Replay(t, f)
		return
	}
	rapid.Check(t, propC04)
}

// c04Replay re-runs a dumped program many times (schedule-dependent failures do not shrink).
func c04Replay(t *testing.T, file string) {
	b, err := os.ReadFile(file)
	if err != nil {
		t.Fatalf("VERIF-INCONCLUSIVE %v", err)
	}
	var p c04Program
	if err := jsonUnmarshal(b, &p); err != nil {
		t.Fatalf("VERIF-INCONCLUSIVE %v", err)
	}
	for i := 0; i < 200; i++ {
		c04Run(t, &p)
	}
}

func TestRegressC04(t *testing.T) {
	// a fixed busy program on every topology
	for _, topo := range []string{"lock", "combine", "file", "buffered", "tee", "file-twice", "tee-dropper"} {
		p := &c04Program{Topology: topo, BufSize: 128, Procs: 4}
		for g := 0; g < 6; g++ {
			var sc []c04Op
			for i := 0; i < 40; i++ {
				sc = append(sc, c04Op{Kind: c04Fronts[(g+i)%len(c04Fronts)], Pad: []int{0, 100, 128, 400}[(g+i)%4]})
				if i%7 == 0 {
					sc = append(sc, c04Op{Kind: "sync"}, c04Op{Kind: "tick"})
				}
			}
			p.Scripts = append(p.Scripts, sc)
		}
		c04Run(t, p)
	}
	_ = log.Flags()
}
