package props

import (
	"runtime"
	"strings"
	"sync"
	"testing"
	"time"

	"go.uber.org/zap"
	"go.uber.org/zap/zapcore"
	"go.uber.org/zap/zaptest/observer"
)

// TestRegressC09LongLived: the objects documented as safe for concurrent use stay so when they have been in use for
// a long time: an observer that has collected thousands of entries (from loggers derived from one another), a
// logger whose sampler has seen tens of thousands of entries, an AtomicLevel set a hundred thousand times - all from
// several goroutines at once, with readers alongside. Under the race detector, with a watchdog.
func TestRegressC09LongLived(t *testing.T) {
	core, logs := observer.New(zapcore.DebugLevel)
	al := zap.NewAtomicLevelAt(zapcore.DebugLevel)
	sampled := zap.New(zapcore.NewSamplerWithOptions(core, time.Hour, 3000, 7))
	base := zap.New(core, zap.IncreaseLevel(al))
	var wg sync.WaitGroup
	const g, per = 4, 3000
	for i := 0; i < g; i++ {
		wg.Add(1)
		go func(i int) {
			defer wg.Done()
			lg := base.With(zap.Int("g", i))
			for j := 0; j < per; j++ {
				switch j % 4 {
				case 0:
					lg.Info("entry", zap.Int("j", j))
				case 1:
					lg.Named("n").Debug("entry")
				case 2:
					sampled.Info("sampled entry")
				default:
					base.Sugar().Infow("entry", "j", j)
				}
				if j%512 == 0 {
					_ = logs.Len()
					_ = logs.FilterMessage("entry").Len()
				}
				al.SetLevel(zapcore.DebugLevel)
			}
		}(i)
	}
	done := make(chan struct{})
	go func() { wg.Wait(); close(done) }()
	select {
	case <-done:
	case <-time.After(60 * time.Second):
		buf := make([]byte, 1<<20)
		dump := string(buf[:runtime.Stack(buf, true)])
		if strings.Contains(dump, "go.uber.org/zap/zapcore.") || strings.Contains(dump, "go.uber.org/zap.(") || strings.Contains(dump, "go.uber.org/zap/zaptest/observer.") {
			t.Fatalf("VERIF-DEADLOCK goroutines still inside zap after 60s (long-lived observer/sampler/level):\n%s", clipS(dump))
		}
		t.Fatalf("VERIF-INCONCLUSIVE watchdog expired with no goroutine inside zap")
	}
	// 3 of 4 entries of every goroutine go to the observer unsampled; of the sampled ones the first 3000 and every 7th after
	nSampled := g * per / 4
	want := g*per*3/4 + 3000 + (nSampled-3000)/7
	if nSampled <= 3000 {
		want = g*per*3/4 + nSampled
	}
	if got := logs.Len(); got != want {
		t.Fatalf("the observer holds %d entries after %d goroutines x %d calls, want %d", got, g, per, want)
	}
	statCase("C09", true, "longlived", "long-lived shared objects")
}
