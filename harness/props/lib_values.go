package props

// Shared value generators: hostile strings, floats, times, errors, stringers,
// reflected values. Everything random goes through rapid draws.

import (
	"encoding/json"
	"errors"
	"fmt"
	"math"
	"sort"
	"strings"
	"time"
	_ "time/tzdata" // LoadLocation works without system zoneinfo

	"go.uber.org/zap/zapcore"
	"pgregory.net/rapid"
)

var hostileStrings = []string{
	"", "a", "key", "\"", "\\", "\\\"", "\n", "\r\n", "\t", "\x00", "\x1f", "\x7f", "\x08\x0c",
	"\xff", "\xc0\x80", "\xed\xa0\x80", "\xe2\x82", "a\xffb", "é", "𝄞", "  ", "<>&", "</script>",
	" ", "a ", "a:", "a,", "a{", "a[", "{", "}", "[", "]", ",", ":", "k k", "null", "true", "1e5",
	"\\u0000", "�", "日本語", "\U0010ffff",
}

var longString = strings.Repeat("0123456789abcdef", 80) // 1280 bytes > pooled 1KiB buffer

func genStr() *rapid.Generator[string] {
	return rapid.OneOf(
		rapid.SampledFrom(hostileStrings),
		rapid.SampledFrom(hostileStrings),
		rapid.String(),
		rapid.Map(rapid.SliceOfN(rapid.Byte(), 0, 8), func(b []byte) string { return string(b) }),
		rapid.Map(rapid.IntRange(1, 60), func(n int) string {
			if n > 59 {
				return strings.Repeat(longString, 32)[:33000] // beyond any pooled or pre-sized buffer
			}
			n = n%3 + 1
			return strings.Repeat(longString, n)[:n*1100]
		}),
	)
}

// genKey draws field keys: small alphabet (forces duplicates) mixed with hostile ones.
func genKey() *rapid.Generator[string] {
	return rapid.OneOf(
		rapid.SampledFrom([]string{"a", "b", "c", "k", "a", "b"}),
		rapid.SampledFrom([]string{"", "k\"", "ü", "\xff", "a b", "a\nb", "\\", "msg", "level", "ts", "error", "aError", "Error"}),
		genStr(),
	)
}

var floatSpecials = []float64{
	math.NaN(), math.Inf(1), math.Inf(-1), math.Copysign(0, -1), 0, 1, -1, math.MaxFloat64, -math.MaxFloat64,
	math.SmallestNonzeroFloat64, 1e21, 1e20, 1e-7, 1e-6, 0.1, 1 << 53, 1<<53 + 1, 123456789.125,
	float64(math.MaxFloat32), float64(math.SmallestNonzeroFloat32), 1e-40, 16777216, 16777217, math.Pi,
	math.Float64frombits(0x7ff8000000000001), // NaN with payload
	math.Float64frombits(0xfff8000000000000), // negative NaN
	math.Float64frombits(0x000fffffffffffff), // largest subnormal
	// whole numbers at and around the integer-width boundaries (a formatter
	// that detours through an integer type overflows exactly here)
	1 << 63, -(1 << 63), 1 << 64, -(1 << 64), 1 << 62, 1<<63 + 2048, 1<<63 - 1024, -(1<<63 + 2048), 1 << 31, 1 << 32, -(1 << 31), 1<<31 - 1,
	1e15, 1e16, 1e17, 1e18, 1e19, -1e19, 4.5e18, 100, 1e6, 2.5, 0.5, -0.5, 1e22, 1e23, 255, 256, 65535, 65536, 4294967295, 4294967296,
	9007199254740993, 1.8446744073709552e19, 3.4028234663852886e38, 3.4028235677973366e38, 1.401298464324817e-45,
}

func genFloat() *rapid.Generator[float64] {
	return rapid.OneOf(rapid.Float64(), rapid.SampledFrom(floatSpecials),
		rapid.Map(rapid.Uint64(), func(b uint64) float64 { return math.Float64frombits(b) }),
		rapid.Map(genInt64(), func(n int64) float64 { return float64(n) }),                  // whole numbers of every magnitude
		rapid.Map(rapid.IntRange(-80, 80), func(e int) float64 { return math.Ldexp(1, e) }), // powers of two
		rapid.Map(rapid.IntRange(-30, 30), func(e int) float64 { return math.Pow(10, float64(e)) }))
}

func genFloat32() *rapid.Generator[float32] {
	return rapid.OneOf(rapid.Float32(),
		rapid.Map(rapid.SampledFrom(floatSpecials), func(f float64) float32 { return float32(f) }),
		rapid.Map(rapid.Uint32(), func(b uint32) float32 { return math.Float32frombits(b) }),
		rapid.Map(genInt64(), func(n int64) float32 { return float32(n) }),
		rapid.Map(rapid.IntRange(-80, 80), func(e int) float32 { return float32(math.Ldexp(1, e)) }))
}

func genComplex() *rapid.Generator[complex128] {
	return rapid.Custom(func(t *rapid.T) complex128 {
		return complex(genFloat().Draw(t, "re"), genFloat().Draw(t, "im"))
	})
}

var int64Specials = []int64{0, 1, -1, math.MaxInt64, math.MinInt64, math.MaxInt32, math.MinInt32, math.MaxInt32 + 1, math.MinInt32 - 1,
	math.MaxInt16, math.MinInt16, math.MaxInt8, math.MinInt8, 128, 255, 256, 65535, 65536, 1 << 53, 999999999, 1000000000, 1e6, 1e6 - 1, -1e6, -1e6 + 1}

var uint64Specials = []uint64{0, 1, math.MaxUint64, 1 << 63, 1<<63 - 1, math.MaxUint32, math.MaxUint32 + 1, math.MaxUint16, math.MaxUint8, 128, 1 << 31, 1 << 15}

func genInt64() *rapid.Generator[int64] {
	return rapid.OneOf(rapid.Int64(), rapid.SampledFrom(int64Specials))
}

func genUint64() *rapid.Generator[uint64] {
	return rapid.OneOf(rapid.Uint64(), rapid.SampledFrom(uint64Specials))
}

var (
	minTimeInt64 = time.Unix(0, math.MinInt64)
	maxTimeInt64 = time.Unix(0, math.MaxInt64)
)

func timeInNanoRange(t time.Time) bool {
	return !t.Before(minTimeInt64) && !t.After(maxTimeInt64)
}

var testLocations = func() []*time.Location {
	locs := []*time.Location{time.UTC, time.Local, time.FixedZone("a\"b\n", 3600), time.FixedZone("", -7200),
		time.FixedZone("Z\\", 0), time.FixedZone("UTC+5:45", 5*3600+45*60), time.FixedZone("\xff", -1),
		// zones that share a NAME but not their rules (what time.Parse produces for numeric offsets, and what
		// ambiguous abbreviations are): a location is identified by its pointer, never by its name
		time.FixedZone("", 3600), time.FixedZone("CST", -6*3600), time.FixedZone("CST", 8*3600), time.FixedZone("UTC", 5400), time.FixedZone("Local", -3*3600),
		// offsets WEST of Greenwich that are not whole hours (Newfoundland, Marquesas, local mean times), and the largest real offset
		time.FixedZone("NST", -(3*3600 + 1800)), time.FixedZone("MART", -(9*3600 + 1800)), time.FixedZone("LMT", -(44*60 + 30)), time.FixedZone("LINT", 14*3600)}
	for _, n := range []string{"America/New_York", "Asia/Kolkata", "Australia/Lord_Howe"} {
		if l, err := time.LoadLocation(n); err == nil {
			locs = append(locs, l)
		}
	}
	return locs
}()

// monoBase is the one wall-clock reading of the harness (taken once per process): the only way to obtain a
// time.Time that carries a monotonic reading. Only the "has a monotonic part" aspect matters to the oracles;
// the instant itself differs between runs (see DESIGN 9.5).
var monoBase = time.Now()

func genTime() *rapid.Generator[time.Time] {
	return rapid.Custom(func(t *rapid.T) time.Time {
		var tm time.Time
		switch rapid.IntRange(0, 10).Draw(t, "timeKind") {
		case 10:
			// a wall-clock reading that still carries its monotonic part (what time.Now returns)
			tm = monoBase.Add(-time.Duration(rapid.Int64Range(0, int64(400*24*time.Hour)).Draw(t, "ago")))
		case 0:
			return time.Time{} // zero time, nil location
		case 1:
			tm = time.Unix(1<<40, 0) // far future, outside int64 nanos
		case 2:
			tm = time.Unix(-(1 << 40), 5) // far past
		case 3:
			tm = time.Date(1, 1, 1, 0, 0, 0, 0, time.UTC)
		case 4:
			tm = rapid.SampledFrom([]time.Time{minTimeInt64, maxTimeInt64, minTimeInt64.Add(-1), maxTimeInt64.Add(1), time.Unix(0, 0), time.Unix(0, -1), time.Unix(0, 999999999), time.Unix(1, 500000)}).Draw(t, "edgeTime")
		case 5:
			tm = time.Date(rapid.IntRange(1970, 2200).Draw(t, "y"), time.Month(rapid.IntRange(1, 12).Draw(t, "mo")), rapid.IntRange(1, 28).Draw(t, "d"),
				rapid.IntRange(0, 23).Draw(t, "h"), rapid.IntRange(0, 59).Draw(t, "mi"), rapid.IntRange(0, 59).Draw(t, "s"), rapid.SampledFrom([]int{0, 1, 999, 1000, 999999, 1000000, 500000000, 999999999}).Draw(t, "ns"), time.UTC)
		default:
			tm = time.Unix(0, genInt64().Draw(t, "nanos"))
		}
		return tm.In(rapid.SampledFrom(testLocations).Draw(t, "loc"))
	})
}

func genDuration() *rapid.Generator[time.Duration] {
	return rapid.Map(genInt64(), func(n int64) time.Duration { return time.Duration(n) })
}

// ---- errors ----

type verboseErr struct{ s string }

func (e verboseErr) Error() string { return e.s }
func (e verboseErr) Format(f fmt.State, c rune) {
	if c == 'v' && f.Flag('+') {
		fmt.Fprint(f, e.s+"\nverbose\t\"x\"")
	} else {
		fmt.Fprint(f, e.s)
	}
}

// swapVerboseErr: %+v differs from Error() in CONTENT but not in length (a code instead of an operation name).
type swapVerboseErr struct{ s string }

func (e swapVerboseErr) Error() string { return "op:" + e.s }
func (e swapVerboseErr) Format(f fmt.State, c rune) {
	if c == 'v' && f.Flag('+') {
		fmt.Fprint(f, "E7:"+e.s)
	} else {
		fmt.Fprint(f, "op:"+e.s)
	}
}

// wrapManyVerboseErr: a rich error in the Go 1.20 style - it wraps SEVERAL errors (Unwrap() []error), which is not
// the Errors() []error convention zap expands into causes, and has a verbose %+v form like any other Formatter.
type wrapManyVerboseErr struct{ s string }

func (e wrapManyVerboseErr) Error() string { return e.s }
func (e wrapManyVerboseErr) Unwrap() []error {
	return []error{errors.New("wrapped one"), errors.New("wrapped two")}
}
func (e wrapManyVerboseErr) Format(f fmt.State, c rune) {
	if c == 'v' && f.Flag('+') {
		fmt.Fprint(f, e.s+"\nverbose\t\"x\"")
	} else {
		fmt.Fprint(f, e.s)
	}
}

// plainFmtErr implements fmt.Formatter but %+v == Error(): no Verbose key expected.
type plainFmtErr struct{ s string }

func (e plainFmtErr) Error() string              { return e.s }
func (e plainFmtErr) Format(f fmt.State, c rune) { fmt.Fprint(f, e.s) }

type groupErr struct {
	msg  string
	errs []error
}

func (m groupErr) Error() string   { return m.msg }
func (m groupErr) Errors() []error { return m.errs }

type ptrErr struct{ s string }

func (e *ptrErr) Error() string { return e.s } // panics on a nil receiver

type panicErr struct{ s string }

func (e panicErr) Error() string { panic(e.s) }

// detailErr / detailStringer / detailStruct are comparable-LOOKING struct types
// whose interface member may hold an uncomparable value (slice, map).
type detailErr struct {
	Op     string
	Detail any
}

func (e detailErr) Error() string { return e.Op }

type detailStringer struct {
	Op     string
	Detail any
}

func (s detailStringer) String() string { return s.Op }

type detailStruct struct {
	Op     string
	Detail any
}

func detailValue(sel int) any {
	switch sel % 4 {
	case 0:
		return []int{1, 2}
	case 1:
		return map[string]int{"a": 1}
	case 2:
		return nil
	}
	return 7
}

// errSpec is a typed description of an error value; build() makes the Go
// value, the expectation is derived from the description.
type errSpec struct {
	Kind string // plain verbose plainfmt group nilptr panic ptr
	Msg  string
	Kids []*errSpec // group members; nil entries = nil error
}

func (e *errSpec) build() error {
	if e == nil {
		return nil
	}
	switch e.Kind {
	case "plain":
		return errors.New(e.Msg)
	case "verbose":
		return verboseErr{e.Msg}
	case "plainfmt":
		return plainFmtErr{e.Msg}
	case "swapverbose":
		return swapVerboseErr{e.Msg}
	case "wrapmany-verbose":
		return wrapManyVerboseErr{e.Msg}
	case "joined":
		// errors.Join: an error like any other for zap (its text is the members' texts, one per line)
		return errors.Join(errors.New(e.Msg), errors.New("joined"))
	case "group":
		g := groupErr{msg: e.Msg}
		for _, k := range e.Kids {
			g.errs = append(g.errs, k.build())
		}
		return g
	case "nilptr":
		var p *ptrErr
		return p
	case "ptr":
		return &ptrErr{e.Msg}
	case "panic":
		return panicErr{e.Msg}
	case "detail":
		return detailErr{e.Msg, detailValue(len(e.Msg))}
	}
	panic("errSpec kind " + e.Kind)
}

func (e *errSpec) hasFault() bool {
	if e == nil {
		return false
	}
	if e.Kind == "panic" || e.Kind == "nilptr" {
		return true
	}
	for _, k := range e.Kids {
		if k.hasFault() {
			return true
		}
	}
	return false
}

func genErrSpec(t *rapid.T, depth int, faults bool) *errSpec {
	if depth >= 2 && rapid.IntRange(0, 39).Draw(t, "deepErrorGroup") == 0 {
		// error groups nested far deeper than usual: causes are expanded at every level
		n := rapid.SampledFrom([]int{5, 8, 9, 12, 40}).Draw(t, "groupDepth")
		cur := &errSpec{Kind: "plain", Msg: "innermost"}
		for i := n; i >= 1; i-- {
			cur = &errSpec{Kind: "group", Msg: fmt.Sprintf("level %d", i), Kids: []*errSpec{cur}}
			if i%3 == 0 {
				cur.Kids = append(cur.Kids, &errSpec{Kind: "plain", Msg: "sibling"})
			}
		}
		return cur
	}
	kinds := []string{"plain", "plain", "verbose", "plainfmt", "ptr", "detail", "swapverbose", "wrapmany-verbose", "joined"}
	if depth > 0 {
		kinds = append(kinds, "group", "group")
	}
	if faults {
		kinds = append(kinds, "nilptr", "panic")
	}
	e := &errSpec{Kind: rapid.SampledFrom(kinds).Draw(t, "errKind"), Msg: genStr().Draw(t, "errMsg")}
	if e.Kind == "group" {
		n := rapid.IntRange(0, 3).Draw(t, "nErrs")
		for i := 0; i < n; i++ {
			if rapid.IntRange(0, 4).Draw(t, "nilMember") == 0 {
				e.Kids = append(e.Kids, nil)
			} else {
				e.Kids = append(e.Kids, genErrSpec(t, depth-1, faults))
			}
		}
	}
	return e
}

// ---- stringers ----

type okStringer struct{ s string }

func (s okStringer) String() string { return s.s }

type ptrStringer struct{ s string }

func (s *ptrStringer) String() string { return s.s } // panics on nil receiver

// nilSafeStringer's String is meaningful on a nil receiver: the value itself must be asked, nil or not.
type nilSafeStringer struct{ s string }

func (s *nilSafeStringer) String() string {
	if s == nil {
		return "nil-safe default"
	}
	return s.s
}

type panicStringer struct{ s string }

func (s panicStringer) String() string { panic(s.s) }

// sliceStringer has an uncomparable dynamic type.
type sliceStringer []string

func (s sliceStringer) String() string { return strings.Join(s, "|") }

type strSpec struct {
	Kind string // ok ptr nilptr panic slice
	S    string
}

func (s strSpec) build() fmt.Stringer {
	switch s.Kind {
	case "ok":
		return okStringer{s.S}
	case "ptr":
		return &ptrStringer{s.S}
	case "nilptr":
		var p *ptrStringer
		return p
	case "panic":
		return panicStringer{s.S}
	case "nilsafe":
		var p *nilSafeStringer // a nil pointer whose String method copes with a nil receiver (like *time.Location)
		return p
	case "slice":
		return sliceStringer{s.S, "x"}
	case "detail":
		return detailStringer{s.S, detailValue(len(s.S))}
	}
	panic("strSpec " + s.Kind)
}

// want returns the expected string, or the expected error text (PANIC=...).
func (s strSpec) want() (val string, errText string) {
	switch s.Kind {
	case "ok", "ptr", "detail":
		return s.S, ""
	case "nilptr":
		return "<nil>", ""
	case "nilsafe":
		return "nil-safe default", ""
	case "slice":
		return s.S + "|x", ""
	}
	return "", "PANIC=" + s.S
}

func genStrSpec(t *rapid.T, faults bool) strSpec {
	kinds := []string{"ok", "ptr", "slice", "detail", "nilsafe"}
	if faults {
		kinds = append(kinds, "nilptr", "panic")
	}
	return strSpec{Kind: rapid.SampledFrom(kinds).Draw(t, "stringerKind"), S: genStr().Draw(t, "stringerVal")}
}

// ---- reflected values ----

type reflStruct struct {
	X string         `json:"x"`
	Y []int          `json:"y,omitempty"`
	Z map[string]any `json:"z,omitempty"`
	F float64
	p int
}

// genReflect returns a value for zap.Reflect and whether encoding/json can
// encode it.
// reflNilSet / reflCSV: named collection types whose value-receiver marshalers give a nil value a non-null form.
type reflNilSet map[string]bool

func (s reflNilSet) MarshalJSON() ([]byte, error) {
	keys := make([]string, 0, len(s))
	for k := range s {
		keys = append(keys, k)
	}
	sort.Strings(keys)
	return json.Marshal(keys)
}

type reflCSV []string

func (c reflCSV) MarshalText() ([]byte, error) { return []byte(strings.Join(c, ",")), nil }

func genReflect(t *rapid.T, faults bool) (v any, label string) {
	if rapid.IntRange(0, 24).Draw(t, "bigReflected") == 0 {
		// a reflected value whose encoding is far larger than any pooled scratch buffer starts with
		return map[string]any{"big": strings.Repeat("0123456789abcdef", rapid.SampledFrom([]int{70, 1100, 4200}).Draw(t, "bigLen")), "n": 1}, "bigmap"
	}
	if rapid.IntRange(0, 11).Draw(t, "typedNilReflected") == 0 {
		// typed nils: encoding/json prints null for most, but CALLS the value-receiver marshaler of a named
		// map/slice type even when the value is nil (a nil set is an empty list, not null)
		return []any{reflNilSet(nil), reflCSV(nil), (*reflStruct)(nil), map[string]int(nil), []string(nil), reflNilSet{"a": true}, (*int)(nil)}[rapid.IntRange(0, 6).Draw(t, "typedNil")], "typed nil"
	}
	n := 9
	if faults {
		n = 13
	}
	switch rapid.IntRange(0, n).Draw(t, "reflKind") {
	case 0:
		return nil, "nil"
	case 1:
		return map[string]any{genStr().Draw(t, "mk"): genStr().Draw(t, "mv"), "n": 1.5}, "map"
	case 2:
		return reflStruct{X: genStr().Draw(t, "sx"), Y: []int{1, 2}, F: 0.25}, "struct"
	case 3:
		return json.RawMessage("{ \"a\" :\n [1, 2 ,\t\"<&>\"] }"), "rawmsg"
	case 4:
		return []any{1, "<a>", nil, true, map[string]int{"z": 1, "a": 2}}, "slice"
	case 5:
		return &reflStruct{X: "<&> ", Z: map[string]any{"k": []string{"\xff"}}}, "ptrstruct"
	case 6:
		return [2]bool{true, false}, "array"
	case 7:
		return genStr().Draw(t, "rs"), "string" // via Reflect explicitly
	case 8:
		return struct{}{}, "empty"
	case 9:
		return detailStruct{"op", detailValue(rapid.IntRange(0, 3).Draw(t, "detail"))}, "struct-with-interface-member"
	case 10:
		return make(chan int), "chan(unencodable)"
	case 11:
		return map[string]float64{"x": math.NaN()}, "nanmap(unencodable)"
	case 12:
		return math.NaN(), "nanfloat(unencodable)"
	default:
		return func() {}, "func(unencodable)"
	}
}

// ---- values implementing SEVERAL of the interfaces zap.Any looks for ----
//
// The representations deliberately differ (Error() != String() != the
// marshaled form), so a dispatch that picks another interface is visible.

type objErr struct{ s string }

func (e objErr) Error() string { return "error:" + e.s }
func (e objErr) MarshalLogObject(enc zapcore.ObjectEncoder) error {
	enc.AddString("obj", e.s)
	return nil
}

type arrErr struct{ s string }

func (e arrErr) Error() string { return "error:" + e.s }
func (e arrErr) MarshalLogArray(enc zapcore.ArrayEncoder) error {
	enc.AppendString("arr:" + e.s)
	return nil
}

type objStringer struct{ s string }

func (e objStringer) String() string { return "string:" + e.s }
func (e objStringer) MarshalLogObject(enc zapcore.ObjectEncoder) error {
	enc.AddString("obj", e.s)
	return nil
}

type arrStringer struct{ s string }

func (e arrStringer) String() string { return "string:" + e.s }
func (e arrStringer) MarshalLogArray(enc zapcore.ArrayEncoder) error {
	enc.AppendString("arr:" + e.s)
	return nil
}

type objArr struct{ s string }

func (e objArr) MarshalLogObject(enc zapcore.ObjectEncoder) error {
	enc.AddString("obj", e.s)
	return nil
}
func (e objArr) MarshalLogArray(enc zapcore.ArrayEncoder) error {
	enc.AppendString("arr:" + e.s)
	return nil
}

type errStringer struct{ s string }

func (e errStringer) Error() string  { return "error:" + e.s }
func (e errStringer) String() string { return "string:" + e.s }

type allFour struct{ s string }

func (e allFour) Error() string  { return "error:" + e.s }
func (e allFour) String() string { return "string:" + e.s }
func (e allFour) MarshalLogObject(enc zapcore.ObjectEncoder) error {
	enc.AddString("obj", e.s)
	return nil
}
func (e allFour) MarshalLogArray(enc zapcore.ArrayEncoder) error {
	enc.AppendString("arr:" + e.s)
	return nil
}

// named scalar types with methods: not the built-in type, so Any must go by
// the interface.
type strErr string

func (e strErr) Error() string { return "error:" + string(e) }

type durStringer time.Duration

func (d durStringer) String() string { return "string:" + time.Duration(d).String() }

type boolStringer bool

func (b boolStringer) String() string { return "string:bool" }

type intErr int

func (e intErr) Error() string { return fmt.Sprintf("error:%d", int(e)) }

// genMultiIface draws a value implementing more than one (or a surprising one)
// of ObjectMarshaler / ArrayMarshaler / error / fmt.Stringer, and the name of
// the representation zap.Any is expected to choose by its documented order
// (object, array, ..., error, Stringer, reflection).
func genMultiIface(t *rapid.T) (v any, want string) {
	s := genStr().Draw(t, "multiVal")
	switch rapid.IntRange(0, 10).Draw(t, "multiKind") {
	case 0:
		return objErr{s}, "object"
	case 1:
		return arrErr{s}, "array"
	case 2:
		return objStringer{s}, "object"
	case 3:
		return arrStringer{s}, "array"
	case 4:
		return objArr{s}, "object"
	case 5:
		return errStringer{s}, "error"
	case 6:
		return allFour{s}, "object"
	case 7:
		return strErr(s), "error"
	case 8:
		return durStringer(rapid.Int64().Draw(t, "d")), "stringer"
	case 9:
		return boolStringer(rapid.Bool().Draw(t, "b")), "stringer"
	default:
		return intErr(rapid.Int().Draw(t, "i")), "error"
	}
}
