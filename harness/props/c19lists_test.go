package props

import (
	"errors"
	"fmt"
	"os"
	"path/filepath"
	"strings"
	"testing"

	"go.uber.org/zap"
	"go.uber.org/zap/zapcore"
	"pgregory.net/rapid"
)

// propC19BuildLists: output and error-output lists drawn from ONE small pool of destinations, so that a destination
// is listed twice in a list, in both lists, in the other order. Whatever the lists look like, after a successful Build
// every destination listed under OutputPaths receives every entry and every destination listed under ErrorOutputPaths
// receives every internal error (how often a destination that is listed k times receives it is left open: at least
// once, at most k times), and nothing else does.
func propC19BuildLists(t *rapid.T) {
	c19Mu.Lock()
	defer c19Mu.Unlock()
	ctlRegister(t)
	dir := c19Dir(t)
	defer os.RemoveAll(dir)
	if devnull, err := os.OpenFile(os.DevNull, os.O_WRONLY, 0); err == nil {
		so, se := os.Stdout, os.Stderr
		os.Stdout, os.Stderr = devnull, devnull
		defer func() { os.Stdout, os.Stderr = so, se; devnull.Close() }()
	}
	c19RegCounter++
	pool := []string{
		fmt.Sprintf("%s://ok/shared%d-a", ctlScheme, c19RegCounter),
		fmt.Sprintf("%s://ok/shared%d-b", ctlScheme, c19RegCounter),
		fmt.Sprintf("%s://ok/shared%d-c", ctlScheme, c19RegCounter),
		filepath.Join(dir, "f.log"),
		"file://" + filepath.Join(dir, "g.log"),
	}
	isFile := func(p string) string {
		if strings.HasPrefix(p, "file://") {
			return strings.TrimPrefix(p, "file://")
		}
		if filepath.IsAbs(p) {
			return p
		}
		return ""
	}
	draw := func(label string, min int) []string {
		idx := rapid.SliceOfN(rapid.IntRange(0, len(pool)-1), min, 4).Draw(t, label)
		out := make([]string, len(idx))
		for i, k := range idx {
			out[i] = pool[k]
		}
		return out
	}
	outs := draw("outs", 1)
	var errs []string
	switch rapid.SampledFrom([]string{"own", "own", "same", "reversed", "same set"}).Draw(t, "errsKind") {
	case "own":
		errs = draw("errs", 0)
	case "same":
		errs = append([]string{}, outs...)
	case "reversed":
		for i := len(outs) - 1; i >= 0; i-- {
			errs = append(errs, outs[i])
		}
	case "same set":
		// as long as the output list, every member of it at least once... or not quite
		errs = draw("errs", 0)
		for len(errs) < len(outs) {
			errs = append(errs, outs[len(errs)])
		}
		errs = errs[:len(outs)]
	}
	count := func(l []string) map[string]int {
		m := map[string]int{}
		for _, p := range l {
			m[p]++
		}
		return m
	}
	nOut, nErr := count(outs), count(errs)
	desc := fmt.Sprintf("OutputPaths=%v ErrorOutputPaths=%v", outs, errs)
	ctlMu.Lock()
	ctlOpened = nil
	ctlMu.Unlock()
	cfg := zap.NewProductionConfig()
	cfg.Sampling = nil
	cfg.OutputPaths, cfg.ErrorOutputPaths = outs, errs
	route := rapid.SampledFrom([]string{"Build", "Build", "NewProduction-like options"}).Draw(t, "route")
	var lg *zap.Logger
	var err error
	c19Watchdog(t, "Config.Build", desc, func() {
		if route == "Build" {
			lg, err = cfg.Build()
		} else {
			lg, err = cfg.Build(zap.Fields(zap.Int("pid", 1)), zap.AddCaller())
		}
	})
	if err != nil || lg == nil {
		t.Fatalf("Build: %v\n%s", err, desc)
	}
	lg.Info("the-entry")
	// an internal error: a core whose Write fails reports it on the error output
	failing := lg.WithOptions(zap.Hooks(func(zapcore.Entry) error { return errors.New("the-internal-error") }))
	failing.Info("second-entry")
	_ = lg.Sync()
	got := map[string]string{} // destination -> everything it received
	for _, s := range ctlOpened {
		got[s.name] += string(s.data)
	}
	for _, p := range pool {
		if f := isFile(p); f != "" {
			b, _ := os.ReadFile(f)
			got[p] = string(b)
		}
	}
	for _, p := range pool {
		entries := strings.Count(got[p], `"msg":"the-entry"`)
		seconds := strings.Count(got[p], `"msg":"second-entry"`)
		interr := strings.Count(got[p], "the-internal-error")
		if nOut[p] > 0 && (entries < 1 || entries > nOut[p] || seconds != entries) {
			t.Fatalf("destination %s is listed %d times under OutputPaths and received the first entry %d times, the second %d times\n%s", p, nOut[p], entries, seconds, desc)
		}
		if nOut[p] == 0 && entries+seconds != 0 {
			t.Fatalf("destination %s is not listed under OutputPaths and received %d entries\n%s", p, entries+seconds, desc)
		}
		if nErr[p] > 0 && (interr < 1 || interr > nErr[p]) {
			t.Fatalf("destination %s is listed %d times under ErrorOutputPaths and received the internal error %d times\n%s", p, nErr[p], interr, desc)
		}
		if nErr[p] == 0 && interr != 0 {
			t.Fatalf("destination %s is not listed under ErrorOutputPaths and received the internal error\n%s", p, desc)
		}
		if nOut[p]+nErr[p] == 0 && (got[p] != "" || (isFile(p) != "" && fileExists(isFile(p)))) {
			t.Fatalf("destination %s is listed nowhere and was opened\n%s", p, desc)
		}
	}
	for _, s := range ctlOpened {
		if nOut[s.name]+nErr[s.name] == 0 {
			t.Fatalf("a sink was opened for %s, which is listed nowhere\n%s", s.name, desc)
		}
	}
	dupOut, shared := false, false
	for p, n := range nOut {
		dupOut = dupOut || n > 1
		shared = shared || nErr[p] > 0
	}
	labels := []string{"path lists from one pool"}
	if dupOut {
		labels = append(labels, "a destination listed twice in one list")
	}
	if shared {
		labels = append(labels, "a destination in both lists")
	}
	statCase("C19", dupOut || shared, fmt.Sprintf("lists|%d|%d|%v|%v", len(outs), len(errs), dupOut, shared), labels...)
}

func fileExists(p string) bool {
	_, err := os.Stat(p)
	return err == nil
}

func TestC19BuildLists(t *testing.T) { rapid.Check(t, propC19BuildLists) }
