package props

import (
	"fmt"
	"testing"

	"go.uber.org/zap"
	"go.uber.org/zap/zapcore"
	"go.uber.org/zap/zaptest/observer"
	"pgregory.net/rapid"
)

// propC14LongLived: ONE family of sugared loggers used for a long time with the same (mostly malformed) argument
// lists: the hundredth and the four hundredth call leave exactly the records the first one left - every diagnostic
// is reported every time, nothing is rate-limited, deduplicated or worn out.
func propC14LongLived(t *rapid.T) {
	core, logs := observer.New(zapcore.DebugLevel)
	root := c14Variant(t, zap.New(core).Sugar())
	family := []*zap.SugaredLogger{root, root.Named("child"), root.With("ctx", 1)}
	nLists := rapid.IntRange(1, 3).Draw(t, "lists")
	type list struct {
		ca   []c14Arg
		args []any
		mode string
	}
	var lists []list
	malformed := false
	for i := 0; i < nLists; i++ {
		n := rapid.IntRange(1, 6).Draw(t, "nArgs")
		l := list{mode: rapid.SampledFrom([]string{"w", "w", "with", "withlazy"}).Draw(t, "mode")}
		for j := 0; j < n; j++ {
			a := genC14Arg(t)
			if _, isErr := a.v.(error); isErr && a.kind == "err" {
				// (bare errors whose text or behaviour changes from call to call would make repetitions differ for
				// reasons of their own)
				a = c14Arg{"err", fmt.Errorf("plain-%d", j)}
			}
			l.ca = append(l.ca, a)
			l.args = append(l.args, a.v)
		}
		_, diags := c14Reference(l.args)
		malformed = malformed || len(diags) > 0
		lists = append(lists, l)
	}
	rounds := rapid.SampledFrom([]int{30, 120, 250, 450}).Draw(t, "rounds")
	render := func(es []observer.LoggedEntry) string {
		out := ""
		for _, e := range es {
			out += fmt.Sprintf("[%v %q %s]", e.Level, e.Message, recString(append(append([]zapcore.Field{}, e.Context...))...))
		}
		return out
	}
	first := make([]string, len(lists)*len(family))
	for r := 0; r < rounds; r++ {
		for li, l := range lists {
			for fi, s := range family {
				func() {
					defer func() { _ = recover() }()
					switch l.mode {
					case "w":
						s.Infow("long-lived", l.args...)
					case "with":
						s.With(l.args...).Info("long-lived")
					default:
						s.WithLazy(l.args...).Info("long-lived")
					}
				}()
				got := render(logs.TakeAll())
				k := li*len(family) + fi
				if r == 0 {
					first[k] = got
					continue
				}
				if got != first[k] {
					t.Fatalf("round %d: the records left by the same call on the same logger differ from those of the first round\nargs: %s (mode %s, logger %d)\nfirst: %s\nnow:   %s", r+1, renderArgs(l.ca), l.mode, fi, clipS(first[k]), clipS(got))
				}
			}
		}
	}
	statCase("C14", malformed && rounds >= 120, fmt.Sprintf("long|%d|%d|%v", nLists, rounds, malformed), "long-lived sugared logger family", fmt.Sprintf("%d rounds", rounds))
}

func TestC14LongLived(t *testing.T) { rapid.Check(t, propC14LongLived) }
