package props

// C18 — the slog handler reproduces slog's attribute and group semantics.

import (
	"bytes"
	"context"
	"errors"
	"fmt"
	"log/slog"
	"math"
	"strings"
	"testing"
	"time"

	"go.uber.org/zap"
	"go.uber.org/zap/exp/zapslog"
	"go.uber.org/zap/zapcore"
	"go.uber.org/zap/zaptest/observer"
	"pgregory.net/rapid"
)

type c18Valuer struct{ v slog.Value }

func (l c18Valuer) LogValue() slog.Value { return l.v }

var c18Keys = []string{"a", "b", "c", "g", "a", "k\"", "ü"}

var c18Cfg = zapcore.EncoderConfig{MessageKey: "msg", LevelKey: "lvl", NameKey: "name", EncodeLevel: zapcore.LowercaseLevelEncoder,
	EncodeDuration: zapcore.NanosDurationEncoder, EncodeTime: zapcore.RFC3339NanoTimeEncoder}
var c18CfgSpec = &cfgSpec{cfg: c18Cfg, timeEnc: "rfc3339nano", durEnc: "nanos", levelEnc: "lower", nameEnc: "nil"}

// genC18Attr draws an attribute tree. solidOnly: the attr is guaranteed to
// produce output (used as first member of non-empty groups, D5).
func genC18Attr(t *rapid.T, depth int, solidOnly bool) slog.Attr {
	key := rapid.SampledFrom(c18Keys).Draw(t, "attrKey")
	max := 13
	if solidOnly {
		max = 7
	}
	k := rapid.IntRange(0, max).Draw(t, "attrKind")
	if depth <= 0 && k >= 9 && k <= 11 {
		k = 0
	}
	if !solidOnly && rapid.IntRange(0, 7).Draw(t, "keylessAttr") == 0 {
		// an attribute without a key is not an EMPTY attribute unless its value is the zero Value too
		key = ""
	}
	switch k {
	case 0:
		return slog.String(key, genStr().Draw(t, "sv"))
	case 1:
		return slog.Int64(key, genInt64().Draw(t, "iv"))
	case 2:
		return slog.Bool(key, rapid.Bool().Draw(t, "bv"))
	case 3:
		return slog.Uint64(key, genUint64().Draw(t, "uv"))
	case 4:
		return slog.Duration(key, genDuration().Draw(t, "dv"))
	case 5:
		f := genFloat().Draw(t, "fv")
		return slog.Float64(key, f)
	case 6:
		tm := genTime().Draw(t, "tv")
		if tm.IsZero() {
			tm = time.Unix(1, 0).UTC()
		}
		return slog.Time(key, tm)
	case 7:
		vals := []any{errors.New("boom"), okStringer{"str"}, []int{1, 2}, map[string]int{"x": 1}, nil, int32(7), uint8(3), float32(1.5), []string{"a"}, struct{ A int }{1}, []byte("bin"), verboseErr{"v"}}
		return slog.Any(key, vals[rapid.IntRange(0, len(vals)-1).Draw(t, "anyVal")])
	case 8:
		return slog.Attr{} // empty attr: must be dropped
	case 9, 10:
		// non-empty group: first member solid (D5), key possibly empty (inline)
		if rapid.IntRange(0, 3).Draw(t, "inlineGroup") == 0 {
			key = ""
		}
		n := rapid.IntRange(1, 3).Draw(t, "groupLen")
		var as []any
		for i := 0; i < n; i++ {
			as = append(as, genC18Attr(t, depth-1, i == 0))
		}
		return slog.Group(key, as...)
	case 11:
		inner := genC18Attr(t, depth-1, false)
		return slog.Any(key, c18Valuer{inner.Value}) // LogValuer resolving to anything, incl. groups and nested valuers
	case 12:
		return slog.Any(key, c18Valuer{slog.GroupValue()}) // valuer resolving to an empty group
	default:
		return slog.Group(key) // literally empty group
	}
}

// c18ExpectAttr appends what attr a must contribute per the slog.Handler contract.
func c18ExpectAttr(a slog.Attr, out *[]xkv) {
	a.Value = a.Value.Resolve()
	if a.Equal(slog.Attr{}) {
		return // empty attr ignored
	}
	if a.Value.Kind() == slog.KindGroup {
		g := a.Value.Group()
		if len(g) == 0 {
			return // group without attributes ignored, even with a key
		}
		var sub []xkv
		for _, x := range g {
			c18ExpectAttr(x, &sub)
		}
		if a.Key == "" {
			*out = append(*out, sub...) // empty key: inline
			return
		}
		*out = append(*out, xkv{a.Key, &xnode{kind: "obj", kids: sub}})
		return
	}
	*out = append(*out, xkv{a.Key, c18Scalar(a.Key, a.Value)})
}

func c18Scalar(key string, v slog.Value) *xnode {
	switch v.Kind() {
	case slog.KindString:
		return xstr(uni(v.String()))
	case slog.KindInt64:
		return xint(v.Int64())
	case slog.KindUint64:
		return xuint(v.Uint64())
	case slog.KindBool:
		return xbool(v.Bool())
	case slog.KindDuration:
		return xdur(v.Duration())
	case slog.KindFloat64:
		return xf64(v.Float64())
	case slog.KindTime:
		return xtime(v.Time())
	}
	// KindAny: the representation zap.Any chooses for the dynamic value
	// (differential against zap.Any, which C02/C03 check on its own)
	buf, err := zapcore.NewJSONEncoder(zapcore.EncoderConfig{EncodeDuration: zapcore.NanosDurationEncoder, EncodeTime: zapcore.RFC3339NanoTimeEncoder, SkipLineEnding: true}).
		EncodeEntry(zapcore.Entry{}, []zapcore.Field{zap.Any("k", v.Any())})
	if err != nil {
		panic(err)
	}
	n, derr := decodeOrdered(buf.Bytes())
	if derr != nil || len(n.kids) == 0 {
		panic(fmt.Sprintf("reference for slog.Any undecodable: %v %q", derr, buf.String()))
	}
	// may expand into several keys (errors): wrap as raw multi-key marker
	return &xnode{kind: "anymulti", kids: n.kids}
}

type c18Step struct {
	group string
	attrs []slog.Attr
	isGrp bool
}

// c18Build: groups nest everything that follows; a group that ends up without
// content is not emitted.
func c18Build(steps []c18Step) []xkv {
	if len(steps) == 0 {
		return nil
	}
	s := steps[0]
	if s.isGrp {
		if s.group == "" {
			return c18Build(steps[1:]) // an empty name opens no group
		}
		inner := c18Build(steps[1:])
		if len(inner) == 0 {
			return nil
		}
		return []xkv{{s.group, &xnode{kind: "obj", kids: inner}}}
	}
	var out []xkv
	for _, a := range s.attrs {
		c18ExpectAttr(a, &out)
	}
	return append(out, c18Build(steps[1:])...)
}

// c18Flatten expands "anymulti" placeholders (a slog.Any value that zap.Any
// renders under key, keyVerbose, ...) using the attr's own key.
func c18Flatten(kids []xkv) []xkv {
	var out []xkv
	for _, kv := range kids {
		switch kv.v.kind {
		case "anymulti":
			for _, m := range kv.v.kids {
				// reference was encoded under key "k": re-key k -> kv.k, kVerbose -> kv.k+"Verbose" ...
				out = append(out, xkv{kv.k + strings.TrimPrefix(m.k, "k"), c18Exactify(m.v)})
			}
		case "obj":
			out = append(out, xkv{kv.k, &xnode{kind: "obj", kids: c18Flatten(kv.v.kids)}})
		default:
			out = append(out, kv)
		}
	}
	return out
}

// c18Exactify turns a decoded reference node into an expectation node.
func c18Exactify(n *xnode) *xnode {
	switch n.kind {
	case "num":
		return &xnode{kind: "numtext", s: n.s}
	case "obj":
		var ks []xkv
		for _, k := range n.kids {
			ks = append(ks, xkv{k.k, c18Exactify(k.v)})
		}
		return &xnode{kind: "obj", kids: ks}
	case "arr":
		var es []*xnode
		for _, e := range n.els {
			es = append(es, c18Exactify(e))
		}
		return &xnode{kind: "arr", els: es}
	}
	return n
}

func c18Cmp(path string, want, got *xnode) string {
	if want.kind == "numtext" {
		if got.kind != "num" || got.s != want.s {
			return fmt.Sprintf("%s: want number %s got %s %q", path, want.s, got.kind, got.s)
		}
		return ""
	}
	if want.kind == "obj" {
		if got.kind != "obj" {
			return fmt.Sprintf("%s: want object, got %s %q", path, got.kind, got.s)
		}
		for i, kv := range want.kids {
			if i >= len(got.kids) {
				return fmt.Sprintf("%s: missing key %q (object has %d members, want %d)", path, kv.k, len(got.kids), len(want.kids))
			}
			if got.kids[i].k != uni(kv.k) {
				return fmt.Sprintf("%s: member %d is %q, want %q", path, i, got.kids[i].k, uni(kv.k))
			}
			if e := c18Cmp(path+"."+kv.k, kv.v, got.kids[i].v); e != "" {
				return e
			}
		}
		if len(got.kids) > len(want.kids) {
			return fmt.Sprintf("%s: extra key %q", path, got.kids[len(want.kids)].k)
		}
		return ""
	}
	if want.kind == "arr" {
		if got.kind != "arr" || len(got.els) != len(want.els) {
			return fmt.Sprintf("%s: array mismatch", path)
		}
		for i := range want.els {
			if e := c18Cmp(fmt.Sprintf("%s[%d]", path, i), want.els[i], got.els[i]); e != "" {
				return e
			}
		}
		return ""
	}
	return cmpTree(path, want, got, c18CfgSpec)
}

// keyShape renders only keys and nesting (for the slog.JSONHandler differential).
func keyShape(n *xnode) string {
	if n.kind != "obj" || len(n.kids) == 0 {
		return ""
	}
	var parts []string
	for _, k := range n.kids {
		parts = append(parts, fmt.Sprintf("%q%s", k.k, keyShape(k.v)))
	}
	return "{" + strings.Join(parts, ",") + "}"
}

type c18Node struct {
	h     slog.Handler
	ref   slog.Handler // slog's own JSON handler, same derivations
	steps []c18Step
	id    int
}

func c18ZapLevel(l slog.Level) zapcore.Level {
	switch {
	case l >= slog.LevelError:
		return zapcore.ErrorLevel
	case l >= slog.LevelWarn:
		return zapcore.WarnLevel
	case l >= slog.LevelInfo:
		return zapcore.InfoLevel
	}
	return zapcore.DebugLevel
}

// c18MutValuer resolves to the CURRENT value of a counter the property changes between records.
type c18MutValuer struct{ p *int }

func (v c18MutValuer) LogValue() slog.Value { return slog.IntValue(*v.p) }

// c18Shape renders an attribute WITHOUT resolving it: what the caller handed over.
func c18Shape(a slog.Attr) string {
	switch a.Value.Kind() {
	case slog.KindGroup:
		var sb strings.Builder
		fmt.Fprintf(&sb, "%q:group[", a.Key)
		for _, m := range a.Value.Group() {
			sb.WriteString(c18Shape(m))
			sb.WriteByte(' ')
		}
		sb.WriteByte(']')
		return sb.String()
	case slog.KindLogValuer:
		return fmt.Sprintf("%q:valuer(%T)", a.Key, a.Value.Any())
	}
	return fmt.Sprintf("%q:%v", a.Key, a.Value.Kind())
}

func c18Shapes(as []slog.Attr) string {
	var sb strings.Builder
	for _, a := range as {
		sb.WriteString(c18Shape(a))
		sb.WriteByte(';')
	}
	return sb.String()
}

func propC18(t *rapid.T) {
	sink := &memSink{}
	th := zapcore.Level(rapid.IntRange(-1, 3).Draw(t, "coreThreshold"))
	al := zap.NewAtomicLevelAt(th)
	var core zapcore.Core = zapcore.NewCore(zapcore.NewJSONEncoder(c18Cfg), sink, al)
	// the handler may sit on top of any core: one that already carries context (possibly ending in an
	// open namespace, under which everything the handler adds must nest), wrappers, a tee with an observer
	coreWrap := rapid.SampledFrom([]string{"plain", "plain", "ctx", "ctx-ns", "lazy", "sampler", "hooked", "tee-observer", "increase", "tee-quiet"}).Draw(t, "coreWrap")
	var obsLogs, quietLogs *observer.ObservedLogs
	switch coreWrap {
	case "ctx":
		core = core.With([]zapcore.Field{zap.String("cx", "v")})
	case "ctx-ns":
		core = core.With([]zapcore.Field{zap.String("cx", "v"), zap.Namespace("cns")})
	case "lazy":
		core = zapcore.NewLazyWith(core, []zapcore.Field{zap.String("cx", "v")})
	case "sampler":
		core = zapcore.NewSamplerWithOptions(core, time.Hour, 1<<30, 0)
	case "hooked":
		core = zapcore.RegisterHooks(core, func(zapcore.Entry) error { return nil })
	case "tee-observer":
		var oc zapcore.Core
		oc, obsLogs = observer.New(al)
		core = zapcore.NewTee(oc, core)
	case "increase":
		if c, err := zapcore.NewIncreaseLevelCore(core, al); err == nil {
			core = c
		}
	case "tee-quiet":
		// a second destination with a level of its OWN (errors only): each branch of a tee receives exactly the
		// records whose mapped level it enables itself
		var qc zapcore.Core
		qc, quietLogs = observer.New(zapcore.ErrorLevel)
		core = zapcore.NewTee(core, qc)
	}
	name := rapid.SampledFrom([]string{"", "svc"}).Draw(t, "handlerName")
	var refBuf bytes.Buffer
	refOpts := &slog.HandlerOptions{Level: slog.Level(-100), ReplaceAttr: func(groups []string, a slog.Attr) slog.Attr {
		if len(groups) == 0 && (a.Key == slog.TimeKey || a.Key == slog.LevelKey || a.Key == slog.MessageKey) {
			return slog.Attr{}
		}
		return a
	}}
	root := &c18Node{h: zapslog.NewHandler(core, zapslog.WithName(name)), ref: slog.NewJSONHandler(&refBuf, refOpts)}
	nodes := []*c18Node{root}
	nder := rapid.IntRange(0, 9).Draw(t, "nDerivations")
	groupBias := rapid.IntRange(1, 9).Draw(t, "groupBias") // some cases are mostly WithGroup chains (pending groups)
	deferredOpen, emptyViaWithAttrs := false, false
	var hist []string
	for i := 0; i < nder; i++ {
		p := nodes[len(nodes)-1]
		switch rapid.IntRange(0, 3).Draw(t, "parentChoice") {
		case 0:
			p = nodes[rapid.IntRange(0, len(nodes)-1).Draw(t, "parent")]
		case 1:
			if len(nodes) >= 2 {
				p = nodes[len(nodes)-2] // sibling of the previous derivation
			}
		}
		n := &c18Node{steps: append([]c18Step{}, p.steps...), id: len(nodes)}
		if rapid.IntRange(0, 9).Draw(t, "isGroup") < groupBias {
			g := rapid.SampledFrom([]string{"G", "H", "", "a", "G"}).Draw(t, "groupName")
			n.h, n.ref = p.h.WithGroup(g), p.ref
			if g != "" { // slog.Logger itself never forwards an empty group name to its handler
				n.ref = p.ref.WithGroup(g)
			}
			n.steps = append(n.steps, c18Step{group: g, isGrp: true})
			hist = append(hist, fmt.Sprintf("#%d=#%d.WithGroup(%q)", n.id, p.id, g))
		} else {
			na := rapid.IntRange(0, 3).Draw(t, "nAttrs")
			var as []slog.Attr
			for j := 0; j < na; j++ {
				as = append(as, genC18Attr(t, 2, false))
			}
			shapeBefore := c18Shapes(as)
			n.h, n.ref = p.h.WithAttrs(as), p.ref.WithAttrs(as)
			if after := c18Shapes(as); after != shapeBefore {
				t.Fatalf("WithAttrs modified the attributes the caller handed over:\n before: %s\n after:  %s", clipS(shapeBefore), clipS(after))
			}
			n.steps = append(n.steps, c18Step{attrs: as})
			hist = append(hist, fmt.Sprintf("#%d=#%d.WithAttrs(%v)", n.id, p.id, as))
			if len(as) > 0 {
				var first []xkv
				c18ExpectAttr(as[0], &first)
				pendingGroup := len(p.steps) > 0 && p.steps[len(p.steps)-1].isGrp && p.steps[len(p.steps)-1].group != ""
				if len(first) == 0 {
					emptyViaWithAttrs = true
					if pendingGroup {
						deferredOpen = true
					}
				}
			}
		}
		nodes = append(nodes, n)
	}
	// a group attribute the caller keeps and reuses for several records; it holds a LogValuer whose result changes
	counter := 0
	sharedGroup := slog.Group("shared", slog.String("s", "v"), slog.Any("now", c18MutValuer{&counter}), slog.Group("in", slog.Any("n", c18MutValuer{&counter})))
	// log through every handler (children before parents and again in a drawn order)
	order := append(rapid.Permutation(nodes).Draw(t, "order"), rapid.Permutation(nodes).Draw(t, "order2")...)
	emptyViaValuer := false
	for _, n := range order {
		if rapid.IntRange(0, 3).Draw(t, "changeCoreLevel") == 0 {
			// the core's level may change after handlers were built and derived
			th = zapcore.Level(rapid.IntRange(-1, 3).Draw(t, "newCoreThreshold"))
			al.SetLevel(th)
		}
		lvl := slog.Level(rapid.OneOf(rapid.IntRange(-8, 12), rapid.IntRange(-8, 12), rapid.IntRange(-8, 12),
			rapid.SampledFrom([]int{-1024, -516, -512, -260, -257, -256, -129, -128, 124, 127, 128, 255, 256, 260, 511, 512, 516, 1024, math.MaxInt, math.MinInt})).Draw(t, "slogLevel"))
		zl := c18ZapLevel(lvl)
		msg := genStr().Draw(t, "msg")
		var rtime time.Time
		r := slog.NewRecord(rtime, lvl, msg, 0)
		nr := rapid.IntRange(0, 3).Draw(t, "nRecordAttrs")
		for j := 0; j < nr; j++ {
			r.AddAttrs(genC18Attr(t, 2, false))
		}
		if rapid.IntRange(0, 2).Draw(t, "reuseSharedGroup") == 0 {
			counter++
			r.AddAttrs(sharedGroup)
		}
		var actual []slog.Attr
		r.Attrs(func(a slog.Attr) bool {
			actual = append(actual, a)
			if a.Value.Kind() == slog.KindLogValuer && a.Value.Resolve().Kind() == slog.KindGroup && len(a.Value.Resolve().Group()) == 0 {
				emptyViaValuer = true
			}
			return true
		})
		wantHandled := zl >= th
		// slog.Handler: "Canceling the context should not affect record processing"
		ctx := context.Background()
		switch rapid.IntRange(0, 5).Draw(t, "contextState") {
		case 0:
			c, cancel := context.WithCancel(context.Background())
			cancel()
			ctx = c
		case 1:
			c, cancel := context.WithDeadline(context.Background(), time.Unix(0, 0))
			defer cancel()
			ctx = c
		}
		quietWants := quietLogs != nil && zl >= zapcore.ErrorLevel
		if got := n.h.Enabled(ctx, lvl); got != (wantHandled || quietWants) {
			t.Fatalf("handler #%d Enabled(%v)=%v but the core enables mapped level %v: %v", n.id, lvl, got, zl, wantHandled)
		}
		if rapid.IntRange(0, 5).Draw(t, "abortedRecordFirst") == 0 {
			// an earlier record, through this or another handler over the same core, whose value panics while it is being
			// encoded (user code; the caller recovers, as a request handler would): the records that follow are what they
			// would have been anyway
			victim := nodes[rapid.IntRange(0, len(nodes)-1).Draw(t, "abortedVia")]
			w0, q0 := len(sink.writes), 0
			if quietLogs != nil {
				q0 = quietLogs.Len()
			}
			func() {
				defer func() { _ = recover() }()
				ar := slog.NewRecord(rtime, slog.LevelError+4, "aborted", 0)
				ar.AddAttrs(slog.String("secret", "token"), slog.Group("request", slog.Int("id", 7), slog.Any("boom", c08PanicObj{})))
				_ = victim.h.Handle(context.Background(), ar)
			}()
			// (whatever the aborted record left in the sinks is its own business)
			sink.writes = sink.writes[:w0]
			if obsLogs != nil {
				obsLogs.TakeAll()
			}
			if quietLogs != nil && quietLogs.Len() != q0 {
				quietLogs.TakeAll()
				t.Skip("the aborted record reached the observing branch: its bookkeeping starts over")
			}
		}
		before := len(sink.writes)
		shapeBefore := c18Shapes(actual)
		if err := n.h.Handle(ctx, r); err != nil {
			t.Fatalf("Handle: %v", err)
		}
		if after := c18Shapes(actual); after != shapeBefore {
			t.Fatalf("Handle modified the attributes the caller handed over:\n before: %s\n after:  %s", clipS(shapeBefore), clipS(after))
		}
		if quietLogs != nil {
			if got := len(quietLogs.TakeAll()); (got == 1) != quietWants || got > 1 {
				t.Fatalf("handler #%d over a tee: the errors-only branch received %d entries for a record at slog level %v (zap %v)", n.id, got, lvl, zl)
			}
		}
		handled := len(sink.writes) - before
		if (handled == 1) != wantHandled || handled > 1 {
			t.Fatalf("record at slog level %v (zap %v, core threshold %v) produced %d lines", lvl, zl, th, handled)
		}
		if !wantHandled {
			continue
		}
		line := sink.writes[len(sink.writes)-1]
		why, got := checkJSONLine(line, "\n")
		if why != "" {
			t.Fatalf("malformed line: %s: %q", why, line)
		}
		want := &xnode{kind: "obj"}
		want.kids = append(want.kids, xkv{"lvl", xstr(zl.String())})
		if name != "" {
			want.kids = append(want.kids, xkv{"name", xstr(name)})
		}
		want.kids = append(want.kids, xkv{"msg", xstr(uni(msg))})
		steps := append(append([]c18Step{}, n.steps...), c18Step{attrs: actual})
		fromHandler := c18Flatten(c18Build(steps))
		switch coreWrap {
		case "ctx", "lazy":
			want.kids = append(want.kids, xkv{"cx", xstr("v")})
			want.kids = append(want.kids, fromHandler...)
		case "ctx-ns":
			want.kids = append(want.kids, xkv{"cx", xstr("v")}, xkv{"cns", &xnode{kind: "obj", kids: fromHandler}})
		default:
			want.kids = append(want.kids, fromHandler...)
		}
		if obsLogs != nil {
			if es := obsLogs.TakeAll(); len(es) != 1 || es[0].Message != msg || es[0].Level != zl {
				t.Fatalf("handler #%d over a tee: the observer branch recorded %d entries for one handled record (%v)", n.id, len(es), es)
			}
		}
		if e := c18Cmp("$", want, got); e != "" {
			t.Fatalf("handler #%d output violates the slog.Handler contract: %s\n line: %s\n want: %s\n derivations: %s\n record attrs: %v", n.id, e, line, renderX(want), strings.Join(hist, " ; "), actual)
		}
		// secondary differential against slog's own JSON handler: keys and nesting
		refBuf.Reset()
		if err := n.ref.Handle(context.Background(), r); err == nil {
			if rn, derr := decodeOrdered(bytes.TrimSpace(refBuf.Bytes())); derr == nil {
				meta := 2
				if name != "" {
					meta = 3
				}
				gotAttrs := &xnode{kind: "obj", kids: got.kids[meta:]}
				if a, b := keyShape(gotAttrs), keyShape(rn); a != b && !c18HasMultiKey(steps) && c18AllSolid(steps) && (coreWrap == "plain" || coreWrap == "sampler" || coreWrap == "hooked" || coreWrap == "tee-observer" || coreWrap == "increase") {
					t.Fatalf("handler #%d: key nesting differs from slog.JSONHandler for the same derivations and record:\n zap:  %s\n slog: %s\n derivations: %s\n record attrs: %v", n.id, a, b, strings.Join(hist, " ; "), actual)
				}
			}
		}
	}
	nt := deferredOpen || emptyViaWithAttrs || emptyViaValuer
	var labels []string
	if deferredOpen {
		labels = append(labels, "WithGroup then WithAttrs whose first attr is empty (deferred group opening)")
	}
	if emptyViaWithAttrs {
		labels = append(labels, "empty attr/group via WithAttrs")
	}
	if emptyViaValuer {
		labels = append(labels, "empty group via LogValuer")
	}
	sig := ""
	for _, n := range nodes[1:] {
		s := n.steps[len(n.steps)-1]
		if s.isGrp {
			sig += fmt.Sprintf("g%q", s.group)
		} else {
			sig += fmt.Sprintf("a%d", len(s.attrs))
		}
	}
	statCase("C18", nt, fmt.Sprintf("%s|th%d|d%v w%v v%v", sig, th, deferredOpen, emptyViaWithAttrs, emptyViaValuer), labels...)
	if nt {
		statSample("C18", func() string { return strings.Join(hist, " ; ") })
	}
}

// c18AllSolid: no attribute on the path vanishes (empty attr, empty group,
// valuer resolving to one). Only then is slog.JSONHandler an unambiguous
// reference: it decides emptiness before resolving LogValuers.
func c18AllSolid(steps []c18Step) bool {
	var solid func(a slog.Attr) bool
	solid = func(a slog.Attr) bool {
		if a.Value.Kind() == slog.KindLogValuer {
			return false
		}
		if a.Equal(slog.Attr{}) {
			return false
		}
		if a.Value.Kind() == slog.KindGroup {
			if len(a.Value.Group()) == 0 {
				return false
			}
			for _, x := range a.Value.Group() {
				if !solid(x) {
					return false
				}
			}
		}
		return true
	}
	for _, s := range steps {
		for _, a := range s.attrs {
			if !solid(a) {
				return false
			}
		}
	}
	return true
}

// c18HasMultiKey: values that zap renders under several keys (errors with a
// verbose form) legitimately differ from slog.JSONHandler's key set.
func c18HasMultiKey(steps []c18Step) bool {
	var has func(a slog.Attr) bool
	has = func(a slog.Attr) bool {
		v := a.Value.Resolve()
		if v.Kind() == slog.KindGroup {
			for _, x := range v.Group() {
				if has(x) {
					return true
				}
			}
			return false
		}
		if v.Kind() == slog.KindAny {
			if _, ok := v.Any().(verboseErr); ok {
				return true
			}
		}
		return false
	}
	for _, s := range steps {
		for _, a := range s.attrs {
			if has(a) {
				return true
			}
		}
	}
	return false
}

func TestC18Slog(t *testing.T) { rapid.Check(t, propC18) }

// Level mapping: monotone in the slog level and fixed at the four thresholds.
func TestC18Levels(t *testing.T) {
	prev := zapcore.Level(-128)
	// every level in -1100..1100 plus the extremes of the int range (slog.Level is an int: the mapping must stay
	// monotone and clamp far outside the range of zap's 8-bit level type)
	var levels []int
	for _, x := range []int{math.MinInt, math.MinInt + 1, math.MinInt32, -70000, -65536, -32769} {
		levels = append(levels, x)
	}
	for l := -1100; l <= 1100; l++ {
		levels = append(levels, l)
	}
	levels = append(levels, 32767, 32768, 65535, 65536, 70000, math.MaxInt32, math.MaxInt-1, math.MaxInt)
	for _, l := range levels {
		al := zap.NewAtomicLevelAt(zapcore.DebugLevel)
		sink := &memSink{}
		h := zapslog.NewHandler(zapcore.NewCore(zapcore.NewJSONEncoder(c18Cfg), sink, al))
		if err := h.Handle(context.Background(), slog.NewRecord(time.Time{}, slog.Level(l), "m", 0)); err != nil || len(sink.writes) != 1 {
			t.Fatalf("level %d: err %v writes %d", l, err, len(sink.writes))
		}
		_, n := checkJSONLine(sink.writes[0], "\n")
		var zl zapcore.Level
		if err := zl.UnmarshalText([]byte(n.kids[0].v.s)); err != nil {
			t.Fatal(err)
		}
		if zl < prev {
			t.Fatalf("mapping not monotone at slog level %d: %v after %v", l, zl, prev)
		}
		prev = zl
		if want := c18ZapLevel(slog.Level(l)); zl != want {
			t.Fatalf("slog level %d maps to %v, want %v", l, zl, want)
		}
		statCase("C18", l%4 == 0, fmt.Sprintf("level%d", l), "level mapping sweep")
	}
}

func TestRegressC18(t *testing.T) {
	c18EnabledIsAQuestion(t)
	run := func(build func(h slog.Handler) slog.Handler, attrs ...slog.Attr) string {
		sink := &memSink{}
		h := build(zapslog.NewHandler(zapcore.NewCore(zapcore.NewJSONEncoder(zapcore.EncoderConfig{MessageKey: "m"}), sink, zapcore.DebugLevel)))
		r := slog.NewRecord(time.Time{}, slog.LevelInfo, "x", 0)
		r.AddAttrs(attrs...)
		if err := h.Handle(context.Background(), r); err != nil {
			t.Fatal(err)
		}
		return string(sink.all())
	}
	cases := []struct{ got, want string }{
		// F12: groups without attributes are omitted (WithAttrs and LogValuer paths)
		{run(func(h slog.Handler) slog.Handler { return h.WithAttrs([]slog.Attr{slog.Group("g")}) }), `{"m":"x"}`},
		{run(func(h slog.Handler) slog.Handler { return h }, slog.Any("v", c18Valuer{slog.GroupValue()})), `{"m":"x"}`},
		// F13: WithGroup("") opens no group
		{run(func(h slog.Handler) slog.Handler { return h.WithGroup("") }, slog.Int("a", 1)), `{"m":"x","a":1}`},
		{run(func(h slog.Handler) slog.Handler { return h.WithGroup("G").WithAttrs([]slog.Attr{{}}).WithGroup("H") }, slog.Int("a", 1)), `{"m":"x","G":{"H":{"a":1}}}`},
		{run(func(h slog.Handler) slog.Handler { return h.WithGroup("G") }), `{"m":"x"}`},
		{run(func(h slog.Handler) slog.Handler { return h.WithGroup("G").WithAttrs([]slog.Attr{slog.Int("a", 1)}) }, slog.Group("", slog.Int("b", 2))), `{"m":"x","G":{"a":1,"b":2}}`},
	}
	for i, c := range cases {
		if c.got != c.want+"\n" {
			t.Fatalf("case %d: got %q want %q", i, c.got, c.want)
		}
	}
}
