package props

import (
	"bytes"
	"fmt"
	"runtime"
	"testing"

	"go.uber.org/zap"
	"go.uber.org/zap/zapcore"
	"pgregory.net/rapid"
)

// propC10LongRun: a long-lived logger that meets the SAME failing fields over and over (a request handler logging a
// value whose marshaler fails every time): the thousandth and the three thousandth line are byte for byte the first -
// well-formed, the other fields intact, the <key>Error fields in place - for the JSON and the console encoder; an
// entry of healthy fields logged in between looks the same every time too.
func propC10LongRun(t *rapid.T) {
	old := runtime.GOMAXPROCS(1) // the pooled encoder a call frees is the one the next call is handed
	defer runtime.GOMAXPROCS(old)
	c := genC01Case(t, c02CfgOpts, c10SpecOpts, 3)
	c.ent.Caller, c.ent.Stack, c.ent.LoggerName = zapcore.EntryCaller{}, "", ""
	jsink, csink := &memSink{}, &memSink{}
	lg := zap.New(zapcore.NewTee(
		zapcore.NewCore(zapcore.NewJSONEncoder(c.cs.cfg), jsink, zapcore.DebugLevel),
		zapcore.NewCore(zapcore.NewConsoleEncoder(c.cs.cfg), csink, zapcore.DebugLevel),
	), zap.WithClock(fixedClock{c.ent.Time}), zap.ErrorOutput(&memSink{}))
	healthy := zap.New(zapcore.NewCore(zapcore.NewJSONEncoder(c.cs.cfg), jsink, zapcore.DebugLevel), zap.WithClock(fixedClock{c.ent.Time}))
	rounds := rapid.SampledFrom([]int{300, 1100, 2300, 4200}).Draw(t, "rounds")
	call := func() (j, cs, h []byte) {
		defer func() {
			if p := recover(); p != nil {
				t.Fatalf("a field failure escaped the logging call as a panic: %v\ncase: %s", p, c.render())
			}
		}()
		j0, c0 := len(jsink.writes), len(csink.writes)
		l := lg
		for _, round := range c.ctx {
			l = l.With(fieldsOf(round)...)
		}
		l.Info(c.ent.Message, fieldsOf(c.site)...)
		healthy.Info("healthy", zap.Ints("arr", []int{1, 2}), zap.Object("obj", zapcore.ObjectMarshalerFunc(func(e zapcore.ObjectEncoder) error {
			e.AddInt("a", 1)
			return e.AddArray("b", zapcore.ArrayMarshalerFunc(func(a zapcore.ArrayEncoder) error { a.AppendInt(2); return nil }))
		})), zap.Reflect("r", map[string]int{"x": 1}))
		if len(jsink.writes) != j0+2 || len(csink.writes) != c0+1 {
			t.Fatalf("entry lost or duplicated\ncase: %s", c.render())
		}
		return jsink.writes[j0], csink.writes[c0], jsink.writes[j0+1]
	}
	j1, c1, h1 := call()
	for k := 0; k < 2; k++ {
		// (values whose rendering legitimately changes from call to call - counters, swapping marshalers - show it at once)
		if j, cs, h := call(); !bytes.Equal(j, j1) || !bytes.Equal(cs, c1) || !bytes.Equal(h, h1) {
			t.Skip("the case's own values change from call to call")
		}
	}
	for r := 4; r <= rounds; r++ {
		j, cs, h := call()
		if !bytes.Equal(j, j1) || !bytes.Equal(cs, c1) {
			t.Fatalf("call %d: the line differs from the one the first three calls produced\n first: %q / %q\n now:   %q / %q\ncase: %s", r, clipS(string(j1)), clipS(string(c1)), clipS(string(j)), clipS(string(cs)), c.render())
		}
		if !bytes.Equal(h, h1) {
			t.Fatalf("call %d: an entry of healthy fields logged after %d entries with failing ones differs from its first rendering\n first: %q\n now:   %q\ncase: %s", r, r, clipS(string(h1)), clipS(string(h)), c.render())
		}
		if r%256 == 0 {
			jsink.writes, csink.writes = nil, nil
		}
	}
	faults := bytes.Contains(j1, []byte(`Error":`))
	statCase("C10", faults && rounds >= 1100, fmt.Sprintf("long|%d|%v", rounds, faults), "long-lived logger, the same failing fields", fmt.Sprintf("%d rounds", rounds))
}

func TestC10LongRun(t *testing.T) { rapid.Check(t, propC10LongRun) }
