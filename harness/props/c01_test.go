package props

// C01 — the JSON encoder always emits one well-formed JSON object per entry, on one line.

import (
	"bytes"
	"fmt"
	"strings"
	"sync"
	"testing"
	"time"

	"go.uber.org/zap"
	"go.uber.org/zap/zapcore"
	"pgregory.net/rapid"
)

// memSink records every Write/Sync call.
type memSink struct {
	mu     sync.Mutex
	writes [][]byte
	syncs  int
}

func (m *memSink) Write(p []byte) (int, error) {
	m.mu.Lock()
	defer m.mu.Unlock()
	m.writes = append(m.writes, append([]byte(nil), p...))
	return len(p), nil
}

func (m *memSink) Sync() error {
	m.mu.Lock()
	defer m.mu.Unlock()
	m.syncs++
	return nil
}

func (m *memSink) all() []byte {
	m.mu.Lock()
	defer m.mu.Unlock()
	return bytes.Join(m.writes, nil)
}

type fixedClock struct{ t time.Time }

func (c fixedClock) Now() time.Time                         { return c.t }
func (c fixedClock) NewTicker(d time.Duration) *time.Ticker { return time.NewTicker(d) }

type c01Case struct {
	cs   *cfgSpec
	ctx  [][]*Spec
	site []*Spec
	ent  zapcore.Entry
}

func genC01Case(t *rapid.T, co cfgOpts, so specOpts, depth int) *c01Case {
	c := &c01Case{cs: genCfgSpec(t, co)}
	rounds := rapid.IntRange(0, 3).Draw(t, "withRounds")
	for i := 0; i < rounds; i++ {
		c.ctx = append(c.ctx, genSpecs(t, depth, 3, so, "nCtx"))
	}
	c.site = genSpecs(t, depth, 5, so, "nSite")
	c.ent = genEntry(t)
	return c
}

func (c *c01Case) encodeDirect() (out []byte, err error, panicked any) {
	defer func() { panicked = recover() }()
	enc := zapcore.NewJSONEncoder(c.cs.cfg)
	for _, round := range c.ctx {
		enc = enc.Clone()
		for _, f := range fieldsOf(round) {
			f.AddTo(enc)
		}
	}
	if c.cs.reflEnc == "html" || c.cs.reflEnc == "nohtml" {
		neighbourUsesIndentingEncoder(c.cs.cfg, false)
		neighbourUsesIndentingEncoder(c.cs.cfg, true)
	}
	// the caller's field slice belongs to the caller (a tee hands the same slice to its next core, applications
	// reuse slices): an encoder reads it and leaves it as it was
	fs := fieldsOf(c.site)
	snap := fieldsSnap(fs)
	buf, e := enc.EncodeEntry(c.ent, fs)
	if after := fieldsSnap(fs); after != snap {
		return nil, fmt.Errorf("EncodeEntry modified the caller's field slice:\n before %s\n after  %s", clipS(snap), clipS(after)), nil
	}
	if e != nil {
		return nil, e, nil
	}
	out = append([]byte(nil), buf.Bytes()...)
	buf.Free()
	return out, nil, nil
}

func (c *c01Case) classify() (bool, string, []string, *specTraits) {
	all := append([][]*Spec{c.site}, c.ctx...)
	tr := traitsOf(all...)
	nCtx := 0
	for _, r := range c.ctx {
		nCtx += len(r)
	}
	nested := tr.kinds["obj"]+tr.kinds["arr"]+tr.kinds["inline"]+tr.kinds["dict"]+tr.kinds["objects"]+tr.kinds["objectvalues"]+tr.kinds["inlinedict"] > 0
	nsOpen := tr.kinds["ns"] > 0
	hostileCfgKey := false
	for _, k := range []string{c.cs.cfg.MessageKey, c.cs.cfg.LevelKey, c.cs.cfg.TimeKey, c.cs.cfg.NameKey, c.cs.cfg.CallerKey, c.cs.cfg.FunctionKey, c.cs.cfg.StacktraceKey} {
		if k != "" && (uni(k) != k || bytes.ContainsAny([]byte(k), "\"\\\n\t")) {
			hostileCfgKey = true
		}
	}
	nt := nested || nsOpen || tr.faults > 0 || nCtx > 0 || c.cs.unusual() || tr.hostileKey || hostileCfgKey
	var labels []string
	add := func(b bool, l string) {
		if b {
			labels = append(labels, l)
		}
	}
	add(nested, "nested marshaler")
	add(nsOpen, "namespace")
	add(tr.nsNested, "namespace inside nested object")
	add(tr.nsInArray, "namespace inside array element")
	add(tr.faults > 0, "failing marshaler/stringer/error/reflect")
	add(nCtx > 0, "non-empty With context")
	add(c.cs.unusual(), "nil/no-op/layout sub-encoder")
	add(c.cs.timeEnc == "layout", "time layout encoder")
	add(tr.hostileKey || hostileCfgKey, "hostile key")
	add(tr.badUTF8, "invalid UTF-8 value")
	add(tr.bigString, "string > 1KiB")
	add(tr.maxDepth >= 2, "depth>=2")
	add(tr.viaAny > 0, "via zap.Any")
	sig := c.cs.shape() + "|" + tr.kindSig() + fmt.Sprintf("|ctx%d", len(c.ctx))
	return nt, sig, labels, tr
}

func (c *c01Case) render() string {
	s := "cfg{" + c.cs.shape() + fmt.Sprintf(" le=%q} ", c.cs.lineEnding()) + renderEntry(c.ent)
	for i, r := range c.ctx {
		s += fmt.Sprintf(" With#%d[%s]", i, renderSpecs(r))
	}
	return s + " fields[" + renderSpecs(c.site) + "]"
}

var c01Opts = specOpts{faults: true, stack: true, viaAny: true, panics: true}

func propC01Encode(t *rapid.T) {
	c := genC01Case(t, cfgOpts{}, c01Opts, 3)
	out, err, p := c.encodeDirect()
	panicky := hasPanicMarshaler(append([][]*Spec{c.site}, c.ctx...)...)
	if p != nil && panicky && strings.Contains(fmt.Sprint(p), specPanicPrefix) {
		// a panic in user marshaling code may reach the caller: then nothing was emitted and there is nothing to
		// check. If it is swallowed instead, whatever IS emitted must still be one well-formed line (checked below).
		statCase("C01", true, "enc|panicking marshaler propagated", "panicking user marshaler")
		return
	}
	if p != nil {
		t.Fatalf("EncodeEntry panicked: %v\ncase: %s", p, c.render())
	}
	if err != nil {
		t.Fatalf("EncodeEntry returned error %v\ncase: %s", err, c.render())
	}
	if why, _ := checkJSONLine(out, c.cs.lineEnding()); why != "" {
		t.Fatalf("%s\noutput: %q\ncase: %s", why, clipS(string(out)), c.render())
	}
	nt, sig, labels, _ := c.classify()
	statCase("C01", nt, "enc|"+sig, labels...)
	if nt {
		statSample("C01", func() string { return c.render() + " => " + string(out) })
	}
}

// Logger path: the sink receives exactly one Write per entry holding exactly
// one well-formed line, equal to what the encoder produces directly.
func propC01Logger(t *rapid.T) {
	c := genC01Case(t, cfgOpts{}, specOpts{faults: true, viaAny: true}, 2)
	sink := &memSink{}
	c.ent.Caller = zapcore.EntryCaller{}
	c.ent.Stack = ""
	lvl := zapcore.Level(rapid.IntRange(-1, 2).Draw(t, "logLevel"))
	c.ent.Level = lvl
	clock := fixedClock{c.ent.Time}
	core := zapcore.NewCore(zapcore.NewJSONEncoder(c.cs.cfg), sink, zapcore.DebugLevel)
	lg := zap.New(core, zap.WithClock(clock))
	// names: Named("") is a no-op, dotted join otherwise
	name := ""
	for _, part := range rapid.SliceOfN(rapid.SampledFrom([]string{"", "a", "b.c", "x\"y"}), 0, 2).Draw(t, "names") {
		lg = lg.Named(part)
		if part != "" {
			if name == "" {
				name = part
			} else {
				name += "." + part
			}
		}
	}
	c.ent.LoggerName = name
	for _, round := range c.ctx {
		// the field slice handed to With is the caller's scratch slice: recycled as soon as With has returned
		fs := fieldsOf(round)
		lg = lg.With(fs...)
		for j := range fs {
			fs[j] = zap.String("recycled", "scratch slice")
		}
	}
	nEntries := rapid.IntRange(1, 3).Draw(t, "nEntries")
	for i := 0; i < nEntries; i++ {
		func() {
			defer func() {
				if p := recover(); p != nil {
					t.Fatalf("logging panicked: %v\ncase: %s", p, c.render())
				}
			}()
			if ce := lg.Check(lvl, c.ent.Message); ce != nil {
				fs := fieldsOf(c.site)
				ce.Write(fs...)
				for j := range fs {
					fs[j] = zap.String("recycled", "scratch slice")
				}
			} else {
				t.Fatalf("enabled level %v was not checked in", lvl)
			}
		}()
	}
	if len(sink.writes) != nEntries {
		t.Fatalf("%d entries produced %d sink writes\ncase: %s", nEntries, len(sink.writes), c.render())
	}
	direct, err, p := c.encodeDirect()
	if p != nil || err != nil {
		t.Fatalf("direct encode failed: %v %v", p, err)
	}
	for i, w := range sink.writes {
		if why, _ := checkJSONLine(w, c.cs.lineEnding()); why != "" {
			t.Fatalf("write %d: %s\noutput: %q\ncase: %s", i, why, clipS(string(w)), c.render())
		}
		if !bytes.Equal(w, direct) {
			t.Fatalf("write %d differs from the encoder's own output for the same entry:\n logger: %q\n direct: %q\ncase: %s", i, clipS(string(w)), clipS(string(direct)), c.render())
		}
	}
	nt, sig, labels, _ := c.classify()
	statCase("C01", nt, "log|"+sig, append(labels, "logger path")...)
}

func TestC01Encode(t *testing.T) { rapid.Check(t, propC01Encode) }
func TestC01Logger(t *testing.T) { rapid.Check(t, propC01Logger) }

func FuzzC01(f *testing.F) { f.Fuzz(rapid.MakeFuzz(propC01Encode)) }

// Regression tests for shrunk past failures (defects F1, F2 and friends).
func TestRegressC01(t *testing.T) {
	check := func(name string, cfg zapcore.EncoderConfig, ent zapcore.Entry, fs ...zapcore.Field) {
		t.Helper()
		var out []byte
		func() {
			defer func() {
				if p := recover(); p != nil {
					t.Fatalf("%s: panic %v", name, p)
				}
			}()
			buf, err := zapcore.NewJSONEncoder(cfg).EncodeEntry(ent, fs)
			if err != nil {
				t.Fatalf("%s: %v", name, err)
			}
			out = buf.Bytes()
		}()
		if why, _ := checkJSONLine(out, effectiveLineEnding(cfg.SkipLineEnding, cfg.LineEnding)); why != "" {
			t.Fatalf("%s: %s: %q", name, why, out)
		}
	}
	hostileZone := time.Unix(2, 0).In(time.FixedZone("a\"b\n", 3600))
	// F1: layout / zone name with quote, backslash, newline
	check("F1 layout", zapcore.EncoderConfig{MessageKey: "m", TimeKey: "t", EncodeTime: zapcore.TimeEncoderOfLayout("2006\"x\\")}, zapcore.Entry{Time: time.Unix(1, 0), Message: "hi"})
	check("F1 zone", zapcore.EncoderConfig{MessageKey: "m", TimeKey: "t", EncodeTime: zapcore.TimeEncoderOfLayout("2006 MST")}, zapcore.Entry{Time: hostileZone, Message: "hi"}, zap.Time("k", hostileZone))
	// F2: caller key with nil caller encoder
	check("F2 nil caller encoder", zapcore.EncoderConfig{MessageKey: "m", CallerKey: "c"}, zapcore.Entry{Message: "hi", Caller: zapcore.EntryCaller{Defined: true, File: "f.go", Line: 1}})
	// namespaces left open inside nested objects inside arrays
	inner := &Spec{Kind: "obj", Kids: []*Spec{{Kind: "ns", Key: "n"}, {Kind: "i64", Key: "a", V: int64(1)}}}
	check("ns in array element", zapcore.EncoderConfig{MessageKey: "m", StacktraceKey: "s"}, zapcore.Entry{Message: "hi", Stack: "st"},
		(&Spec{Kind: "arr", Key: "k", Kids: []*Spec{inner, inner}}).Field(), zap.Namespace("open"), zap.Int("x", 1))
	// failing marshalers after a partial emit
	check("failing array", zapcore.EncoderConfig{MessageKey: "m"}, zapcore.Entry{Message: "hi"},
		(&Spec{Kind: "arr", Key: "k", Err: "boom", ErrAt: 1, Kids: []*Spec{{Kind: "str", V: "x"}, {Kind: "str", V: "y"}}}).Field(),
		(&Spec{Kind: "inline", Err: "bo\nom", ErrAt: 0, Kids: []*Spec{{Kind: "str", Key: "z", V: "y"}}}).Field())
	// all keys empty
	check("no keys", zapcore.EncoderConfig{}, zapcore.Entry{Message: "hi"}, zap.String("", ""))
	check("no keys no fields", zapcore.EncoderConfig{SkipLineEnding: true}, zapcore.Entry{Message: "hi"})
}
