package props

// C07 — logger context is exact and isolated across derived loggers.

import (
	"fmt"
	"runtime"
	"strings"
	"testing"
	"time"

	"go.uber.org/zap"
	"go.uber.org/zap/zapcore"
	"go.uber.org/zap/zaptest/observer"
	"pgregory.net/rapid"
)

// mutObj is a marshaler whose content the machine mutates between steps.
type mutObj struct{ p *int }

func (m mutObj) MarshalLogObject(enc zapcore.ObjectEncoder) error {
	enc.AddInt("v", *m.p)
	return nil
}

type c07Field struct {
	spec *Spec // static field, or
	cell *int  // mutable object field under key
	key  string
}

func (f c07Field) field() zapcore.Field {
	if f.cell != nil {
		return zap.Object(f.key, mutObj{f.cell})
	}
	return f.spec.Field()
}

type c07Node struct {
	id        int
	parent    *c07Node
	lg        *zap.Logger
	sg        *zap.SugaredLogger
	name      string
	own       []c07Field
	ownsCore  bool // this derivation created a new core (With/WithLazy/WithOptions(Fields))
	lazy      bool
	evaluated bool
	snap      []int // value of each own mutable cell at evaluation time
	kids      int
	used      bool
	desc      string
}

// owner is the nearest node (self or ancestor) whose derivation made the core this node logs through.
func (n *c07Node) owner() *c07Node {
	for n.parent != nil && !n.ownsCore {
		n = n.parent
	}
	return n
}

// trigger models first use: all not-yet-evaluated lazy derivations on the
// path are evaluated now, outermost first.
func (n *c07Node) trigger() {
	o := n.owner()
	if o.parent != nil {
		o.parent.trigger()
	}
	if o.ownsCore && !o.evaluated {
		o.evaluate()
	}
}

func (n *c07Node) evaluate() {
	n.evaluated = true
	n.snap = n.snap[:0]
	for _, f := range n.own {
		if f.cell != nil {
			n.snap = append(n.snap, *f.cell)
		} else {
			n.snap = append(n.snap, 0)
		}
	}
}

// expectInto emits the node's whole derivation path into o (JSON/console view).
func (n *c07Node) expectInto(o *objX) {
	if n.parent != nil {
		n.parent.expectInto(o)
	}
	for i, f := range n.own {
		if f.cell != nil {
			v := newObjX()
			v.put("v", xint(int64(n.snap[i])))
			o.put(f.key, v.root)
		} else {
			f.spec.ExpectField(o)
		}
	}
}

func (n *c07Node) pathFields() []c07Field {
	var out []c07Field
	if n.parent != nil {
		out = n.parent.pathFields()
	}
	return append(out, n.own...)
}

var c07Cfg = zapcore.EncoderConfig{MessageKey: "m", NameKey: "n", EncodeDuration: zapcore.NanosDurationEncoder, EncodeTime: zapcore.EpochNanosTimeEncoder}
var c07CfgSpec = &cfgSpec{cfg: c07Cfg, timeEnc: "nanos", durEnc: "nanos", nameEnc: "nil"}

type c07Env struct {
	kind    string
	jsink   *memSink
	csink   *memSink
	logs    *observer.ObservedLogs
	hookCnt *int
}

var c07CoreKinds = []string{"json", "console", "observer", "tee(json,observer)", "tee(console,observer)", "sampler", "hooked", "increase", "lazy", "tee(json,console,observer)+all"}

func c07MakeCore(kind string) (zapcore.Core, *c07Env) {
	env := &c07Env{kind: kind, jsink: &memSink{}, csink: &memSink{}, hookCnt: new(int)}
	jc := zapcore.NewCore(zapcore.NewJSONEncoder(c07Cfg), env.jsink, zapcore.DebugLevel)
	cc := zapcore.NewCore(zapcore.NewConsoleEncoder(c07Cfg), env.csink, zapcore.DebugLevel)
	oc, logs := observer.New(zapcore.DebugLevel)
	hook := func(zapcore.Entry) error { *env.hookCnt++; return nil }
	switch kind {
	case "json":
		return jc, env
	case "console":
		return cc, env
	case "observer":
		env.logs = logs
		return oc, env
	case "tee(json,observer)":
		env.logs = logs
		return zapcore.NewTee(jc, oc), env
	case "tee(console,observer)":
		env.logs = logs
		return zapcore.NewTee(cc, oc), env
	case "sampler":
		env.logs = logs
		return zapcore.NewSamplerWithOptions(zapcore.NewTee(oc, jc), time.Hour, 1<<30, 0), env
	case "hooked":
		env.logs = logs
		return zapcore.RegisterHooks(zapcore.NewTee(jc, oc), hook), env
	case "increase":
		env.logs = logs
		c, err := zapcore.NewIncreaseLevelCore(zapcore.NewTee(jc, oc), zapcore.DebugLevel)
		if err != nil {
			panic(err)
		}
		return c, env
	case "lazy":
		env.logs = logs
		return zapcore.NewLazyWith(zapcore.NewTee(jc, oc), nil), env
	default:
		env.logs = logs
		inc, _ := zapcore.NewIncreaseLevelCore(zapcore.NewTee(jc, cc), zapcore.DebugLevel)
		return zapcore.RegisterHooks(zapcore.NewSamplerWithOptions(zapcore.NewTee(inc, oc), time.Hour, 1<<30, 0), hook), env
	}
}

func (e *c07Env) hasJSON() bool {
	return e.kind != "console" && e.kind != "observer" && e.kind != "tee(console,observer)"
}
func (e *c07Env) hasConsole() bool {
	return e.kind == "console" || e.kind == "tee(console,observer)" || strings.HasSuffix(e.kind, "+all")
}

func propC07(t *rapid.T) {
	kind := rapid.SampledFrom(c07CoreKinds).Draw(t, "coreKind")
	core, env := c07MakeCore(kind)
	root := &c07Node{lg: zap.New(core, zap.WithClock(fixedClock{time.Time{}})), evaluated: true, desc: "root"}
	nodes := []*c07Node{root}
	var cells []*int
	ctr := 0
	nDerive, nLogs, nMut, siblingUse, lazyAfterMut := 0, 0, 0, false, false
	var history []string
	specOpt := specOpts{maxKids: 2}

	genFields := func(min, max int) []c07Field {
		n := rapid.IntRange(min, max).Draw(t, "nFields")
		var fs []c07Field
		for i := 0; i < n; i++ {
			ctr++
			switch rapid.IntRange(0, 5).Draw(t, "fieldKind") {
			case 0:
				c := new(int)
				*c = ctr
				cells = append(cells, c)
				fs = append(fs, c07Field{cell: c, key: fmt.Sprintf("mut%d", ctr)})
			case 1:
				fs = append(fs, c07Field{spec: &Spec{Kind: "ns", Key: fmt.Sprintf("ns%d", rapid.IntRange(0, 2).Draw(t, "nsKey"))}})
			case 2:
				fs = append(fs, c07Field{spec: genSpec(t, 1, false, specOpt)})
			default:
				fs = append(fs, c07Field{spec: &Spec{Kind: "int", Key: fmt.Sprintf("f%d", ctr), V: ctr}})
			}
		}
		return fs
	}
	toFields := func(fs []c07Field) []zapcore.Field {
		out := make([]zapcore.Field, len(fs))
		for i, f := range fs {
			out[i] = f.field()
		}
		return out
	}
	toArgs := func(fs []c07Field) []interface{} {
		var out []interface{}
		for _, f := range fs {
			if f.cell == nil && f.spec.Kind == "int" && rapid.Bool().Draw(t, "asPair") {
				out = append(out, f.spec.Key, f.spec.V)
			} else {
				out = append(out, f.field())
			}
		}
		return out
	}

	logThrough := func(n *c07Node) {
		ctr++
		nLogs++
		site := &Spec{Kind: "int", Key: fmt.Sprintf("site%d", ctr), V: ctr}
		if rapid.IntRange(0, 3).Draw(t, "noCallSiteFields") == 0 {
			site = &Spec{Kind: "skip"} // a log call without any call-site field
		}
		noSite := site.Kind == "skip"
		msg := fmt.Sprintf("msg%d", ctr)
		j0, c0 := len(env.jsink.writes), len(env.csink.writes)
		if env.logs != nil {
			env.logs.TakeAll()
		}
		h0 := *env.hookCnt
		n.trigger()
		if n.kidsUsedBefore() {
			siblingUse = true
		}
		n.used = true
		switch {
		case n.sg != nil && noSite:
			n.sg.Infow(msg)
		case n.sg != nil && rapid.Bool().Draw(t, "sugarPair"):
			n.sg.Infow(msg, site.Key, site.V)
		case n.sg != nil:
			n.sg.Infow(msg, site.Field())
		case noSite:
			n.lg.Info(msg)
		default:
			// the call-site fields travel in the caller's scratch slice, recycled once the call has returned
			fs := []zapcore.Field{site.Field()}
			n.lg.Info(msg, fs...)
			fs[0] = zap.String("recycled", "scratch slice")
		}
		history = append(history, fmt.Sprintf("log(#%d)", n.id))
		want := newObjX()
		if n.name != "" {
			want.put("n", xstr(n.name))
		}
		want.put("m", xstr(msg))
		n.expectInto(want)
		site.ExpectField(want)
		fail := func(f string, a ...any) {
			t.Fatalf("%s\nlogger #%d (%s)\nhistory: %s", fmt.Sprintf(f, a...), n.id, n.desc, strings.Join(history, " "))
		}
		if env.hasJSON() {
			if len(env.jsink.writes) != j0+1 {
				fail("JSON sink received %d lines for one entry", len(env.jsink.writes)-j0)
			}
			line := env.jsink.writes[j0]
			why, got := checkJSONLine(line, "\n")
			if why != "" {
				fail("malformed JSON line: %s: %q", why, line)
			}
			if e := cmpTree("$", want.root, got, c07CfgSpec); e != "" {
				fail("JSON entry does not carry exactly the logger's own context: %s\n line: %s\n want: %s", e, line, renderX(want.root))
			}
		}
		if env.hasConsole() {
			if len(env.csink.writes) != c0+1 {
				fail("console sink received %d lines for one entry", len(env.csink.writes)-c0)
			}
			line := strings.TrimSuffix(string(env.csink.writes[c0]), "\n")
			cw := newObjX()
			n.expectInto(cw)
			site.ExpectField(cw)
			prefix := msg
			if n.name != "" {
				prefix = n.name + "\t" + prefix
			}
			if len(cw.root.kids) == 0 {
				if line != prefix {
					fail("console line %q, want %q (no fields at all)", line, prefix)
				}
			} else {
				prefix += "\t"
				if !strings.HasPrefix(line, prefix) {
					fail("console line %q lacks prefix %q", line, prefix)
				}
				why, got := checkJSONLine([]byte(line[len(prefix):]), "")
				if why != "" {
					fail("console context malformed: %s: %q", why, line)
				}
				if e := cmpTree("$ctx", cw.root, got, c07CfgSpec); e != "" {
					fail("console context is not exactly the logger's own context: %s\n line: %s", e, line)
				}
			}
		}
		if env.logs != nil {
			es := env.logs.TakeAll()
			if len(es) != 1 {
				fail("observer recorded %d entries for one call", len(es))
			}
			if es[0].LoggerName != n.name || es[0].Message != msg {
				fail("observer entry name/message %q/%q, want %q/%q", es[0].LoggerName, es[0].Message, n.name, msg)
			}
			wantF := toFields(n.pathFields())
			if !noSite {
				wantF = append(wantF, site.Field())
			}
			// sugared pairs become zap.Any(key, int) = Int64-typed field: compare by key+type family
			if len(es[0].Context) != len(wantF) {
				fail("observer context has %d fields, want %d: %v", len(es[0].Context), len(wantF), es[0].Context)
			}
			for i, g := range es[0].Context {
				w := wantF[i]
				if g.Key != w.Key || g.Type != w.Type {
					fail("observer field %d is %q/%v, want %q/%v", i, g.Key, g.Type, w.Key, w.Type)
				}
				if m, ok := w.Interface.(mutObj); ok {
					if gm, ok := g.Interface.(mutObj); !ok || gm.p != m.p {
						fail("observer field %d carries a different marshaler", i)
					}
				} else if w.Type == zapcore.Int64Type || w.Type == zapcore.StringType || w.Type == zapcore.BoolType || w.Type == zapcore.DurationType {
					if g.Integer != w.Integer || g.String != w.String {
						fail("observer field %d %v differs from %v", i, g, w)
					}
				}
			}
			// what an observer hands out belongs to the receiver: tests scrub volatile fields of observed entries in
			// place. Neither the logger's context nor later observed entries may change with it.
			for i := range es[0].Context {
				es[0].Context[i] = zap.String("scrubbed", "by the receiver")
			}
		}
		if kind == "hooked" || strings.HasSuffix(kind, "+all") {
			if *env.hookCnt != h0+1 {
				fail("hook ran %d times for one entry", *env.hookCnt-h0)
			}
		}
	}

	derive := func(op string) {
		p := nodes[rapid.IntRange(0, len(nodes)-1).Draw(t, "parent")]
		c := &c07Node{id: len(nodes), parent: p, name: p.name}
		nDerive++
		p.kids++
		switch op {
		case "with":
			c.own = genFields(1, 4)
			c.ownsCore = true
			p.trigger()
			c.evaluate()
			if p.sg != nil {
				c.sg = p.sg.With(toArgs(c.own)...)
			} else {
				c.lg = p.lg.With(toFields(c.own)...)
			}
		case "lazy":
			c.own = genFields(1, 4)
			c.ownsCore, c.lazy = true, true
			if p.sg != nil {
				c.sg = p.sg.WithLazy(toArgs(c.own)...)
			} else {
				c.lg = p.lg.WithLazy(toFields(c.own)...)
			}
		case "opts":
			c.own = genFields(0, 3)
			c.ownsCore = true
			p.trigger()
			c.evaluate()
			if p.sg != nil {
				c.sg = p.sg.WithOptions(zap.Fields(toFields(c.own)...))
			} else {
				c.lg = p.lg.WithOptions(zap.Fields(toFields(c.own)...))
			}
		case "wrap":
			// an application's own core on top (WrapCore): it accepts what the core below enables, registers ITSELF with
			// the checked entry and forwards Write - the Core contract makes that a core like any other, also on top of
			// a WithLazy logger that has not been used yet (whose fields are then evaluated at that first Write)
			wrapper := func(cc zapcore.Core) zapcore.Core {
				return &c04Acceptor{inner: cc, accept: func(e zapcore.Entry) bool { return cc.Enabled(e.Level) }}
			}
			if p.sg != nil {
				c.sg = p.sg.WithOptions(zap.WrapCore(wrapper))
			} else {
				c.lg = p.lg.WithOptions(zap.WrapCore(wrapper))
			}
		case "named":
			nm := rapid.SampledFrom([]string{"a", "b", "", "x.y", "a", ".internal", "..h", "a.", ".", "b"}).Draw(t, "name")
			if p.sg != nil {
				c.sg = p.sg.Named(nm)
			} else {
				c.lg = p.lg.Named(nm)
			}
			if nm != "" {
				if c.name == "" {
					c.name = nm
				} else {
					c.name += "." + nm
				}
			}
			op += "(" + nm + ")"
		case "sugar":
			if p.sg != nil {
				c.lg = p.sg.Desugar()
			} else {
				c.sg = p.lg.Sugar()
			}
		}
		c.desc = fmt.Sprintf("%s of #%d", op, p.id)
		history = append(history, fmt.Sprintf("#%d=%s(#%d,%d fields)", c.id, op, p.id, len(c.own)))
		nodes = append(nodes, c)
	}

	t.Repeat(map[string]func(*rapid.T){
		"with":  func(*rapid.T) { derive("with") },
		"with2": func(*rapid.T) { derive("with") },
		"lazy":  func(*rapid.T) { derive("lazy") },
		"opts":  func(*rapid.T) { derive("opts") },
		"named": func(*rapid.T) { derive("named") },
		"wrap": func(rt *rapid.T) {
			// (cores whose Write relies on the core below having registered itself in Check - hooks, samplers - cannot
			// sit under a registering wrapper; that is their documented design, not a defect)
			if kind != "json" && kind != "console" && kind != "observer" && kind != "lazy" && kind != "tee(json,observer)" && kind != "tee(console,observer)" && kind != "increase" {
				rt.Skip("wrapper needs forwarding cores below")
			}
			derive("wrap")
		},
		"sugar": func(*rapid.T) { derive("sugar") },
		"log": func(*rapid.T) {
			logThrough(nodes[rapid.IntRange(0, len(nodes)-1).Draw(t, "node")])
		},
		"log2": func(*rapid.T) {
			logThrough(nodes[rapid.IntRange(0, len(nodes)-1).Draw(t, "node")])
		},
		"query": func(*rapid.T) {
			// asking a logger about itself is not using it ("evaluated only if the logger is further chained with
			// With or is written to"): a pending WithLazy stays pending
			n := nodes[rapid.IntRange(0, len(nodes)-1).Draw(t, "queried")]
			if n.sg != nil {
				_ = n.sg.Level()
				_ = n.sg.Desugar().Name()
			} else {
				_ = n.lg.Level()
				_ = n.lg.Name()
				_ = n.lg.Core().Enabled(zapcore.ErrorLevel)
				_ = zapcore.LevelOf(n.lg.Core())
			}
			history = append(history, fmt.Sprintf("query(#%d)", n.id))
		},
		"mutate": func(rt *rapid.T) {
			if len(cells) == 0 {
				rt.Skip("no mutable marshaler yet")
			}
			c := cells[rapid.IntRange(0, len(cells)-1).Draw(t, "cell")]
			*c += 1000
			nMut++
			for _, n := range nodes {
				if n.lazy && !n.evaluated {
					lazyAfterMut = true
				}
			}
			history = append(history, "mutate")
		},
		"gc": func(rt *rapid.T) {
			if rapid.IntRange(0, 7).Draw(rt, "reallyGC") != 0 {
				rt.Skip("gc only sometimes (expensive)")
			}
			runtime.GC()
			history = append(history, "gc")
		},
	})
	// finally: log through every logger in a drawn order
	for _, n := range rapid.Permutation(nodes).Draw(t, "finalOrder") {
		logThrough(n)
	}
	nt := (siblingUse && nDerive >= 3) || (lazyAfterMut && nMut > 0)
	labels := []string{"core " + kind}
	if siblingUse {
		labels = append(labels, "log after sibling derived/used")
	}
	if lazyAfterMut {
		labels = append(labels, "lazy node pending while marshaler mutated")
	}
	sig := kind + "|"
	for _, n := range nodes[1:] {
		sig += fmt.Sprintf("%d%c%d,", n.parent.id, n.desc[0], len(n.own))
	}
	statCase("C07", nt, sig, labels...)
	if nt {
		statSample("C07", func() string { return kind + ": " + strings.Join(history, " ") })
	}
}

// kidsUsedBefore: this node has siblings (or its parent has other children)
// and a context of its own on the path — the isolation-relevant situation.
func (n *c07Node) kidsUsedBefore() bool {
	return n.parent != nil && n.parent.kids >= 2 && len(n.parent.pathFields()) > 0
}

func TestC07Context(t *testing.T) { rapid.Check(t, propC07) }

func TestRegressC07(t *testing.T) {
	c07SyncThroughAnyDerivedLogger(t)
	c07FieldsSurviveLevelChangesAtDerivation(t)
	// observer context must not alias between siblings (capacity-capped append)
	oc, logs := observer.New(zapcore.DebugLevel)
	base := zap.New(oc).With(zap.Int("a", 1), zap.Int("b", 2), zap.Int("c", 3))
	s1 := base.With(zap.Int("s1", 1))
	s2 := base.With(zap.Int("s2", 2))
	s1.Info("x")
	s2.Info("y")
	es := logs.TakeAll()
	if es[0].Context[3].Key != "s1" || es[1].Context[3].Key != "s2" {
		t.Fatalf("sibling contexts alias: %v / %v", es[0].Context, es[1].Context)
	}
	// WithLazy evaluates at first use, With at derivation
	sink := &memSink{}
	v := 1
	lg := zap.New(zapcore.NewCore(zapcore.NewJSONEncoder(c07Cfg), sink, zapcore.DebugLevel))
	eager := lg.With(zap.Object("o", mutObj{&v}))
	lazy := lg.WithLazy(zap.Object("o", mutObj{&v}))
	v = 2
	eager.Info("e")
	lazy.Info("l")
	v = 3
	lazy.Info("l2")
	want := `{"m":"e","o":{"v":1}}` + "\n" + `{"m":"l","o":{"v":2}}` + "\n" + `{"m":"l2","o":{"v":2}}` + "\n"
	if string(sink.all()) != want {
		t.Fatalf("got %q want %q", sink.all(), want)
	}
}
