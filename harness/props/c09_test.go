package props

// C09 — the documented concurrent API is free of data races, deadlocks and panics.
// Run with the race detector (GORACE=halt_on_error=1 exitcode=66): the program
// about to run is dumped first so that a race report can be attributed to it.

import (
	"context"
	"fmt"
	"log/slog"
	"math"
	"net/http/httptest"
	"os"
	"runtime"
	"strings"
	"sync"
	"sync/atomic"
	"syscall"
	"testing"
	"time"

	"go.uber.org/zap"
	"go.uber.org/zap/exp/zapslog"
	"go.uber.org/zap/zapcore"
	"go.uber.org/zap/zapgrpc"
	"go.uber.org/zap/zapio"
	"go.uber.org/zap/zaptest/observer"
	"pgregory.net/rapid"
)

// c09GuardedElem protects its counter with its own mutex; its marshaler has a pointer receiver.
type c09GuardedElem struct {
	mu sync.Mutex
	n  int
}

func (e *c09GuardedElem) MarshalLogObject(enc zapcore.ObjectEncoder) error {
	e.mu.Lock()
	defer e.mu.Unlock()
	enc.AddInt("n", e.n)
	return nil
}

// c09RealTickerClock is a custom Clock built on the time package (time.NewTicker panics on a non-positive interval).
type c09RealTickerClock struct{}

func (c09RealTickerClock) Now() time.Time                         { return time.Now() }
func (c09RealTickerClock) NewTicker(d time.Duration) *time.Ticker { return time.NewTicker(d) }

var c09Ops = []string{
	"Logger.Info", "Logger.Debug", "Logger.Error", "Logger.Log", "Logger.DPanic", "Logger.Panic", "Logger.Fatal", "Logger.Check+Write",
	"Sugar.Infow", "Sugar.Infof", "Sugar.Infoln", "Sugar.Info", "Sugar.Logw", "Sugar.With", "Sugar.WithLazy", "Sugar.Errorw(dangling)",
	"Logger.With", "Logger.WithLazy", "Logger.Named", "Logger.WithOptions", "Logger.Level", "Logger.Sync", "Logger.Sugar/Desugar", "Logger.Core.Enabled",
	"AtomicLevel.SetLevel", "AtomicLevel.Level", "AtomicLevel.Enabled", "AtomicLevel.ServeHTTP(GET)", "AtomicLevel.ServeHTTP(PUT)", "AtomicLevel.MarshalText",
	"ReplaceGlobals", "L().Info", "S().Infow",
	"Observer.All", "Observer.Len", "Observer.TakeAll", "Observer.Filter",
	"slog.Info", "slog.With+WithGroup", "slog.Handler.WithAttrs+Handle", "slog.PendingGroups.WithGroup", "slog.PendingGroups.WithAttrs",
	"slog.PendingGroups.Handle", "slog.PendingGroups.Handle", "Observer.ReadMessages", "Observer.ReadMessages",
	"BWS.Write", "BWS.Sync", "BWS.Stop", "Locked.Write", "Locked.Sync",
	"LazyChild.Info", "LazyChild.With", "yield",
	"BWSoverLock.Write", "BWSoverLock.Sync", "BWSoverUnsafe.Write(small)", "BWSoverUnsafe.Write(oversized)", "BWSoverUnsafe.Write(oversized)", "BWSoverUnsafe.Sync", "ErrnoLocked.Write+Sync", "ErrnoLocked.Write+Sync", "ErrnoLogger.Error+Sync",
	"ReflectCtx.Info(reflect)", "ReflectCtx.Info(reflect)", "ReflectCtx.With(reflect)", "Logger.Info(unencodable)", "Logger.Error(errors)", "Logger.Info(nested)",
	"SharedRestore.Call", "SharedRestore.Call", "BWSClockOnly.Write", "BWSClockOnly.Sync", "Logger.Info(ObjectValues of guarded elements)", "Logger.Info(ObjectValues of guarded elements)", "GuardedElems.Update", "ScrubObs.Info", "ScrubObs.Info", "ScrubObs.InfoFields", "ScrubObs.With", "ScrubObs.TakeAndScrub", "ScrubObs.TakeAndScrub", "Observer.Filter(panicking predicate)",
	"Logger.Info(unencodable-last)", "Logger.Info(unencodable-last)", "DeepStack.Error", "DeepStack.Error", "Logger.Info(big)", "StdLog.Print", "StdLog.Print", "StdLog.Print", "grpc.Info", "grpc.V", "zapio.Write", "Logger.Check(disabled)", "Logger.Info(stringers)",
}

type c09Program struct {
	Fresh   bool       `json:"freshSharedObjects"`
	Procs   int        `json:"gomaxprocs"`
	Repeat  int        `json:"repeatEachOp,omitempty"` // every op is executed this many times in a row (0 = once)
	Scripts [][]string `json:"goroutines"`
}

func genC09Program(t *rapid.T) *c09Program {
	p := &c09Program{Fresh: rapid.IntRange(0, 2).Draw(t, "fresh") != 0, Procs: rapid.SampledFrom([]int{2, 4, 16}).Draw(t, "gomaxprocs")}
	p.Repeat = rapid.SampledFrom([]int{1, 1, 1, 3, 20, 100}).Draw(t, "repeatEachOp")
	ng := rapid.IntRange(2, 8).Draw(t, "goroutines")
	// focus: some programs hammer a small subset of ops (first-use races need the same op in several goroutines)
	ops := c09Ops
	if rapid.Bool().Draw(t, "focused") {
		k := rapid.IntRange(2, 5).Draw(t, "focusSize")
		ops = nil
		for i := 0; i < k; i++ {
			ops = append(ops, rapid.SampledFrom(c09Ops).Draw(t, "focusOp"))
		}
	}
	for g := 0; g < ng; g++ {
		n := rapid.IntRange(1, 12).Draw(t, "ops")
		var sc []string
		for i := 0; i < n; i++ {
			sc = append(sc, rapid.SampledFrom(ops).Draw(t, "op"))
		}
		p.Scripts = append(p.Scripts, sc)
	}
	return p
}

type c09LockedBuf struct {
	mu sync.Mutex
	n  int
}

func (l *c09LockedBuf) Write(p []byte) (int, error) {
	l.mu.Lock()
	l.n += len(p)
	l.mu.Unlock()
	return len(p), nil
}
func (l *c09LockedBuf) Sync() error { return nil }

// c09ErrnoBuf is NOT safe for concurrent use and cannot be synced.
type c09ErrnoBuf struct {
	b []byte
	n int
}

func (u *c09ErrnoBuf) Write(p []byte) (int, error) { u.b = append(u.b[:0], p...); return len(p), nil }
func (u *c09ErrnoBuf) Sync() error {
	u.n++
	if u.n%2 == 0 {
		return &os.PathError{Op: "sync", Path: "/dev/stderr", Err: syscall.ENOTTY}
	}
	return syscall.EINVAL
}

// unsafeBuf is NOT safe for concurrent use: it is only ever reached through zapcore.Lock.
type unsafeBuf struct{ b []byte }

func (u *unsafeBuf) Write(p []byte) (int, error) { u.b = append(u.b[:0], p...); return len(p), nil }
func (u *unsafeBuf) Sync() error                 { u.b = u.b[:0]; return nil }

func c09Run(t interface{ Fatalf(string, ...any) }, p *c09Program) (sharedWriters int) {
	old := runtime.GOMAXPROCS(p.Procs)
	defer runtime.GOMAXPROCS(old)
	al := zap.NewAtomicLevelAt(zapcore.DebugLevel)
	locked := zapcore.Lock(&unsafeBuf{})
	bws := &zapcore.BufferedWriteSyncer{WS: &c09LockedBuf{}, Size: 64, FlushInterval: time.Millisecond}
	defer bws.Stop()
	// a buffered syncer on top of the SAME locked syncer the JSON core writes to: its flushes must take that lock
	bwsOverLock := &zapcore.BufferedWriteSyncer{WS: locked, Size: 32, FlushInterval: time.Millisecond}
	defer bwsOverLock.Stop()
	// a buffered syncer over a destination that is NOT safe for concurrent use: BufferedWriteSyncer is documented
	// to be safe for concurrent use by itself, whatever the size of the writes
	bwsUnsafe := &zapcore.BufferedWriteSyncer{WS: &unsafeBuf{}, Size: 16, FlushInterval: time.Millisecond}
	// a syncer whose Clock is set while its FlushInterval is left to the default (a clock that hands out real
	// tickers, which refuse a non-positive interval)
	guarded := make([]c09GuardedElem, 3)
	bwsClockOnly := &zapcore.BufferedWriteSyncer{WS: &c09LockedBuf{}, Size: 64, Clock: c09RealTickerClock{}}
	defer bwsClockOnly.Stop()
	defer bwsUnsafe.Stop()
	// a locked syncer whose destination cannot be synced (what fsync reports for terminals and pipes)
	errnoLocked := zapcore.Lock(&c09ErrnoBuf{})
	errnoLogger := zap.New(zapcore.NewCore(zapcore.NewJSONEncoder(zapcore.EncoderConfig{MessageKey: "m"}), errnoLocked, zapcore.DebugLevel), zap.ErrorOutput(errnoLocked),
		zap.WithFatalHook(countHook{new(int64)}), zap.WithPanicHook(countHook{new(int64)}))
	cfg := zapcore.EncoderConfig{TimeKey: "t", MessageKey: "m", LevelKey: "l", NameKey: "n", CallerKey: "c", StacktraceKey: "s", EncodeLevel: zapcore.LowercaseLevelEncoder, EncodeCaller: zapcore.ShortCallerEncoder,
		EncodeTime: zapcore.RFC3339NanoTimeEncoder, EncodeDuration: zapcore.StringDurationEncoder}
	oc, logs := observer.New(al)
	var hookN atomic.Int64
	core := zapcore.NewTee(
		zapcore.NewCore(zapcore.NewJSONEncoder(cfg), locked, al),
		zapcore.NewCore(zapcore.NewConsoleEncoder(cfg), bws, al),
		zapcore.RegisterHooks(oc, func(zapcore.Entry) error { hookN.Add(1); return nil }),
	)
	core = zapcore.NewSamplerWithOptions(core, time.Millisecond, 2, 3, zapcore.SamplerHook(func(zapcore.Entry, zapcore.SamplingDecision) { hookN.Add(1) }))
	inc, err := zapcore.NewIncreaseLevelCore(core, zapcore.DebugLevel)
	if err != nil {
		t.Fatalf("VERIF-INCONCLUSIVE %v", err)
	}
	term := new(int64)
	base := zap.New(inc, zap.AddCaller(), zap.AddStacktrace(zapcore.ErrorLevel), zap.WithFatalHook(countHook{term}), zap.WithPanicHook(countHook{term}),
		zap.Hooks(func(zapcore.Entry) error { hookN.Add(1); return nil }))
	shared := base.WithLazy(zap.Int("lazy", 1), zap.Object("o", cntObjSafe{}))
	sharedRestore := zap.ReplaceGlobals(shared)
	defer sharedRestore()
	lazyChild := shared.WithLazy(zap.String("second", "lazy")).Named("lc")
	sg := shared.Sugar()
	// a logger whose context already holds reflected values; every goroutine encodes through this one core
	reflCtx := base.With(zap.Reflect("rctx", map[string]int{"r": 1}), zap.Any("rany", struct{ A, B int }{1, 2}))
	stdl := zap.NewStdLog(shared)
	grpcl := zapgrpc.NewLogger(shared)
	sl := slog.New(zapslog.NewHandler(shared.Core(), zapslog.WithCaller(true)))
	slh := zapslog.NewHandler(shared.Core())
	// a handler with several groups still pending (no attribute consumed them yet)
	pending := slh.WithGroup("a").WithGroup("b").WithGroup("c")
	// a second observer whose entries are consumed by TakeAll only (each entry goes to exactly one consumer, which
	// then owns it and may edit it in place), behind a logger that carries context
	scrubCore, scrubLogs := observer.New(zapcore.DebugLevel)
	scrubLg := zap.New(scrubCore).With(zap.Int("ctx", 1), zap.String("s", "v"))
	if !p.Fresh {
		// warm everything up before the goroutines start
		shared.Info("warm")
		lazyChild.Info("warm")
		sg.Infow("warm", "k", 1)
		sl.Info("warm")
		reflCtx.Info("warm", zap.Reflect("v", 1))
		stdl.Print("warm")
		grpcl.Info("warm")
		_, _ = bws.Write([]byte("warm\n"))
		_ = shared.Sync()
	}
	var wg sync.WaitGroup
	var panicMsg atomic.Value
	for g := range p.Scripts {
		wg.Add(1)
		go func(g int) {
			defer wg.Done()
			defer func() {
				if r := recover(); r != nil {
					buf := make([]byte, 8192)
					n := runtime.Stack(buf, false)
					panicMsg.Store(fmt.Sprintf("goroutine %d panicked: %v\n%s", g, r, buf[:n]))
				}
			}()
			rep := max(p.Repeat, 1)
			for _, op := range p.Scripts[g] {
				if op == "BWS.Stop" || op == "ReplaceGlobals" || strings.HasPrefix(op, "AtomicLevel.ServeHTTP") {
					rep = min(rep, 3)
				}
				for r := 0; r < rep; r++ {
					switch op {
					case "Logger.Info":
						shared.Info("a", zap.Int("g", g))
					case "Logger.Debug":
						shared.Debug("a", zap.Int("g", g))
					case "Logger.Error":
						shared.Error("a", zap.Int("g", g), zap.Error(fmt.Errorf("e%d", g)))
					case "Logger.Log":
						shared.Log(zapcore.WarnLevel, "a")
					case "Logger.DPanic":
						shared.DPanic("a")
					case "Logger.Panic":
						shared.Panic("a")
					case "Logger.Fatal":
						shared.Fatal("a")
					case "Logger.Check+Write":
						if ce := shared.Check(zapcore.InfoLevel, "h"); ce != nil {
							ce.Write(zap.Int("g", g))
						}
					case "Sugar.Infow":
						sg.Infow("b", "g", g)
					case "Sugar.Infof":
						sg.Infof("b %d", g)
					case "Sugar.Infoln":
						sg.Infoln("b", g)
					case "Sugar.Info":
						sg.Info("b", g)
					case "Sugar.Logw":
						sg.Logw(zapcore.ErrorLevel, "b", "g", g)
					case "Sugar.With":
						sg.With("w", g).Warnw("c")
					case "Sugar.WithLazy":
						sg.WithLazy("wl", g).Warn("c")
					case "Sugar.Errorw(dangling)":
						sg.Errorw("c", "dangling")
					case "Logger.With":
						shared.With(zap.Int("w", g)).Warn("c")
					case "Logger.WithLazy":
						shared.WithLazy(zap.Int("wl", g)).Error("d")
					case "Logger.Named":
						shared.Named("n").Debug("e")
					case "Logger.WithOptions":
						shared.WithOptions(zap.Fields(zap.Int("o", g)), zap.AddCallerSkip(1), zap.IncreaseLevel(zapcore.InfoLevel)).Info("j")
					case "Logger.Level":
						_ = shared.Level()
						_ = base.Level()
					case "Logger.Sync":
						_ = shared.Sync()
					case "Logger.Sugar/Desugar":
						shared.Sugar().Desugar().Sugar().Infow("k")
					case "Logger.Core.Enabled":
						_ = shared.Core().Enabled(zapcore.InfoLevel)
						_ = lazyChild.Core().Enabled(zapcore.DebugLevel)
					case "AtomicLevel.SetLevel":
						al.SetLevel(zapcore.Level(g%3 - 1))
					case "AtomicLevel.Level":
						_ = al.Level()
						_ = al.String()
					case "AtomicLevel.Enabled":
						_ = al.Enabled(zapcore.WarnLevel)
					case "AtomicLevel.ServeHTTP(GET)":
						al.ServeHTTP(httptest.NewRecorder(), httptest.NewRequest("GET", "/", nil))
					case "AtomicLevel.ServeHTTP(PUT)":
						req := httptest.NewRequest("PUT", "/", strings.NewReader(`{"level":"debug"}`))
						al.ServeHTTP(httptest.NewRecorder(), req)
					case "AtomicLevel.MarshalText":
						_, _ = al.MarshalText()
					case "ReplaceGlobals":
						restore := zap.ReplaceGlobals(shared)
						restore()
					case "L().Info":
						zap.L().Info("f")
					case "S().Infow":
						zap.S().Infow("g", "k", g)
					case "Observer.All":
						_ = logs.All()
					case "Observer.Len":
						_ = logs.Len()
					case "Observer.TakeAll":
						_ = logs.TakeAll()
					case "Observer.Filter":
						_ = logs.FilterMessage("a").FilterLevelExact(zapcore.InfoLevel).Len()
					case "slog.Info":
						sl.Info("i", "k", g)
					case "slog.With+WithGroup":
						sl.With("a", g).WithGroup("G").Warn("i", "k", g)
					case "slog.Handler.WithAttrs+Handle":
						h := slh.WithAttrs([]slog.Attr{slog.Int("a", g)}).WithGroup("H")
						_ = h.Handle(context.Background(), slog.NewRecord(time.Unix(1, 0), slog.LevelError, "i", 0))
					case "slog.PendingGroups.WithGroup":
						h := pending.WithGroup(fmt.Sprintf("g%d", g))
						r := slog.NewRecord(time.Unix(1, 0), slog.LevelInfo, "i", 0)
						r.AddAttrs(slog.Int("k", g))
						_ = h.Handle(context.Background(), r)
					case "slog.PendingGroups.Handle":
						// several goroutines through the SAME handler whose groups are still pending
						r := slog.NewRecord(time.Unix(1, 0), slog.LevelInfo, "i", 0)
						r.AddAttrs(slog.Int("k", g), slog.Any("v", c18Valuer{slog.StringValue("resolved")}))
						_ = pending.Handle(context.Background(), r)
					case "Logger.Info(ObjectValues of guarded elements)":
						// elements that guard their state with a mutex of their own: the marshaler (pointer receiver) locks
						// the element it is handed - which must be the caller's element, not an unguarded copy of it
						shared.Info("guarded", zap.ObjectValues("items", guarded))
					case "GuardedElems.Update":
						for i := range guarded {
							guarded[i].mu.Lock()
							guarded[i].n++
							guarded[i].mu.Unlock()
						}
					case "SharedRestore.Call":
						// ONE restore function (as returned by ReplaceGlobals) called by whoever gets there - twice, from
						// several goroutines: the globals API is documented as safe for concurrent use
						sharedRestore()
					case "BWSClockOnly.Write":
						_, _ = bwsClockOnly.Write([]byte("clock-only\n"))
					case "BWSClockOnly.Sync":
						_ = bwsClockOnly.Sync()
					case "ScrubObs.Info":
						scrubLg.Info("no call-site fields")
					case "ScrubObs.InfoFields":
						scrubLg.Info("fields", zap.Int("g", g))
					case "ScrubObs.With":
						scrubLg.With(zap.Int("child", g)).Info("child")
					case "ScrubObs.TakeAndScrub":
						for _, e := range scrubLogs.TakeAll() {
							for i := range e.Context {
								e.Context[i] = zap.Skip() // the receiver scrubs what it took
							}
						}
					case "Observer.Filter(panicking predicate)":
						// a predicate that fails (t.FailNow / a panic inside it) must not leave the observer locked
						func() {
							defer func() { _ = recover() }()
							_ = logs.Filter(func(observer.LoggedEntry) bool { panic("predicate failed") })
						}()
					case "Observer.ReadMessages":
						// a consumer of the observed entries reads their bytes (messages, names, string fields)
						n := 0
						for _, e := range logs.All() {
							n += len(append([]byte(nil), e.Message...)) + len(append([]byte(nil), e.LoggerName...))
							for _, f := range e.Context {
								n += len(append([]byte(nil), f.String...))
							}
						}
						_ = n
					case "slog.PendingGroups.WithAttrs":
						_ = pending.WithAttrs([]slog.Attr{slog.Int("a", g)}).Handle(context.Background(), slog.NewRecord(time.Unix(1, 0), slog.LevelWarn, "i", 0))
					case "BWSoverUnsafe.Write(small)":
						_, _ = bwsUnsafe.Write([]byte("small\n"))
					case "BWSoverUnsafe.Write(oversized)":
						_, _ = bwsUnsafe.Write([]byte("an entry that is larger than the whole buffer of the syncer ......\n"))
					case "BWSoverUnsafe.Sync":
						_ = bwsUnsafe.Sync()
					case "BWSoverLock.Write":
						_, _ = bwsOverLock.Write([]byte("buffered over the shared lock, longer than the buffer ............\n"))
					case "BWSoverLock.Sync":
						_ = bwsOverLock.Sync()
					case "ErrnoLocked.Write+Sync":
						_, _ = errnoLocked.Write([]byte("x\n"))
						_ = errnoLocked.Sync()
					case "ErrnoLogger.Error+Sync":
						errnoLogger.DPanic("sync follows") // the IO core syncs after DPanic and above
						_ = errnoLogger.Sync()
						errnoLogger.Info("after")
					case "BWS.Write":
						_, _ = bws.Write([]byte("direct\n"))
					case "BWS.Sync":
						_ = bws.Sync()
					case "BWS.Stop":
						_ = bws.Stop()
					case "Locked.Write":
						_, _ = locked.Write([]byte("direct\n"))
					case "Locked.Sync":
						_ = locked.Sync()
					case "LazyChild.Info":
						lazyChild.Info("lc")
					case "LazyChild.With":
						lazyChild.With(zap.Int("x", g)).Sugar().Infow("lc", "y", g)
					case "yield":
						runtime.Gosched()
					case "ReflectCtx.Info(reflect)":
						reflCtx.Info("r", zap.Reflect("v", map[string]any{"g": g, "s": []int{g, g}}), zap.Any("a", struct{ G int }{g}))
					case "ReflectCtx.With(reflect)":
						reflCtx.With(zap.Reflect("w", []int{g})).Warn("r", zap.Reflect("v", g))
					case "Logger.Info(unencodable)":
						shared.Info("u", zap.Reflect("bad", make(chan int)), zap.Reflect("nan", map[string]float64{"x": math.NaN()}), zap.Reflect("ok", []int{g}))
						reflCtx.Info("u", zap.Reflect("bad", func() {}), zap.Reflect("ok", g))
					case "Logger.Info(unencodable-last)":
						shared.Info("u", zap.Int("g", g), zap.Reflect("bad", make(chan int)))
						reflCtx.Info("u", zap.Reflect("ok", g), zap.Reflect("bad", map[string]float64{"x": math.Inf(1)}))
					case "Logger.Error(errors)":
						shared.Error("e", zap.Errors("errs", []error{fmt.Errorf("e%d", g), nil, verboseErr{"v"}, groupErr{"g", []error{fmt.Errorf("m")}}}), zap.NamedError("ne", panicErr{"boom"}))
					case "Logger.Info(nested)":
						shared.Info("n", zap.Object("o", c04Obj{g, "pad"}), zap.Objects("os", []c04Obj{{g, "a"}, {g, "b"}}), zap.Dict("d", zap.Int("g", g), zap.Namespace("ns"), zap.Duration("dur", time.Duration(g))),
							zap.Times("ts", []time.Time{time.Unix(int64(g), 0)}), zap.Namespace("open"), zap.Binary("bin", []byte{byte(g)}))
					case "Logger.Info(stringers)":
						shared.Info("s", zap.Stringer("ok", okStringer{"s"}), zap.Stringer("panics", panicStringer{"boom"}), zap.Stringers("ss", []fmt.Stringer{okStringer{"a"}, nil, (*ptrStringer)(nil)}))
					case "DeepStack.Error":
						// stack capture deeper than the pooled 64-frame storage
						deepCall(70+10*g, func() { shared.Error("deep", zap.Int("g", g)) })
					case "Logger.Info(big)":
						shared.Info(strings.Repeat("x", 3000), zap.String("big", strings.Repeat("y", 2000)))
					case "StdLog.Print":
						stdl.Print("std ", g)
					case "grpc.Info":
						grpcl.Info("grpc", g)
						grpcl.Warningf("grpc %d", g)
					case "grpc.V":
						_ = grpcl.V(g % 4)
					case "zapio.Write":
						w := &zapio.Writer{Log: shared, Level: zapcore.InfoLevel}
						_, _ = w.Write([]byte("line1\npartial"))
						_ = w.Close()
					case "Logger.Check(disabled)":
						if ce := shared.Check(zapcore.Level(-5), "never"); ce != nil {
							ce.Write()
						}
					}
				}
				rep = max(p.Repeat, 1)
			}
		}(g)
	}
	done := make(chan struct{})
	go func() { wg.Wait(); close(done) }()
	select {
	case <-done:
	case <-time.After(30 * time.Second):
		buf := make([]byte, 1<<20)
		n := runtime.Stack(buf, true)
		dump := string(buf[:n])
		if strings.Contains(dump, "go.uber.org/zap/zapcore.") || strings.Contains(dump, "go.uber.org/zap.(") {
			t.Fatalf("VERIF-DEADLOCK goroutines still inside zap after 30s:\n%s", clipS(dump))
		}
		t.Fatalf("VERIF-INCONCLUSIVE watchdog expired with no goroutine inside zap")
	}
	if v := panicMsg.Load(); v != nil {
		t.Fatalf("%v", v)
	}
	// classification: goroutines touching the same shared object with a writer-like op
	writers := map[string]int{}
	for _, sc := range p.Scripts {
		seen := map[string]bool{}
		for _, op := range sc {
			switch {
			case strings.HasPrefix(op, "Logger.") || strings.HasPrefix(op, "Sugar.") || strings.HasPrefix(op, "slog."):
				seen["shared-lazy-logger"] = true
			case strings.HasPrefix(op, "ReflectCtx") || strings.HasPrefix(op, "DeepStack"):
				seen["reflect-context-logger"] = true
			case strings.HasPrefix(op, "LazyChild"):
				seen["lazy-child"] = true
			case op == "AtomicLevel.SetLevel" || op == "AtomicLevel.ServeHTTP(PUT)":
				seen["atomic-level"] = true
			case op == "ReplaceGlobals":
				seen["globals"] = true
			case strings.HasPrefix(op, "BWS."):
				seen["bws"] = true
			}
		}
		for k := range seen {
			writers[k]++
		}
	}
	for _, n := range writers {
		if n >= 2 {
			sharedWriters++
		}
	}
	return
}

// cntObjSafe is a marshaler that is safe for concurrent use.
type cntObjSafe struct{}

func (cntObjSafe) MarshalLogObject(enc zapcore.ObjectEncoder) error { enc.AddInt("x", 1); return nil }

func propC09(t *rapid.T) {
	p := genC09Program(t)
	dumpProgram(p)
	sw := c09Run(t, p)
	nt := p.Fresh && sw >= 1
	labels := []string{fmt.Sprintf("fresh=%v", p.Fresh)}
	if sw >= 1 {
		labels = append(labels, ">=2 goroutines on one shared object with a writer-like op")
	}
	sig := fmt.Sprintf("f%v p%d|", p.Fresh, p.Procs)
	for _, sc := range p.Scripts {
		sig += fmt.Sprint(len(sc)) + ","
	}
	h := 0
	for _, sc := range p.Scripts {
		for _, op := range sc {
			for _, c := range op {
				h = h*31 + int(c)
			}
		}
	}
	statCase("C09", nt, fmt.Sprintf("%s%x", sig, h&0xffffff), labels...)
	if nt {
		statSample("C09", func() string { b, _ := jsonMarshalIndent(p); return clipS(string(b)) })
	}
}

func TestC09Concurrent(t *testing.T) {
	if f := os.Getenv("VERIF_REPLAY_PROGRAM"); f != "" {
		b, err := os.ReadFile(f)
		if err != nil {
			t.Fatalf("VERIF-INCONCLUSIVE %v", err)
		}
		var p c09Program
		if err := jsonUnmarshal(b, &p); err != nil {
			t.Fatalf("VERIF-INCONCLUSIVE %v", err)
		}
		for i := 0; i < 500; i++ {
			c09Run(t, &p)
		}
		return
	}
	rapid.Check(t, propC09)
}

// F8: fresh WithLazy logger used from several goroutines at once.
func TestRegressC09(t *testing.T) {
	for i := 0; i < 300; i++ {
		c, _ := observer.New(zapcore.DebugLevel)
		lg := zap.New(c).WithLazy(zap.Int("a", 1))
		var wg sync.WaitGroup
		for g := 0; g < 4; g++ {
			wg.Add(1)
			go func() { defer wg.Done(); lg.Info("x"); _ = lg.Core().Enabled(zapcore.InfoLevel) }()
		}
		wg.Wait()
	}
}
