package props

import (
	"fmt"
	"testing"

	"go.uber.org/zap"
	"go.uber.org/zap/zapcore"
	"pgregory.net/rapid"
)

// c05CountCore counts what it is handed.
type c05CountCore struct {
	zapcore.LevelEnabler
	n *int
}

func (c c05CountCore) With([]zapcore.Field) zapcore.Core { return c }
func (c c05CountCore) Check(e zapcore.Entry, ce *zapcore.CheckedEntry) *zapcore.CheckedEntry {
	if c.Enabled(e.Level) {
		return ce.AddCore(e, c)
	}
	return ce
}
func (c c05CountCore) Write(zapcore.Entry, []zapcore.Field) error { *c.n++; return nil }
func (c c05CountCore) Sync() error                                { return nil }

// propC05LongLived: a logger in use for hundreds of thousands of entries over a tee in which a hooked core sits among
// 0-3 siblings (before and after it): for EVERY entry, the first and the two hundred thousandth alike, the hooks fire
// exactly once iff the wrapped core accepts the entry, and every branch is handed exactly the entries it enables.
func propC05LongLived(t *rapid.T) {
	before := rapid.IntRange(0, 3).Draw(t, "siblingsBefore")
	after := rapid.IntRange(0, 2).Draw(t, "siblingsAfter")
	leafLevel := zapcore.Level(rapid.IntRange(-1, 1).Draw(t, "hookedLevel"))
	total := rapid.SampledFrom([]int{3000, 70000, 140000, 270000}).Draw(t, "entries")
	var cores []zapcore.Core
	var counts []*int
	var levels []zapcore.Level
	add := func(l zapcore.Level) zapcore.Core {
		n := new(int)
		counts, levels = append(counts, n), append(levels, l)
		return c05CountCore{l, n}
	}
	for i := 0; i < before; i++ {
		cores = append(cores, add(zapcore.Level(rapid.IntRange(-1, 1).Draw(t, "siblingLevel"))))
	}
	hooks := 0
	leaf := add(leafLevel)
	hookedAt := len(counts) - 1
	var hooked zapcore.Core = zapcore.RegisterHooks(leaf, func(zapcore.Entry) error { hooks++; return nil })
	if rapid.Bool().Draw(t, "hooksViaOption") && before+after == 0 {
		hooked = leaf
	}
	cores = append(cores, hooked)
	for i := 0; i < after; i++ {
		cores = append(cores, add(zapcore.Level(rapid.IntRange(-1, 1).Draw(t, "siblingLevel"))))
	}
	lg := zap.New(zapcore.NewTee(cores...))
	if hooked == leaf {
		lg = lg.WithOptions(zap.Hooks(func(zapcore.Entry) error { hooks++; return nil }))
	}
	want := make([]int, len(counts))
	wantHooks := 0
	for i := 1; i <= total; i++ {
		lvl := zapcore.Level(i%3 - 1)
		lg.Log(lvl, "entry")
		for k, l := range levels {
			if lvl >= l {
				want[k]++
			}
		}
		if lvl >= levels[hookedAt] {
			wantHooks++
		}
		if hooks != wantHooks {
			t.Fatalf("entry %d (level %v): the hooks have fired %d times, the hooked core (level %v, %d siblings before it, %d after) accepted %d entries", i, lvl, hooks, levels[hookedAt], before, after, wantHooks)
		}
		if i%4096 == 0 || i == total {
			for k := range counts {
				if *counts[k] != want[k] {
					t.Fatalf("after %d entries branch %d (level %v) has been handed %d entries, it enables %d of them", i, k, levels[k], *counts[k], want[k])
				}
			}
		}
	}
	statCase("C05", total >= 70000 && before+after > 0, fmt.Sprintf("long|%d|%d|%d|%d", before, after, leafLevel, total), "long-lived logger over a tee with a hooked core", fmt.Sprintf("%d entries", total))
}

func TestC05LongLived(t *testing.T) { rapid.Check(t, propC05LongLived) }
