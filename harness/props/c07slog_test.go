package props

// C07 over the slog front end: exp/zapslog handlers form a derivation tree of their own (WithAttrs, WithGroup);
// every handler must carry exactly its own path — attributes in order, qualified by the groups opened before
// them — whichever handler was derived or used before, over every core composition.

import (
	"context"
	"fmt"
	"log/slog"
	"strings"
	"testing"
	"time"

	"go.uber.org/zap"
	"go.uber.org/zap/exp/zapslog"
	"go.uber.org/zap/zapcore"
	"go.uber.org/zap/zaptest/observer"
	"pgregory.net/rapid"
)

type c07SlogNode struct {
	id    int
	h     slog.Handler
	steps []c18Step
	kids  int
	desc  string
}

var c07SlogKinds = []string{"json", "json", "tee(observer,json)", "sampler", "hooked", "increase", "lazy", "ctx-ns", "all"}

func c07SlogCore(kind string, sink *memSink) (zapcore.Core, *observer.ObservedLogs) {
	jc := zapcore.NewCore(zapcore.NewJSONEncoder(c18Cfg), sink, zapcore.DebugLevel)
	oc, logs := observer.New(zapcore.DebugLevel)
	nop := func(zapcore.Entry) error { return nil }
	switch kind {
	case "tee(observer,json)":
		return zapcore.NewTee(oc, jc), logs
	case "sampler":
		return zapcore.NewSamplerWithOptions(jc, time.Hour, 1<<30, 0), nil
	case "hooked":
		return zapcore.RegisterHooks(jc, nop), nil
	case "increase":
		c, err := zapcore.NewIncreaseLevelCore(jc, zapcore.DebugLevel)
		if err != nil {
			panic(err)
		}
		return c, nil
	case "lazy":
		return zapcore.NewLazyWith(jc, []zapcore.Field{zap.String("cx", "v")}), nil
	case "ctx-ns":
		return jc.With([]zapcore.Field{zap.String("cx", "v"), zap.Namespace("cns")}), nil
	case "all":
		inc, _ := zapcore.NewIncreaseLevelCore(zapcore.NewTee(oc, jc), zapcore.DebugLevel)
		return zapcore.RegisterHooks(zapcore.NewSamplerWithOptions(zapcore.NewLazyWith(inc, nil), time.Hour, 1<<30, 0), nop), logs
	}
	return jc, nil
}

// genC07IgnorableAttr: the attributes a slog.Handler must ignore.
func genC07IgnorableAttr(t *rapid.T) slog.Attr {
	switch rapid.IntRange(0, 3).Draw(t, "ignorable") {
	case 0:
		return slog.Attr{}
	case 1:
		return slog.Group("opt")
	case 2:
		return slog.Any("bag", c18Valuer{slog.GroupValue()})
	}
	return slog.Group("opt2", slog.Attr{})
}

func propC07Slog(t *rapid.T) {
	kind := rapid.SampledFrom(c07SlogKinds).Draw(t, "coreKind")
	sink := &memSink{}
	core, logs := c07SlogCore(kind, sink)
	root := &c07SlogNode{h: zapslog.NewHandler(core), desc: "root"}
	nodes := []*c07SlogNode{root}
	var hist []string
	ctr := 0
	nDerive, ignoredWith, ignoredAfterGroup, siblingUse := 0, false, false, false

	logThrough := func(n *c07SlogNode) {
		ctr++
		msg := fmt.Sprintf("msg%d", ctr)
		r := slog.NewRecord(time.Time{}, slog.LevelInfo, msg, 0)
		var actual []slog.Attr
		switch rapid.IntRange(0, 4).Draw(t, "recordAttrs") {
		case 0: // none: pending groups must not show up at all
		case 1:
			actual = append(actual, genC07IgnorableAttr(t))
		case 2:
			actual = append(actual, genC07IgnorableAttr(t), slog.Int(fmt.Sprintf("site%d", ctr), ctr))
		default:
			actual = append(actual, slog.Int(fmt.Sprintf("site%d", ctr), ctr))
			if rapid.Bool().Draw(t, "moreAttrs") {
				actual = append(actual, genC18Attr(t, 2, false))
			}
		}
		r.AddAttrs(actual...)
		if n.kids > 0 || (n.id > 0 && len(nodes) > n.id+1) {
			siblingUse = true
		}
		before := len(sink.writes)
		if logs != nil {
			logs.TakeAll()
		}
		if err := n.h.Handle(context.Background(), r); err != nil {
			t.Fatalf("Handle: %v", err)
		}
		hist = append(hist, fmt.Sprintf("log(#%d,%v)", n.id, actual))
		fail := func(f string, a ...any) {
			t.Fatalf("%s\nhandler #%d (%s) over %s\nhistory: %s", fmt.Sprintf(f, a...), n.id, n.desc, kind, strings.Join(hist, " ; "))
		}
		if got := len(sink.writes) - before; got != 1 {
			fail("one record produced %d lines", got)
		}
		if logs != nil {
			if es := logs.TakeAll(); len(es) != 1 || es[0].Message != msg {
				fail("the observer branch recorded %d entries for one record", len(es))
			}
		}
		line := sink.writes[len(sink.writes)-1]
		why, got := checkJSONLine(line, "\n")
		if why != "" {
			fail("malformed line: %s: %q", why, line)
		}
		want := &xnode{kind: "obj"}
		want.kids = append(want.kids, xkv{"lvl", xstr("info")}, xkv{"msg", xstr(msg)})
		steps := append(append([]c18Step{}, n.steps...), c18Step{attrs: actual})
		fromHandler := c18Flatten(c18Build(steps))
		switch kind {
		case "lazy":
			want.kids = append(want.kids, xkv{"cx", xstr("v")})
			want.kids = append(want.kids, fromHandler...)
		case "ctx-ns":
			want.kids = append(want.kids, xkv{"cx", xstr("v")}, xkv{"cns", &xnode{kind: "obj", kids: fromHandler}})
		default:
			want.kids = append(want.kids, fromHandler...)
		}
		if e := c18Cmp("$", want, got); e != "" {
			fail("entry does not carry exactly the handler's own derivation path: %s\n line: %s\n want: %s", e, line, renderX(want))
		}
	}

	derive := func(group bool) {
		p := nodes[rapid.IntRange(0, len(nodes)-1).Draw(t, "parent")]
		if rapid.IntRange(0, 2).Draw(t, "deriveFromLatest") == 0 {
			p = nodes[len(nodes)-1]
		}
		n := &c07SlogNode{id: len(nodes), steps: append([]c18Step{}, p.steps...)}
		p.kids++
		nDerive++
		if group {
			g := rapid.SampledFrom([]string{"G", "H", "a", "G", ""}).Draw(t, "groupName")
			n.h = p.h.WithGroup(g)
			n.steps = append(n.steps, c18Step{group: g, isGrp: true})
			n.desc = fmt.Sprintf("#%d.WithGroup(%q)", p.id, g)
		} else {
			var as []slog.Attr
			switch rapid.IntRange(0, 4).Draw(t, "withShape") {
			case 0: // every attribute is one the handler must ignore: the derivation is a no-op
				for i, k := 0, rapid.IntRange(1, 3).Draw(t, "nIgnorable"); i < k; i++ {
					as = append(as, genC07IgnorableAttr(t))
				}
				ignoredWith = true
				if len(p.steps) > 0 && p.steps[len(p.steps)-1].isGrp && p.steps[len(p.steps)-1].group != "" {
					ignoredAfterGroup = true
				}
			case 1:
				as = append(as, genC07IgnorableAttr(t))
				ctr++
				as = append(as, slog.Int(fmt.Sprintf("w%d", ctr), ctr))
			default:
				for i, k := 0, rapid.IntRange(1, 3).Draw(t, "nAttrs"); i < k; i++ {
					ctr++
					if rapid.IntRange(0, 3).Draw(t, "richAttr") == 0 {
						as = append(as, genC18Attr(t, 2, false))
					} else {
						as = append(as, slog.Int(fmt.Sprintf("w%d", ctr), ctr))
					}
				}
			}
			n.h = p.h.WithAttrs(as)
			n.steps = append(n.steps, c18Step{attrs: as})
			n.desc = fmt.Sprintf("#%d.WithAttrs(%v)", p.id, as)
		}
		hist = append(hist, fmt.Sprintf("#%d=%s", n.id, n.desc))
		nodes = append(nodes, n)
	}

	t.Repeat(map[string]func(*rapid.T){
		"withAttrs":  func(*rapid.T) { derive(false) },
		"withAttrs2": func(*rapid.T) { derive(false) },
		"withGroup":  func(*rapid.T) { derive(true) },
		"withGroup2": func(*rapid.T) { derive(true) },
		"log":        func(*rapid.T) { logThrough(nodes[rapid.IntRange(0, len(nodes)-1).Draw(t, "node")]) },
		"log2":       func(*rapid.T) { logThrough(nodes[rapid.IntRange(0, len(nodes)-1).Draw(t, "node")]) },
	})
	for _, n := range rapid.Permutation(nodes).Draw(t, "finalOrder") {
		logThrough(n)
	}
	nt := nDerive >= 3 && siblingUse
	labels := []string{"slog tree over " + kind}
	if ignoredWith {
		labels = append(labels, "slog: With of ignorable attrs only")
	}
	if ignoredAfterGroup {
		labels = append(labels, "slog: With of ignorable attrs only on a pending group")
	}
	sig := "slog|" + kind + "|"
	for _, n := range nodes[1:] {
		s := n.steps[len(n.steps)-1]
		if s.isGrp {
			sig += fmt.Sprintf("g%q", s.group)
		} else {
			sig += fmt.Sprintf("a%d", len(s.attrs))
		}
	}
	statCase("C07", nt, sig, labels...)
	if nt {
		statSample("C07", func() string { return "slog " + kind + ": " + strings.Join(hist, " ; ") })
	}
}

func TestC07Slog(t *testing.T) { rapid.Check(t, propC07Slog) }
