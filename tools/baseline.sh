#!/bin/bash
# Runs zap's pinned test suite (all four modules) on a tree (default /repo). Exit 0 iff all pass.
# Usage: tools/baseline.sh [repo_dir]
R=${1:-/repo}
export GOPROXY=off GOSUMDB=off GOTOOLCHAIN=local GOFLAGS=
rc=0
for m in . ./exp ./zapgrpc/internal/test; do
  out=$(cd "$R/$m" && go test -mod=mod -vet=off -count=1 -timeout 25m ./... 2>&1) || {
    # zap's own suite has a few timing-sensitive tests (e.g. TestSamplerConcurrent) that fail on a loaded machine: retry once
    sleep 5
    out=$(cd "$R/$m" && go test -mod=mod -vet=off -count=1 -timeout 25m ./... 2>&1) || { rc=1; echo "$out" | grep -v '^ok\|no test files'; }
  }
done
[ $rc = 0 ] && echo "BASELINE OK" || echo "BASELINE FAILED"
exit $rc
