#!/bin/bash
# Development aid: try a seeded patch against the checks in a scratch worktree
# (never in /repo). Usage: tools/seedtest.sh <worktree> <patch.diff> <ID>... ; prints exit status per check.
W=$1; P=$2; shift 2
git -C "$W" checkout -q -- . && git -C "$W" clean -fdq
git -C "$W" apply "$P" || { echo "patch does not apply"; exit 3; }
(cd "$W" && GOFLAGS=-mod=mod GOPROXY=off go build ./... && cd exp && GOFLAGS=-mod=mod GOPROXY=off go build ./...) || { echo "BUILD FAILED"; git -C "$W" checkout -q -- .; exit 3; }
for id in "$@"; do
  out=$(cd /verif && VERIF_REPO="$W" ./check "$id" quick 2>&1); rc=$?
  echo "== $id exit $rc: $(echo "$out" | grep -m1 -E 'failed after|--- FAIL|DATA RACE|INCONCLUSIVE' | cut -c1-260)"
done
git -C "$W" checkout -q -- . && git -C "$W" clean -fdq
