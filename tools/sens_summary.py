#!/usr/bin/env python3
"""Summarises notes/sensitivity.jsonl (latest trial per mutant and property) into notes/SENSITIVITY.md."""
import json, os, sys
VERIF = os.path.dirname(os.path.dirname(os.path.abspath(__file__)))
sys.path.insert(0, os.path.join(VERIF, "tools"))
from mutants import MUTANTS  # noqa: E402
REGISTERED = {(m["name"], p) for m in MUTANTS for p in m["props"]}
last = {}
for l in open(os.path.join(VERIF, "notes", "sensitivity.jsonl")):
    r = json.loads(l)
    for p in r.get("props", []):
        if p in r:
            if (r["mutant"], p) in REGISTERED:
                last[(r["mutant"], p)] = (r[p], r.get("time", ""), r.get("baseline", ""))
rows = sorted(last.items(), key=lambda kv: (kv[0][1], kv[0][0]))
caught = sum(1 for _, (res, _, _) in rows if res.get("exit") == 1)
with open(os.path.join(VERIF, "notes", "SENSITIVITY.md"), "w") as f:
    f.write("Deliberate breakages (tools/mutants.py) against the quick tier; latest trial per (mutant, property).\n\n")
    f.write("%d of %d (mutant, property) pairs detected.\n\n| property | mutant | exit | wall s | when |\n|---|---|---|---|---|\n" % (caught, len(rows)))
    for (m, p), (res, when, base) in rows:
        f.write("| %s | %s | %s | %s | %s |\n" % (p, m, res.get("exit"), res.get("wall"), when))
print("%d/%d detected" % (caught, len(rows)))
for (m, p), (res, when, base) in rows:
    if res.get("exit") != 1:
        print("NOT DETECTED", p, m, res)
