#!/usr/bin/env python3
"""Runs the registered checks against every confirmed seeded change, the way the
brief prescribes: `git -C /repo apply <patch>`, run the checks, `git -C /repo
checkout -- .` straight afterwards. Updates seeded/<id>/meta.json ("checks") and
writes notes/CATCHES.md.

  tools/seed_matrix.py [seed-id ...]
"""
import json, os, subprocess, sys, time

VERIF = os.path.dirname(os.path.dirname(os.path.abspath(__file__)))
EXTRA = {
    "C05-1": ["C11"], "C06-1": ["C12"], "C09-1": ["C18"], "C09-2": ["C12"], "C14-2": ["C07"], "C16-1": ["C04", "C08", "C09"],
    "C04-1": ["C12"], "C04-2": ["C13"], "C13-2": ["C04"], "C08-2": ["C09"], "C10-1": ["C01"], "C01-2": ["C02", "C10"], "C02-1": ["C01"],
    "C15-1": ["C08"], "C08-1": ["C15"], "C18-1": ["C09"], "C20-1": [], "C03-2": ["C02"],
    # round 2
    "C01-3": ["C08", "C10"], "C01-4": ["C04", "C09"], "C02-3": ["C04", "C09"], "C03-3": ["C14"], "C03-4": ["C14"], "C06-3": ["C10"], "C06-4": ["C09"],
    "C07-3": ["C08"], "C07-4": ["C18", "C09"], "C08-3": ["C10"], "C08-4": ["C06"], "C09-3": ["C08"], "C09-4": ["C15"], "C10-3": ["C01"], "C10-4": ["C09"],
    "C12-4": ["C13"], "C13-3": ["C12"], "C14-3": ["C03"], "C17-4": ["C13"], "C18-3": ["C09"], "C20-4": ["C05"],
}
EXTRA_FILE = os.path.join(VERIF, "tools", "seed_extra.json")
if os.path.exists(EXTRA_FILE):
    EXTRA.update(json.load(open(EXTRA_FILE)))


def sh(cmd, timeout=3000):
    try:
        r = subprocess.run(cmd, shell=True, stdout=subprocess.PIPE, stderr=subprocess.STDOUT, text=True, errors="replace", timeout=timeout)
        return r.returncode, r.stdout
    except subprocess.TimeoutExpired as e:
        return 124, (e.stdout or "") + "TIMEOUT"


# MATRIX_REPO=<scratch worktree of /repo's HEAD>: apply the patches there and run the checks with VERIF_REPO pointing at it
# (several shards of the matrix can then run side by side, one worktree each). Unset: /repo itself, as the brief prescribes.
REPO = os.environ.get("MATRIX_REPO", "/repo")
CHECK_ENV = "" if REPO == "/repo" else "VERIF_REPO=%s " % REPO


def main():
    ids = sys.argv[1:] or sorted(os.listdir(os.path.join(VERIF, "seeded")))
    if ids and ids[0].startswith("--shard="):
        k, n = map(int, ids[0][len("--shard="):].split("/"))
        ids = [s for i, s in enumerate(sorted(os.listdir(os.path.join(VERIF, "seeded")))) if i % n == k]
    assert not sh("git -C %s status --porcelain" % REPO)[1].strip(), REPO + " is dirty"
    for sid in ids:
        d = os.path.join(VERIF, "seeded", sid)
        mp = os.path.join(d, "meta.json")
        if not os.path.exists(mp):
            continue
        meta = json.load(open(mp))
        checks = [meta["property"]] + EXTRA.get(sid, [])
        rc, out = sh("git -C %s apply %s/patch.diff" % (REPO, d))
        if rc != 0:
            print(sid, "PATCH DOES NOT APPLY", out)
            continue
        results = {}
        try:
            for c in checks:
                t0 = time.time()
                rc, out = sh("cd %s && %s./check %s quick" % (VERIF, CHECK_ENV, c))
                first = ""
                for l in out.splitlines():
                    if "failed after" in l or "--- FAIL" in l or "DATA RACE" in l or "VERIF-DEADLOCK" in l or "deadlock" in l:
                        first = l.strip()[:300]
                        break
                results[c] = {"tier": "quick", "exit": rc, "detected": rc == 1, "wall_s": round(time.time() - t0, 1), "first_failure": first}
                print("%s check %s: exit %d %s" % (sid, c, rc, first[:150]), flush=True)
        finally:
            sh("git -C %s checkout -- . && git -C %s clean -fdq" % (REPO, REPO))
            sh("rm -rf %s/replays/C* %s/.build/replays-alt/C*" % (VERIF, VERIF))
        meta["checks"] = results
        meta["how_run"] = "git -C /repo apply seeded/%s/patch.diff; ./check <ID> quick; git -C /repo checkout -- ." % sid
        meta["detected_by"] = sorted(c for c, r in results.items() if r["detected"])
        json.dump(meta, open(mp, "w"), indent=1)
    # restore evidence of the unchanged tree is the caller's job (re-run the quick checks)
    rows = []
    for sid in sorted(os.listdir(os.path.join(VERIF, "seeded"))):
        mp = os.path.join(VERIF, "seeded", sid, "meta.json")
        if os.path.exists(mp):
            m = json.load(open(mp))
            rows.append((sid, m.get("summary", ""), m.get("needs", ""), ", ".join(m.get("detected_by", [])) or "none", ", ".join(c for c, r in m.get("checks", {}).items() if not r["detected"])))
    with open(os.path.join(VERIF, "notes", "CATCHES.md"), "w") as f:
        f.write("| seeded change | what it breaks | needs | caught by (quick) | run but not caught by |\n|---|---|---|---|---|\n")
        for r in rows:
            f.write("| %s | %s | %s | %s | %s |\n" % r)
    print("wrote notes/CATCHES.md")


if __name__ == "__main__":
    main()
