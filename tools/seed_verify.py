#!/usr/bin/env python3
"""Confirms a seeded change delivered by a sub-agent and records it under /verif/seeded/.

  tools/seed_verify.py <agent seed_out dir> <property ID> <n> [--checks C01,C02] [--worktree DIR]

Steps (all in a scratch worktree of /repo, never in /repo itself):
  1. patch applies to HEAD and all modules build
  2. the whole pinned suite stays green with the patch
  3. the demonstration fails with the patch and passes without it
  4. the listed checks (default: the property's own) are run against the patched tree (VERIF_REPO)
Writes /verif/seeded/<ID>-<n>/{patch.diff, demo_test.go, meta.json}.
"""
import json, os, re, shutil, subprocess, sys, time

VERIF = os.path.dirname(os.path.dirname(os.path.abspath(__file__)))
ENV = dict(os.environ, GOFLAGS="-mod=mod", GOPROXY="off", GOSUMDB="off", GOTOOLCHAIN="local")


def sh(cmd, cwd=None, env=None, timeout=1800):
    try:
        r = subprocess.run(cmd, shell=True, cwd=cwd, env=env or ENV, stdout=subprocess.PIPE, stderr=subprocess.STDOUT, text=True, errors="replace", timeout=timeout)
        return r.returncode, r.stdout
    except subprocess.TimeoutExpired as e:
        return 124, (e.stdout or "") + "\nTIMEOUT"


def main():
    a = [x for x in sys.argv[1:] if not x.startswith("--")]
    opts = dict(x[2:].split("=", 1) for x in sys.argv[1:] if x.startswith("--") and "=" in x)
    src, pid, n = a[0], a[1], a[2]
    wt = opts.get("worktree", "/tmp/st/w1")
    checks = opts.get("checks", pid).split(",")
    patch = os.path.join(src, "change%s.diff" % n)
    demo = os.path.join(src, "demo%s_test.go" % n)
    n = opts.get("as", n)  # id suffix under which the seed is recorded
    first = open(demo).readline()
    m = re.match(r"//\s*place in:\s*([^\s;(]+)[^;]*;\s*run:\s*(.*)$", first)
    if not m:
        print("cannot parse demo header:", first)
        return 2
    pkgdir, runcmd = m.group(1).strip(), re.split(r"\s+--\s", m.group(2).strip())[0].strip()
    if pkgdir in (".", "./", "root"):
        pkgdir = "."
    meta = {"property": pid, "seed": "%s-%s" % (pid, n), "source": "independent sub-agent (given only the property text and a scratch worktree)",
            "demo_location": pkgdir, "demo_command": runcmd, "verified": time.strftime("%F %T")}
    clean = "git -C %s checkout -q -- . && git -C %s clean -fdq" % (wt, wt)
    sh(clean)
    rc, out = sh("git -C %s apply %s" % (wt, patch))
    if rc != 0:
        print("PATCH DOES NOT APPLY:", out)
        return 2
    rc, out = sh("go build ./... && cd exp && go build ./...", cwd=wt)
    meta["builds"] = rc == 0
    if rc != 0:
        print("BUILD FAILED", out[-800:])
        sh(clean)
        return 2
    rc, out = sh(os.path.join(VERIF, "tools/baseline.sh") + " " + wt)
    meta["suite_green_with_patch"] = rc == 0
    print("suite with patch:", "green" if rc == 0 else "RED\n" + out[-1500:])
    dst = os.path.join(wt, pkgdir, opts.get("demo-name", "zz_seed_demo_test.go"))  # some demonstrations assert their own file name
    shutil.copy(demo, dst)
    modroot = wt
    if pkgdir.startswith("exp") and not (runcmd.lstrip().startswith("(cd exp") or runcmd.lstrip().startswith("cd exp")):
        modroot = os.path.join(wt, "exp")
        runcmd = runcmd.replace("./exp/", "./")
    rc1, out1 = sh(runcmd if "go test" in runcmd else "go test " + runcmd, cwd=modroot, timeout=900)
    meta["demo_fails_with_patch"] = rc1 != 0
    print("demo with patch: exit", rc1)
    sh("git -C %s apply -R %s" % (wt, patch))
    rc2, out2 = sh(runcmd, cwd=modroot, timeout=900)
    meta["demo_passes_without_patch"] = rc2 == 0
    print("demo without patch: exit", rc2, "" if rc2 == 0 else out2[-800:])
    os.remove(dst)
    sh(clean)
    # run the checks against the patched tree
    sh("git -C %s apply %s" % (wt, patch))
    results = {}
    for c in checks:
        t0 = time.time()
        rc, out = sh("./check %s quick" % c, cwd=VERIF, env=dict(ENV, VERIF_REPO=wt), timeout=3000)
        firstfail = ""
        for l in out.splitlines():
            if "failed after" in l or "--- FAIL" in l or "DATA RACE" in l or "VERIF-DEADLOCK" in l:
                firstfail = l.strip()[:400]
                break
        results[c] = {"tier": "quick", "exit": rc, "detected": rc == 1, "wall_s": round(time.time() - t0, 1), "first_failure": firstfail}
        print("check %s quick: exit %d %s" % (c, rc, firstfail[:200]))
    meta["checks"] = results
    sh(clean)
    sh("rm -rf %s/replays/C*" % VERIF)
    ok = meta["suite_green_with_patch"] and meta["demo_fails_with_patch"] and meta["demo_passes_without_patch"]
    meta["confirmed"] = ok
    notes = os.path.join(src, "NOTES.md") if os.path.exists(os.path.join(src, "NOTES.md")) else os.path.join(src, "notes.md")
    if os.path.exists(notes):
        meta["agent_notes_excerpt"] = open(notes).read()[:3000]
    if ok:
        d = os.path.join(VERIF, "seeded", "%s-%s" % (pid, n))
        os.makedirs(d, exist_ok=True)
        shutil.copy(patch, os.path.join(d, "patch.diff"))
        shutil.copy(demo, os.path.join(d, "demo_test.go"))
        json.dump(meta, open(os.path.join(d, "meta.json"), "w"), indent=1)
        print("recorded", d)
    else:
        print("NOT CONFIRMED", json.dumps({k: v for k, v in meta.items() if k != "agent_notes_excerpt"}))
    return 0


if __name__ == "__main__":
    sys.exit(main())
