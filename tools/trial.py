#!/usr/bin/env python3
"""Sensitivity trials: apply a deliberate breakage to /repo, run checks, revert.

  tools/trial.py list
  tools/trial.py run <mutant-name>... [--baseline] [--tier quick]
  tools/trial.py prop <ID> [--baseline]      all mutants registered for a property

Each mutant is (name, props, file, old, new). The edit is applied to /repo's
working tree and ALWAYS reverted with `git checkout -- .` afterwards.
Results are appended to /verif/notes/sensitivity.jsonl.
"""
import json, os, subprocess, sys, time
VERIF = os.path.dirname(os.path.dirname(os.path.abspath(__file__)))
sys.path.insert(0, os.path.join(VERIF, "tools"))
from mutants import MUTANTS  # noqa: E402

REPO = os.environ.get("TRIAL_REPO", "/repo")  # a scratch worktree of /repo may be used instead (runs in parallel with the seed matrix)
CHECK_ENV = "" if REPO == "/repo" else "VERIF_REPO=%s " % REPO


def sh(cmd, **kw):
    return subprocess.run(cmd, shell=True, stdout=subprocess.PIPE, stderr=subprocess.STDOUT, text=True, errors="replace", **kw)


def apply(m):
    if "revert" in m:
        sha = sh("git -C %s log --format=%%H --grep='%s' -n 1" % (REPO, m["revert"])).stdout.strip()
        if not sha:
            raise SystemExit("mutant %s: fix commit not found" % m["name"])
        r = sh("git -C %s show %s | git -C %s apply -R" % (REPO, sha, REPO))
        if r.returncode != 0:
            raise SystemExit("mutant %s: cannot reverse %s: %s" % (m["name"], sha, r.stdout))
        return
    edits = m["edits"] if "edits" in m else [(m["file"], m["old"], m["new"])]
    for f, old, new in edits:
        p = os.path.join(REPO, f)
        s = open(p).read()
        if s.count(old) < 1:
            raise SystemExit("mutant %s: pattern not found in %s" % (m["name"], f))
        s = s.replace(old, new, 1)
        open(p, "w").write(s)


def revert():
    sh("git -C %s checkout -- . && git -C %s clean -fdq" % (REPO, REPO))


def run(m, baseline, tier):
    assert not sh("git -C %s status --porcelain" % REPO).stdout.strip(), REPO + " is dirty"
    res = {"mutant": m["name"], "props": m["props"], "time": time.strftime("%F %T")}
    try:
        apply(m)
        b = sh("cd %s && go build ./... 2>&1 && cd exp && go build -mod=mod ./... 2>&1" % REPO)
        if b.returncode != 0:
            res["build"] = "FAILED: " + b.stdout[-500:]
            return res
        if baseline:
            r = sh(os.path.join(VERIF, "tools/baseline.sh"))
            res["baseline"] = "green" if r.returncode == 0 else "red: " + r.stdout[-600:]
        for pid in m["props"]:
            t0 = time.time()
            r = sh("cd %s && %s./check %s %s" % (VERIF, CHECK_ENV, pid, tier))
            viol = [l for l in r.stdout.splitlines() if l.startswith("VIOLATION")]
            res[pid] = {"exit": r.returncode, "violations": len(viol), "wall": round(time.time() - t0, 1)}
            print("  %s on %s: exit %d (%d VIOLATION lines) %.0fs" % (m["name"], pid, r.returncode, len(viol), time.time() - t0), flush=True)
            if r.returncode != 1:
                print("    MISSED. tail:\n" + "\n".join(r.stdout.splitlines()[-8:]))
            else:
                # show the first failure message
                for l in r.stdout.splitlines():
                    if "failed after" in l or "--- FAIL" in l:
                        print("    " + l.strip()[:300])
                        break
    finally:
        revert()
        sh("rm -rf %s/replays/C*" % VERIF)
    with open(os.path.join(VERIF, "notes", "sensitivity.jsonl"), "a") as f:
        f.write(json.dumps(res) + "\n")
    return res


def main():
    a = sys.argv[1:]
    baseline = "--baseline" in a
    tier = "quick"
    a = [x for x in a if not x.startswith("--")]
    if not a or a[0] == "list":
        for m in MUTANTS:
            print(m["name"], m["props"], m.get("note", ""))
        return
    if a[0] == "all":
        sel = list(MUTANTS)
    elif a[0] == "run":
        sel = [m for m in MUTANTS if m["name"] in a[1:]]
    elif a[0] == "prop":
        sel = [m for m in MUTANTS if a[1] in m["props"]]
        for m in sel:
            m["props"] = [a[1]]
    for m in sel:
        try:
            r = run(m, baseline, tier)
        except SystemExit as e:
            print("  SKIPPED:", e)
            revert()
            continue
        print(json.dumps(r))


if __name__ == "__main__":
    main()
