#!/usr/bin/env python3
"""Regenerates the generated parts of DESIGN.md (between <!-- BEGIN x --> / <!-- END x --> markers):
  seeds  - one line per independently seeded change: what it breaks and which checks catch it (from seeded/*/meta.json)
  sens   - summary of the sensitivity trials (from notes/sensitivity.jsonl)
"""
import json, os, sys, glob, re
VERIF = os.path.dirname(os.path.dirname(os.path.abspath(__file__)))
sys.path.insert(0, os.path.join(VERIF, "tools"))
from mutants import MUTANTS  # noqa: E402
REGISTERED = {(m["name"], p) for m in MUTANTS for p in m["props"]}

def seeds():
    rows = []
    tot = own = any_ = oos = 0
    for p in sorted(glob.glob(os.path.join(VERIF, "seeded", "*", "meta.json")), key=lambda x: (os.path.basename(os.path.dirname(x)).split("-")[0], int(os.path.basename(os.path.dirname(x)).split("-")[1]))):
        m = json.load(open(p))
        sid, prop = m["seed"], m["property"]
        ch = m.get("checks", {})
        det = sorted(c for c, r in ch.items() if r.get("detected"))
        miss = sorted(c for c, r in ch.items() if not r.get("detected"))
        tot += 1
        own += prop in det
        any_ += bool(det)
        none = "**none**"
        if m.get("scope_note"):
            oos += 1
            none = "none (outside the listed properties)"
        rows.append("| %s | %s | %s | %s | %s |" % (sid, m.get("summary", "").replace("|", "/"), m.get("needs", "").replace("|", "/"), ", ".join(det) or none, ", ".join(miss)))
    head = "%d confirmed seeded changes; %d caught by the quick tier of at least one check, %d by the check of the property they were written against; %d kept for the record although what they break lies outside the listed properties.\n\n" % (tot, any_, own, oos)
    head += "| change | what it does | needs | caught by (quick) | run, not caught |\n|---|---|---|---|---|\n"
    return head + "\n".join(rows) + "\n"

def sens():
    last = {}
    for l in open(os.path.join(VERIF, "notes", "sensitivity.jsonl")):
        r = json.loads(l)
        for p in r.get("props", []):
            if p in r:
                if (r["mutant"], p) in REGISTERED:
                    last[(r["mutant"], p)] = r[p]
    by = {}
    for (m, p), res in last.items():
        d = by.setdefault(p, [0, 0, []])
        d[0] += 1
        if res.get("exit") == 1:
            d[1] += 1
        else:
            d[2].append(m)
    out = "%d (mutant, property) pairs, %d detected by the quick tier (latest trial of each).\n\n| property | mutants | detected | not detected |\n|---|---|---|---|\n" % (len(last), sum(1 for r in last.values() if r.get("exit") == 1))
    for p in sorted(by):
        out += "| %s | %d | %d | %s |\n" % (p, by[p][0], by[p][1], ", ".join(sorted(by[p][2])))
    return out

def main():
    path = os.path.join(VERIF, "DESIGN.md")
    s = open(path).read()
    for name, fn in (("seeds", seeds), ("sens", sens)):
        a, b = "<!-- BEGIN %s -->" % name, "<!-- END %s -->" % name
        if a in s and b in s:
            s = s[:s.index(a) + len(a)] + "\n" + fn() + s[s.index(b):]
    open(path, "w").write(s)

if __name__ == "__main__":
    main()
