#!/usr/bin/env python3
"""Regenerates /verif/MANIFEST.json from checks_config.py (run after editing the tables)."""
import json, os, sys
VERIF = os.path.dirname(os.path.dirname(os.path.abspath(__file__)))
sys.path.insert(0, VERIF)
from checks_config import CHECKS, LEVELS, META  # noqa: E402

props = [json.loads(l) for l in open(os.path.join(VERIF, "properties.jsonl"))]
baseline = json.load(open("/root/.vp/BASELINE.json"))["cmd"] if os.path.exists("/root/.vp/BASELINE.json") else ""
checks, na = [], []
for p in props:
    pid = p["id"]
    if pid in CHECKS and pid in META:
        m = META[pid]
        checks.append({
            "property_id": pid,
            "quick_cmd": "./check %s quick" % pid,
            "thorough_cmd": "./check %s thorough" % pid,
            "evidence_file": "/verif/evidence/%s.json" % pid,
            "replay_cmd_template": "./check %s --replay {path}" % pid,
            "engine": "rapid+gofuzz",
            "level_claimed": {"category": LEVELS.get(pid, "exploration"), "text": m["level_text"], "design_ref": "DESIGN.md section 4, %s" % pid},
            "level_note": m["level_note"],
            "technique": m["technique"],
        })
    else:
        na.append({"property_id": pid, "reason": META.get(pid, {}).get("na_reason", "check not built yet: property-based check planned in DESIGN.md section 4 but not implemented/validated so far, so it is not claimed")})
man = {
    "version": 1,
    "setup_cmd": "./check --setup",
    "hooks": {
        "guard": "verif",
        "enable": "none needed: the harness module's import path lies under go.uber.org/zap/, so it imports zap's internal packages (exit stub, bufferpool) directly; no source hooks exist in /repo",
        "baseline_off_cmd": baseline,
        "source_commits": [],
        "add_only": True,
    },
    "engines": [{"name": "rapid+gofuzz", "path": "/verif/harness", "serves_properties": [c["property_id"] for c in checks],
                 "kind_free_text": "property-based testing (pgregory.net/rapid v1.3.0: generators, state machines, shrinking) sharded over processes by ./check, plus Go native coverage-guided fuzzing in the thorough tier"}],
    "checks": checks,
    "not_applicable": na,
    "notes": "Every check is generated-input search against an explicit oracle (reference model, round trip, differential or metamorphic relation). ./check <ID> quick|thorough rebuilds the harness against /repo's working tree on every call. Exit 2 = inconclusive (never a violation). Genuine defects repaired in /repo as 'fix:' commits and the one known finding are listed in /verif/known_findings.json.",
}
json.dump(man, open(os.path.join(VERIF, "MANIFEST.json"), "w"), indent=1)
print("claimed:", [c["property_id"] for c in checks], "not claimed:", [n["property_id"] for n in na])
