#!/bin/bash
# Soundness sweep: every quick check at several seeds; prints any non-zero exit.
# Usage: tools/sweep.sh "<seeds>" [tier] ["<checks, e.g. 02 12 19>"]
SEEDS=${1:-"2 3 4 5 6"}; TIER=${2:-quick}; CHECKS=${3:-"01 02 03 04 05 06 07 08 09 10 11 12 13 14 15 16 17 18 19 20"}
[ -n "$VP_RUN_REPO" ] && export VERIF_REPO=$VP_RUN_REPO
bad=0
for s in $SEEDS; do
  for i in $CHECKS; do
    out=$(VERIF_SEED=$s ./check C$i $TIER 2>&1); rc=$?
    if [ $rc -ne 0 ]; then bad=$((bad+1)); echo "!! seed=$s C$i exit=$rc"; echo "$out" | tail -25; fi
    echo "seed=$s C$i rc=$rc $(echo "$out" | grep -m1 '^property=' | sed 's/.*evaluations/evaluations/')"
  done
done
echo "SWEEP DONE bad=$bad"
