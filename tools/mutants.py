"""Deliberate breakages for the sensitivity trials (DESIGN.md section 5)."""

FIX = {  # fix commits in /repo, by subject keyword -> resolved at run time
}

MUTANTS = [
    # ---- C01
    dict(name="c01-ns-not-restored", props=["C01"], file="zapcore/json_encoder.go",
         old="\tenc.closeOpenNamespaces()\n\tenc.openNamespaces = old\n", new="\tenc.closeOpenNamespaces()\n\t_ = old\n"),
    dict(name="c01-no-bracket-on-error", props=["C01", "C10"], file="zapcore/json_encoder.go",
         old="\terr := arr.MarshalLogArray(enc)\n\tenc.buf.AppendByte(']')\n", new="\terr := arr.MarshalLogArray(enc)\n\tif err == nil {\n\t\tenc.buf.AppendByte(']')\n\t}\n"),
    dict(name="c01-stack-inside-namespace", props=["C02"], file="zapcore/json_encoder.go",
         old="\tfinal.closeOpenNamespaces()\n\tif ent.Stack != \"\" && final.StacktraceKey != \"\" {\n\t\tfinal.AddString(final.StacktraceKey, ent.Stack)\n\t}\n",
         new="\tif ent.Stack != \"\" && final.StacktraceKey != \"\" {\n\t\tfinal.AddString(final.StacktraceKey, ent.Stack)\n\t}\n\tfinal.closeOpenNamespaces()\n"),
    dict(name="c01-0x1f-unescaped", props=["C01"], file="zapcore/json_encoder.go",
         old="if s[i] >= 0x20 && s[i] != '\\\\' && s[i] != '\"' {", new="if s[i] >= 0x1f && s[i] != '\\\\' && s[i] != '\"' {"),
    dict(name="c01-revert-F1", props=["C01"], revert="escape layout-formatted times"),
    dict(name="c01-revert-F2", props=["C01"], revert="omits the caller when EncodeCaller is nil"),
    dict(name="c01-clone-drops-namespaces", props=["C01", "C02", "C07"], file="zapcore/json_encoder.go",
         old="\tclone.openNamespaces = enc.openNamespaces\n", new=""),
    # ---- C02
    dict(name="c02-uint32-via-int32", props=["C02"], file="zapcore/json_encoder.go",
         old="func (enc *jsonEncoder) AddUint32(k string, v uint32)   { enc.AddUint64(k, uint64(v)) }", new="func (enc *jsonEncoder) AddUint32(k string, v uint32)   { enc.AddInt64(k, int64(int32(v))) }"),
    dict(name="c02-millis-div", props=["C02"], file="zapcore/encoder.go",
         old="enc.AppendInt64(d.Nanoseconds() / 1e6)", new="enc.AppendInt64(d.Nanoseconds() / 1e3)"),
    dict(name="c02-base64-url", props=["C02"], file="zapcore/json_encoder.go",
         old="enc.AddString(key, base64.StdEncoding.EncodeToString(val))", new="enc.AddString(key, base64.URLEncoding.EncodeToString(val))"),
    dict(name="c02-no-verbose", props=["C02"], file="zapcore/error.go",
         old="if verbose != basic {", new="if false && verbose != basic {"),
    dict(name="c02-revert-F3", props=["C02"], revert="sign of the imaginary part"),
    dict(name="c02-time-drops-location", props=["C02", "C03"], file="field.go",
         old="Integer: val.UnixNano(), Interface: val.Location()}", new="Integer: val.UnixNano()}"),
    dict(name="c02-epoch-millis-int-div", props=["C02"], file="zapcore/encoder.go",
         old="millis := float64(nanos) / float64(time.Millisecond)", new="millis := float64(nanos / int64(time.Millisecond))"),
    dict(name="c02-float32-as-64bits", props=["C02"], file="zapcore/field.go",
         old="enc.AddFloat32(f.Key, math.Float32frombits(uint32(f.Integer)))", new="enc.AddFloat32(f.Key, float32(math.Float64frombits(uint64(f.Integer))))"),
    dict(name="c02-causes-skip-first", props=["C02"], file="zapcore/error.go",
         old="\tfor i := range errs {\n\t\tif errs[i] == nil {\n\t\t\tcontinue\n\t\t}\n\n\t\tel := newErrArrayElem(errs[i])",
         new="\tfor i := range errs {\n\t\tif errs[i] == nil {\n\t\t\tbreak\n\t\t}\n\n\t\tel := newErrArrayElem(errs[i])"),
    dict(name="c02-name-omitted-when-nil-encoder", props=["C02"], file="zapcore/json_encoder.go",
         old="if ent.LoggerName != \"\" && final.NameKey != \"\" {", new="if ent.LoggerName != \"\" && final.NameKey != \"\" && final.EncodeName != nil {"),
]
